package scram

import (
	"context"

	"github.com/xdg-go/stringprep"
)

// C18, SCRAM: the kafka-go session wrapper around the SCRAM conversation reports success only after the server's
// final message was validated (mutual authentication). The exchange is the RFC 7677 test vector (SCRAM-SHA-256,
// user "user", password "pencil", 4096 iterations) with the client nonce fixed through the library's nonce hook; the
// hash functions run concretely in the interpreter (pure-Go implementations).
func VH_C18_ScramSession(variant int) {
	if variant == 3 {
		// credentials are SASLprep'ed (RFC 5802 5.1): U+2168 ROMAN NUMERAL NINE is mapped to "IX" by NFKC
		m, err := Mechanism(SHA256, "admin\u2168", "pencil")
		vhAssert(err == nil, "scram-mechanism-created")
		mm := m.(*mechanism)
		mm.client = mm.client.WithNonceGenerator(func() string { return "rOprNGfwEbeRWgbNEkqO" })
		_, first, err := mm.Start(context.Background())
		// natively the prepared form is "adminIX"; in the engine SASLprep is an injective marker function (stub)
		prepared, perr := stringprep.SASLprep.Prepare("admin\u2168")
		vhAssert(perr == nil, "saslprep-ok")
		vhAssert(err == nil && string(first) == "n,,n="+prepared+",r=rOprNGfwEbeRWgbNEkqO", "client-first-carries-the-saslprepped-user-name")
		vhReach("c18-scram-session")
		return
	}
	m, err := Mechanism(SHA256, "user", "pencil")
	vhAssert(err == nil, "scram-mechanism-created")
	mm := m.(*mechanism)
	mm.client = mm.client.WithNonceGenerator(func() string { return "rOprNGfwEbeRWgbNEkqO" })
	ctx := context.Background()
	sess, first, err := mm.Start(ctx)
	vhAssert(err == nil && string(first) == "n,,n=user,r=rOprNGfwEbeRWgbNEkqO", "client-first-message")
	done, final, err := sess.Next(ctx, []byte("r=rOprNGfwEbeRWgbNEkqO%hvYDpWUa2RaTCAfuxFIlj)hNlF$k0,s=W22ZaJ0SNY7soEsUEjb6gQ==,i=4096"))
	vhAssert(err == nil && !done, "client-final-produced-conversation-not-done")
	vhAssert(string(final) == "c=biws,r=rOprNGfwEbeRWgbNEkqO%hvYDpWUa2RaTCAfuxFIlj)hNlF$k0,p=dHzbZapWIk4jUhN+Ute9ytag9zjfMHgsqmmiz7AndVQ=", "client-final-message-is-the-rfc-vector")
	switch variant {
	case 0: // the genuine server signature
		done, _, err = sess.Next(ctx, []byte("v=6rriTRBi23WpRR/wtup+mMhUZUn/dB5nLTJRsjl95G4="))
		vhAssert(err == nil && done, "valid-server-signature-completes-the-authentication")
	case 1: // a wrong server signature: the server does not know the password
		done, _, err = sess.Next(ctx, []byte("v=7rriTRBi23WpRR/wtup+mMhUZUn/dB5nLTJRsjl95G4="))
		vhAssert(err != nil, "wrong-server-signature-is-an-error")
	case 2: // the server reports an error
		done, _, err = sess.Next(ctx, []byte("e=invalid-proof"))
		vhAssert(err != nil, "server-error-is-an-error")
	}
	vhReach("c18-scram-session")
}
