package gzip

import (
	"bytes"
	"io"
)

// C16, pooled gzip readers/writers: closing a reader twice (a deferred Close plus an explicit one) must not put
// its decoder into the package-level pool twice - two readers alive at the same time never share one decoder,
// and each decodes its own stream. The gzip stream is a constant (the third-party decoder runs on concrete
// bytes); what is checked is the wrapper's pooling logic.
var vhGzipHi = []byte{31, 139, 8, 0, 0, 0, 0, 0, 2, 255, 203, 200, 4, 0, 172, 42, 147, 216, 2, 0, 0, 0}

func vhReadAll(r io.Reader) []byte {
	var out []byte
	buf := make([]byte, 8)
	for i := 0; i < 16; i++ {
		n, err := r.Read(buf)
		out = append(out, buf[:n]...)
		if err != nil {
			break
		}
	}
	return out
}

func VH_C16_GzipPool(closes int) {
	c := &Codec{}
	r1 := c.NewReader(bytes.NewReader(vhGzipHi))
	vhAssert(string(vhReadAll(r1)) == "hi", "gzip-reader-decodes")
	for i := 0; i < closes; i++ {
		r1.Close()
	}
	a := c.NewReader(bytes.NewReader(vhGzipHi))
	b := c.NewReader(bytes.NewReader(vhGzipHi))
	ra, oka := a.(*reader)
	rb, okb := b.(*reader)
	vhAssert(oka && okb, "pooled-readers-open")
	if oka && okb {
		vhAssert(ra.Reader != rb.Reader, "two-live-readers-never-share-one-pooled-decoder")
	}
	vhAssert(string(vhReadAll(a)) == "hi", "first-live-reader-decodes-its-own-stream")
	vhAssert(string(vhReadAll(b)) == "hi", "second-live-reader-decodes-its-own-stream")
	a.Close()
	b.Close()
	vhReach("c16-gzip-pool")
}
