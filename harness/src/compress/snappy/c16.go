package snappy

import (
	"bytes"
	"io"
)

// C16 (the part that lives in this repository): xerial framing of the snappy codec and pooled-object reuse.
// The block codec is the code's own identity mode (encode/decode == nil), so the framing logic is exercised with
// symbolic payload bytes; the writer's block buffer capacity is preset to 1030 bytes (the logic is
// capacity-parametric: a block is flushed once fewer than 1024 bytes of capacity remain) so that block
// boundaries are reachable with small payloads.

func vhXerialRef(blocks [][]byte) []byte {
	out := []byte{130, 83, 78, 65, 80, 80, 89, 0, 0, 0, 0, 1, 0, 0, 0, 1}
	for _, b := range blocks {
		n := len(b)
		out = append(out, byte(n>>24), byte(n>>16), byte(n>>8), byte(n))
		out = append(out, b...)
	}
	return out
}

// vhParseXerial: independent parser of the framing (header once, then length-prefixed blocks).
func vhParseXerial(s []byte) (payload []byte, nblocks int, ok bool) {
	hdr := []byte{130, 83, 78, 65, 80, 80, 89, 0, 0, 0, 0, 1, 0, 0, 0, 1}
	if len(s) < 16 || !bytes.Equal(s[:16], hdr) {
		return nil, 0, false
	}
	p := 16
	for p < len(s) {
		if p+4 > len(s) {
			return nil, 0, false
		}
		n := int(s[p])<<24 | int(s[p+1])<<16 | int(s[p+2])<<8 | int(s[p+3])
		p += 4
		if n <= 0 || p+n > len(s) {
			return nil, 0, false
		}
		payload = append(payload, s[p:p+n]...)
		p += n
		nblocks++
	}
	return payload, nblocks, true
}

// H1: framing round trip. L payload bytes, written in two Write calls split at a chosen point, read back with a
// chosen Read buffer size.
// vhNotMagic: an unframed stream is a raw snappy block, which cannot begin with the xerial magic (its third byte
// would be a copy tag at the start of a block); with the identity block codec this has to be assumed.
func vhNotMagic(p []byte) {
	if len(p) >= 8 {
		vhAssume(!vhBytesEq(p[:8], []byte{130, 83, 78, 65, 80, 80, 89, 0}))
	}
}

type vhSegReader struct {
	r   io.Reader
	seg int
}

func (s *vhSegReader) Read(p []byte) (int, error) {
	if len(p) > s.seg {
		p = p[:s.seg]
	}
	return s.r.Read(p)
}

func VH_C16_FramingRoundTrip(L, framed int) {
	payload := vhBytes("payload", L)
	if framed == 0 {
		vhNotMagic(payload)
	}
	cut := vhChoose("write_split", L+1)
	var sink bytes.Buffer
	w := &xerialWriter{writer: &sink, framed: framed == 1, input: make([]byte, 0, 1030)}
	n1, err1 := w.Write(payload[:cut])
	n2, err2 := w.Write(payload[cut:])
	ferr := w.Flush()
	vhAssert(vhAll(err1 == nil, err2 == nil, ferr == nil, n1+n2 == L), "writes-accept-everything")
	stream := sink.Bytes()
	if framed == 1 {
		got, nblocks, ok := vhParseXerial(stream)
		vhAssert(ok, "stream-is-well-formed-xerial-framing")
		vhAssert(vhBytesEq(got, payload), "framed-blocks-carry-the-payload-in-order")
		vhAssert(nblocks >= 1, "at-least-one-block")
	} else {
		vhAssert(vhBytesEq(stream, payload), "unframed-identity-stream-is-the-payload")
	}
	// read it back through the reader (header detection on the first 16 bytes only)
	// the source delivers the stream whole, one byte at a time or three bytes at a time (a network connection
	// returns what has arrived: a length prefix may come in pieces)
	var src io.Reader = bytes.NewReader(stream)
	if seg := []int{0, 1, 3}[vhChoose("source_segment", 3)]; seg > 0 {
		src = &vhSegReader{r: src, seg: seg}
	}
	r := &xerialReader{reader: src}
	bufSize := 1 + vhChoose("read_buffer", 3)*7
	var out []byte
	buf := make([]byte, bufSize)
	for i := 0; i < 2*L+8; i++ {
		n, err := r.Read(buf)
		out = append(out, buf[:n]...)
		if err != nil {
			vhAssert(err == io.EOF, "reader-ends-with-EOF")
			break
		}
	}
	vhAssert(vhBytesEq(out, payload), "decompressing-the-compressed-stream-yields-the-input")
	vhReach("c16-roundtrip")
}

// H2: history independence. A pooled reader/writer left in an arbitrary state by an earlier (possibly aborted)
// stream is handed out again by NewReader/NewWriter: it behaves like a fresh one.
func VH_C16_PooledReader(L, staleKind int) {
	stale := &xerialReader{}
	switch staleKind {
	case 0: // aborted framed stream: magic header, pending input/output, non-zero byte count
		copy(stale.header[:], []byte{130, 83, 78, 65, 80, 80, 89, 0, 0, 0, 0, 1, 0, 0, 0, 1})
		stale.input = append(make([]byte, 0, 64), 9, 9, 9)
		stale.output = append(make([]byte, 0, 64), 7, 7, 7, 7)
		stale.offset = 1
		stale.nbytes = 23
	case 1: // arbitrary leftovers
		for i := range stale.header {
			stale.header[i] = vhByte("stale_header")
		}
		stale.input = append(make([]byte, 0, 64), vhByte("stale_input"))
		stale.output = append(make([]byte, 0, 64), vhByte("stale_output"), vhByte("stale_output"))
		stale.nbytes = int64(vhIntRange("stale_nbytes", 0, 1000))
	}
	readerPool.Put(stale)
	payload := vhBytes("payload", L) // an unframed stream of L arbitrary bytes
	vhNotMagic(payload)
	rc := (&Codec{}).NewReader(bytes.NewReader(payload))
	rd := rc.(*reader)
	vhAssert(rd.xerialReader == stale, "pooled-object-reused")
	rd.xerialReader.decode = nil // identity block codec (the real snappy decoder is out of reach)
	var out []byte
	buf := make([]byte, 5)
	for i := 0; i < 2*L+8; i++ {
		n, err := rc.Read(buf)
		out = append(out, buf[:n]...)
		if err != nil {
			break
		}
	}
	// a fresh reader on the same stream
	fresh := &xerialReader{reader: bytes.NewReader(payload)}
	var want []byte
	for i := 0; i < 2*L+8; i++ {
		n, err := fresh.Read(buf)
		want = append(want, buf[:n]...)
		if err != nil {
			break
		}
	}
	vhAssert(vhBytesEq(out, want), "pooled-reader-behaves-like-a-fresh-one")
	rc.Close()
	vhAssert(rd.xerialReader == nil, "closed-reader-drops-the-pooled-object")
	vhReach("c16-pooled-reader")
}

func VH_C16_PooledWriter(L, staleFramed, unframed int) {
	// the pooled writer comes from a stream of a codec value with framing `staleFramed`; the new stream is opened
	// by a codec value whose Framing is Framed (unframed=0) or Unframed (unframed=1): the pool is package level,
	// the output must follow the codec that opens the stream
	var junk bytes.Buffer
	stale := &xerialWriter{writer: &junk, framed: staleFramed == 1, nbytes: int64(vhIntRange("stale_nbytes", 0, 1000))}
	stale.input = append(make([]byte, 0, 1030), vhByte("stale_input"), vhByte("stale_input"))
	stale.output = append(make([]byte, 0, 64), 5)
	writerPool.Put(stale)
	var sink bytes.Buffer
	codec := &Codec{Framing: Framed}
	if unframed == 1 {
		codec.Framing = Unframed
	}
	wc := codec.NewWriter(&sink)
	wr := wc.(*writer)
	vhAssert(wr.xerialWriter == stale, "pooled-object-reused")
	wr.xerialWriter.encode = nil
	payload := vhBytes("payload", L)
	n, err := wc.Write(payload)
	cerr := wc.Close()
	vhAssert(vhAll(n == L, err == nil, cerr == nil), "write-and-close-ok")
	if unframed == 1 {
		vhAssert(vhBytesEq(sink.Bytes(), payload), "unframed-codec-writes-the-bare-block")
	} else {
		got, _, ok := vhParseXerial(sink.Bytes())
		vhAssert(ok, "header-written-once-at-the-start-of-the-new-stream")
		vhAssert(vhBytesEq(got, payload), "nothing-of-the-previous-stream-leaks")
	}
	vhAssert(junk.Len() == 0, "previous-sink-untouched")
	vhReach("c16-pooled-writer")
}

// vhDataEOFReader delivers its data in segments; with eofWithData the last bytes come together with io.EOF (what
// io.Reader allows and e.g. iotest.DataErrReader or a TLS connection do), otherwise EOF comes on its own.
type vhDataEOFReader struct {
	data        []byte
	seg         int
	eofWithData bool
}

func (r *vhDataEOFReader) Read(p []byte) (int, error) {
	if len(r.data) == 0 {
		return 0, io.EOF
	}
	n := len(p)
	if n > r.seg {
		n = r.seg
	}
	if n > len(r.data) {
		n = len(r.data)
	}
	copy(p, r.data[:n])
	r.data = r.data[n:]
	if len(r.data) == 0 && r.eofWithData {
		return n, io.EOF
	}
	return n, nil
}

// H1b: the writer fed through ReadFrom (io.Copy from a source without WriteTo): every byte the source delivers is in
// the stream, also the bytes that arrive together with io.EOF, and the count returned is the number of bytes taken.
func VH_C16_ReadFrom(L, framed int) {
	payload := vhBytes("payload", L)
	if framed == 0 {
		vhNotMagic(payload)
	}
	seg := []int{1, 3, L + 1}[vhChoose("source_segment", 3)]
	src := &vhDataEOFReader{data: append([]byte{}, payload...), seg: seg, eofWithData: vhBool("last_bytes_come_with_EOF")}
	var sink bytes.Buffer
	w := &xerialWriter{writer: &sink, framed: framed == 1, input: make([]byte, 0, 1030)}
	n, err := w.ReadFrom(src)
	ferr := w.Flush()
	vhAssert(err == nil && ferr == nil, "readfrom-ok")
	vhAssert(int(n) == L, "readfrom-counts-every-byte-of-the-source")
	stream := sink.Bytes()
	if framed == 1 {
		got, _, ok := vhParseXerial(stream)
		vhAssert(ok, "stream-is-well-formed-xerial-framing")
		vhAssert(vhBytesEq(got, payload), "framed-blocks-carry-the-whole-payload-in-order")
	} else {
		vhAssert(vhBytesEq(stream, payload), "unframed-identity-stream-is-the-whole-payload")
	}
	vhReach("c16-readfrom")
}
