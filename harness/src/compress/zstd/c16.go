package zstd

import "bytes"

// C16, pooled zstd encoders: closing a writer twice (the library itself does: a deferred Close plus an explicit one
// in protocol/record_v1.go) must not put its encoder into the codec's pool twice - two writers alive at the same
// time never share one encoder, a closed writer refuses further writes. The third-party encoder is an opaque
// object here (engine stub): what is checked is the wrapper's pooling logic, not the compression.
func VH_C16_ZstdPool(closes int) {
	c := &Codec{}
	var out1, outA, outB bytes.Buffer
	w1 := c.NewWriter(&out1)
	_, err := w1.Write([]byte("hello"))
	vhAssert(err == nil, "zstd-writer-accepts-data")
	for i := 0; i < closes; i++ {
		w1.Close()
	}
	if closes > 0 {
		_, err = w1.Write([]byte("x"))
		vhAssert(err != nil, "closed-zstd-writer-refuses-writes")
	}
	a := c.NewWriter(&outA)
	b := c.NewWriter(&outB)
	wa, oka := a.(*writer)
	wb, okb := b.(*writer)
	vhAssert(oka && okb, "pooled-writers-open")
	if oka && okb {
		vhAssert(wa.enc != nil && wb.enc != nil, "live-writers-have-an-encoder")
		vhAssert(wa.enc != wb.enc, "two-live-writers-never-share-one-pooled-encoder")
	}
	a.Close()
	b.Close()
	vhReach("c16-zstd-pool")
}
