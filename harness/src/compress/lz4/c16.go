package lz4

import "bytes"

// C16, pooled lz4 readers and writers: closing one twice (a deferred Close plus an explicit one) must not put its
// third-party reader/writer into the package-level pool twice - two alive at the same time never share one. The
// pierrec lz4 objects are opaque here (engine stubs): what is checked is the wrapper's pooling logic.
func VH_C16_Lz4Pool(closes int) {
	c := &Codec{}
	r1 := c.NewReader(bytes.NewReader(nil))
	w1 := c.NewWriter(&bytes.Buffer{})
	for i := 0; i < closes; i++ {
		r1.Close()
		w1.Close()
	}
	ra, rb := c.NewReader(bytes.NewReader(nil)).(*reader), c.NewReader(bytes.NewReader(nil)).(*reader)
	vhAssert(ra.Reader != nil && rb.Reader != nil, "live-readers-have-a-decoder")
	vhAssert(ra.Reader != rb.Reader, "two-live-readers-never-share-one-pooled-decoder")
	wa, wb := c.NewWriter(&bytes.Buffer{}).(*writer), c.NewWriter(&bytes.Buffer{}).(*writer)
	vhAssert(wa.Writer != nil && wb.Writer != nil, "live-writers-have-an-encoder")
	vhAssert(wa.Writer != wb.Writer, "two-live-writers-never-share-one-pooled-encoder")
	ra.Close()
	rb.Close()
	wa.Close()
	wb.Close()
	vhReach("c16-lz4-pool")
}
