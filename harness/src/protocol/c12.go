package protocol

// C12-H1: version selection. The client-side range of an API is made symbolic by installing a synthetic entry in
// the registry (k+1 consecutive versions starting at a symbolic cmin); the broker advertises a symbolic range.
func VH_C12_SelectVersion(k int) {
	cmin := vhInt16("client_min")
	vhAssume(vhAll(cmin >= 0, cmin < 1000))
	reqs := make([]messageType, k+1)
	for i := range reqs {
		reqs[i].version = cmin + int16(i)
	}
	cmax := cmin + int16(k)
	saved := apiTypes[Fetch]
	apiTypes[Fetch] = apiType{requests: reqs, responses: reqs}
	bmin := vhInt16("broker_min")
	bmax := vhInt16("broker_max")
	vhAssume(vhAll(0 <= bmin, bmin <= bmax))
	got := Fetch.SelectVersion(bmin, bmax)
	apiTypes[Fetch] = saved
	overlap := vhAll(bmin <= cmax, cmin <= bmax)
	want := bmax
	if cmax < bmax {
		want = cmax
	}
	vhAssert(vhImplies(overlap, got == want), "selects-highest-common-version")
	vhAssert(vhImplies(overlap, vhAll(bmin <= got, got <= bmax, cmin <= got, got <= cmax)), "selected-version-in-both-ranges")
	vhReach("c12-select-version")
}
