package protocol

import (
	"bytes"
	"io"
	"reflect"
)

// C17-H1: a well-formed response frame over symbolic field values, delivered by a connection that ends after k
// bytes (every k in [0, len)), must make ReadResponse return an error - never a message, never a panic, never a
// hang. endKind: 0 = clean EOF at the cut, 1 = a network error at the cut.

type vhNetErr struct{}

func (vhNetErr) Error() string   { return "vh: connection reset" }
func (vhNetErr) Timeout() bool   { return false }
func (vhNetErr) Temporary() bool { return false }

func VH_C17_TruncatedResponse(apiKey, version, shape, endKind int) {
	mt := vhMsgType(apiKey, version, true)
	msg := mt.new()
	vhFill(reflect.ValueOf(msg).Elem(), "m", shape)
	var buf bytes.Buffer
	err := WriteResponse(&buf, int16(version), vhInt32("corr"), msg)
	vhAssume(err == nil)
	frame := buf.Bytes()
	k := vhChoose("cut", len(frame))
	fc := &vhFakeConn{data: frame[:k]}
	if endKind == 1 {
		fc.endErr = vhNetErr{}
	}
	// optionally deliver the prefix in two TCP segments
	if k > 1 {
		fc.segment = 1 + vhChoose("segment", 2)*(k-1)
	}
	conn := NewConn(fc, "vh")
	_, got, rerr := ReadResponse(conn, ApiKey(apiKey), int16(version))
	vhAssert(rerr != nil, "truncated-response-yields-error")
	vhAssert(got == nil || rerr != nil, "no-message-with-truncated-frame")
	if endKind == 0 {
		// a clean EOF in the middle of a frame is not reported as a clean end of stream
		vhAssert(rerr != io.EOF, "truncation-is-not-clean-eof")
	}
	vhReach("c17-truncated")
}
