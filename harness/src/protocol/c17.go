package protocol

import (
	"bytes"
	"io"
	"reflect"
)

// C17-H1: a well-formed response frame over symbolic field values, delivered by a connection that ends after k
// bytes (every k in [0, len)), must make ReadResponse return an error - never a message, never a panic, never a
// hang. endKind: 0 = clean EOF at the cut, 1 = a network error at the cut.

type vhNetErr struct{}

func (vhNetErr) Error() string   { return "vh: connection reset" }
func (vhNetErr) Timeout() bool   { return false }
func (vhNetErr) Temporary() bool { return false }

func VH_C17_TruncatedResponse(apiKey, version, shape, endKind int) {
	mt := vhMsgType(apiKey, version, true)
	msg := mt.new()
	vhFill(reflect.ValueOf(msg).Elem(), "m", shape)
	var buf bytes.Buffer
	err := WriteResponse(&buf, int16(version), vhInt32("corr"), msg)
	vhAssume(err == nil)
	frame := buf.Bytes()
	k := vhChoose("cut", len(frame))
	fc := &vhFakeConn{data: frame[:k]}
	if endKind == 1 {
		fc.endErr = vhNetErr{}
	}
	// optionally deliver the prefix in two TCP segments
	if k > 1 {
		fc.segment = 1 + vhChoose("segment", 2)*(k-1)
	}
	conn := NewConn(fc, "vh")
	_, got, rerr := ReadResponse(conn, ApiKey(apiKey), int16(version))
	vhAssert(rerr != nil, "truncated-response-yields-error")
	vhAssert(got == nil || rerr != nil, "no-message-with-truncated-frame")
	if endKind == 0 {
		// a clean EOF in the middle of a frame is not reported as a clean end of stream
		vhAssert(rerr != io.EOF, "truncation-is-not-clean-eof")
	}
	vhReach("c17-truncated")
}

// C17-H1b: fetch responses carrying record batches (reference-encoded, several batches per response), cut at every
// byte of the record data: ReadResponse must fail - never a response holding only the batches received so far.
func VH_C17_TruncatedFetch(version, nb int) {
	first := vhInt64("log_fragment_start")
	vhAssume(vhAll(first >= 0, first < 1<<40))
	var wire []byte
	base := first
	for b := 0; b < nb; b++ {
		k := vhBytes("key", 1)
		v := vhBytes("value", 2)
		wire = append(wire, vhEncBatchV2(base, 0, 0, 1600000000000, 1600000000000, 1, []vhRec{{key: k, value: v}})...)
		base++
	}
	frame := vhFetchResponse(7, version, 0, "t", 0, 0, base+10, wire)
	// cut somewhere inside the record data (the header part is covered by VH_C17_TruncatedResponse)
	k := len(frame) - len(wire) + vhChoose("cut", len(wire))
	fc := &vhFakeConn{data: frame[:k]}
	conn := NewConn(fc, "vh")
	_, got, rerr := ReadResponse(conn, Fetch, int16(version))
	vhAssert(rerr != nil, "truncated-fetch-response-yields-error")
	vhAssert(got == nil || rerr != nil, "no-partial-fetch-response")
	vhReach("c17-truncated-fetch")
}

// The raw SASL exchange of a Transport connection (after a v0 handshake): the answer is a 4-byte length and a token
// outside the normal framing. Cut after any byte: error, never a shortened token presented as the answer.
func VH_C17_RawExchangeCut(L int) {
	token := vhBytes("token", L)
	frame := append([]byte{byte(L >> 24), byte(L >> 16), byte(L >> 8), byte(L)}, token...)
	k := vhChoose("cut", len(frame))
	fc := &vhFakeConn{data: frame[:k]}
	if vhChoose("end_kind", 2) == 1 {
		fc.endErr = vhNetErr{}
	}
	conn := NewConn(fc, "vh")
	conn.SetVersions(map[ApiKey]int16{SaslHandshake: 0, SaslAuthenticate: 0})
	req := apiTypes[SaslAuthenticate].requests[0].new()
	msg, err := conn.RoundTrip(req)
	vhAssert(err != nil, "cut-raw-sasl-answer-is-an-error")
	vhAssert(msg == nil, "cut-raw-sasl-answer-yields-no-message")
	vhReach("c17-raw-exchange-cut")
}
