package protocol

import (
	"reflect"
	"time"
)

// vhFill fills the addressable value v with symbolic content, type-directed.
// Scalars are symbolic variables. Lengths are decided by `shape`:
//   0 = minimal (strings empty, byte slices and arrays nil)
//   1 = ones    (every string 1 symbolic byte, every byte slice 1 byte, every array 1 element)
//   2 = full(1) (every string 0|1 byte, every byte slice / array nil|empty|1: the full product, by forking)
//   3 = twos    (every string 2 bytes, every byte slice 2 bytes, every array 2 elements)
// Plain Go over reflect + the vh primitives: runs symbolically in the engine and natively in replays.
func vhFill(v reflect.Value, name string, shape int) {
	switch v.Kind() {
	case reflect.Bool:
		if shape == 3 {
			// keep the number of paths down (the codec branches on every boolean): fixed, alternating
			vhBoolFlip = !vhBoolFlip
			v.SetBool(vhBoolFlip)
		} else {
			v.SetBool(vhBool(name))
		}
	case reflect.Int8:
		v.SetInt(int64(vhInt8(name)))
	case reflect.Int16:
		v.SetInt(int64(vhInt16(name)))
	case reflect.Int32:
		v.SetInt(int64(vhInt32(name)))
	case reflect.Int64:
		v.SetInt(vhInt64(name))
	case reflect.Uint8:
		v.SetUint(uint64(vhByte(name)))
	case reflect.Float64:
		// floats are only moved by the codec: one fixed bit pattern per field
		v.SetFloat(1.5)
	case reflect.String:
		v.SetString(vhString(name, vhLen(name, shape, false)))
	case reflect.Slice:
		if v.Type().Elem().Kind() == reflect.Uint8 {
			n := vhLen(name, shape, true)
			if n >= 0 {
				v.SetBytes(vhBytes(name, n))
			}
			return
		}
		n := vhLen(name, shape, true)
		if n < 0 {
			return
		}
		s := reflect.MakeSlice(v.Type(), n, n)
		for i := 0; i < n; i++ {
			vhFill(s.Index(i), name+"[]", shape)
		}
		v.Set(s)
	case reflect.Struct:
		if v.Type() == reflect.TypeOf(RecordSet{}) {
			// record sets are the subject of C05: here one fixed small batch so that the message can be encoded
			v.Set(reflect.ValueOf(RecordSet{
				Version: 2,
				Records: NewRecordReader(Record{Offset: 0, Time: time.Unix(1, 0), Key: NewBytes([]byte("k")), Value: NewBytes([]byte("v"))}),
			}))
			return
		}
		if v.Type() == reflect.TypeOf(RawRecordSet{}) {
			return
		}
		t := v.Type()
		for i := 0; i < t.NumField(); i++ {
			f := t.Field(i)
			if f.PkgPath != "" {
				continue
			}
			vhFill(v.Field(i), name+"."+f.Name, shape)
		}
	}
}

var vhBoolFlip bool

// vhLen picks a length; -1 means nil (only when nilable).
func vhLen(name string, shape int, nilable bool) int {
	switch shape {
	case 0:
		if nilable {
			return -1
		}
		return 0
	case 1:
		return 1
	case 3:
		return 2
	}
	if nilable {
		return vhChoose(name+".len", 3) - 1
	}
	return vhChoose(name+".len", 2)
}

// vhVersioned tells whether a struct field with this kafka tag is part of the wire format at `version`
// (fields without a tag are always encoded).
func vhVersioned(tag string, hasTag bool, version int16) bool {
	if !hasTag {
		return true
	}
	in := false
	forEachStructTag(tag, func(t structTag) bool {
		if t.MinVersion <= version && version <= t.MaxVersion {
			in = true
			return false
		}
		return true
	})
	return in
}

// vhDeepEq compares two values of the same type field by field, restricted to the fields present at `version`,
// identifying nil and empty slices (the wire format does not distinguish them for non-nullable fields).
// It builds one boolean without branching on symbolic data.
func vhDeepEq(a, b reflect.Value, version int16) bool {
	switch a.Kind() {
	case reflect.Bool:
		return a.Bool() == b.Bool()
	case reflect.Int8, reflect.Int16, reflect.Int32, reflect.Int64:
		return a.Int() == b.Int()
	case reflect.Uint8:
		return a.Uint() == b.Uint()
	case reflect.Float64:
		return a.Float() == b.Float()
	case reflect.String:
		return vhStrEq(a.String(), b.String())
	case reflect.Slice:
		if a.Type().Elem().Kind() == reflect.Uint8 {
			return vhBytesEq(a.Bytes(), b.Bytes())
		}
		if a.Len() != b.Len() {
			return false
		}
		ok := true
		for i := 0; i < a.Len(); i++ {
			ok = vhAll(ok, vhDeepEq(a.Index(i), b.Index(i), version))
		}
		return ok
	case reflect.Struct:
		if a.Type() == reflect.TypeOf(RecordSet{}) || a.Type() == reflect.TypeOf(RawRecordSet{}) {
			return true
		}
		t := a.Type()
		ok := true
		for i := 0; i < t.NumField(); i++ {
			f := t.Field(i)
			if f.PkgPath != "" {
				continue
			}
			tag, has := f.Tag.Lookup("kafka")
			if !vhVersioned(tag, has, version) {
				continue
			}
			ok = vhAll(ok, vhDeepEq(a.Field(i), b.Field(i), version))
		}
		return ok
	}
	return true
}

// vhNilnessEq: nil-ness of nullable slices/bytes is preserved (nullable fields only make sense where tagged).
func vhIsNullableNilPreserved(a, b reflect.Value, version int16) bool {
	if a.Kind() != reflect.Struct || a.Type() == reflect.TypeOf(RecordSet{}) {
		return true
	}
	t := a.Type()
	ok := true
	for i := 0; i < t.NumField(); i++ {
		f := t.Field(i)
		if f.PkgPath != "" {
			continue
		}
		tag, has := f.Tag.Lookup("kafka")
		if !has {
			continue
		}
		nullable, in := false, false
		forEachStructTag(tag, func(t structTag) bool {
			if t.MinVersion <= version && version <= t.MaxVersion {
				in, nullable = true, t.Nullable
				return false
			}
			return true
		})
		if !in {
			continue
		}
		fa, fb := a.Field(i), b.Field(i)
		switch fa.Kind() {
		case reflect.Slice:
			if nullable {
				ok = vhAll(ok, fa.IsNil() == fb.IsNil())
			}
			if fa.Type().Elem().Kind() == reflect.Struct && fa.Len() == fb.Len() {
				for k := 0; k < fa.Len(); k++ {
					ok = vhAll(ok, vhIsNullableNilPreserved(fa.Index(k), fb.Index(k), version))
				}
			}
		case reflect.Struct:
			ok = vhAll(ok, vhIsNullableNilPreserved(fa, fb, version))
		}
	}
	return ok
}
