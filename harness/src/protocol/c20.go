package protocol

// C20: malformed length fields from the network cannot crash or balloon the client.
// The frame is N fully symbolic bytes (size prefix included) read through a protocol.Conn exactly as the
// Transport does. Obligations: no panic, every loop bounded (unwinding assertion), every allocation whose size
// depends on the input stays below vhAllocLimit, outcome is (msg, nil) or (·, err).

const vhC20AllocLimit = 1 << 16 // bytes; the frame itself is at most a few dozen bytes

// vhFrame: mode 0 = the 4-byte size prefix announces exactly the N-4 bytes that follow (all of them symbolic);
// mode 1 = the prefix is symbolic as well (negative, oversized, short).
func vhFrame(N, mode int) []byte {
	if mode == 1 {
		return vhBytes("frame", N)
	}
	n := N - 4
	frame := []byte{byte(n >> 24), byte(n >> 16), byte(n >> 8), byte(n)}
	return append(frame, vhBytes("body", n)...)
}

func VH_C20_ReadResponse(apiKey, version, N, mode int) {
	vhAllocLimit(vhC20AllocLimit)
	frame := vhFrame(N, mode)
	conn := NewConn(&vhFakeConn{data: frame}, "vh")
	_, msg, err := ReadResponse(conn, ApiKey(apiKey), int16(version))
	vhAssert(vhAny(msg != nil, err != nil), "outcome-is-message-or-error")
	if err != nil {
		vhReach("c20-error")
	} else {
		vhReach("c20-decoded")
	}
}

func VH_C20_ReadRequest(N, mode int) {
	vhAllocLimit(vhC20AllocLimit)
	frame := vhFrame(N, mode)
	conn := NewConn(&vhFakeConn{data: frame}, "vh")
	_, _, _, msg, err := ReadRequest(conn)
	vhAssert(vhAny(msg != nil, err != nil), "request-outcome-is-message-or-error")
	vhReach("c20-request-done")
}
