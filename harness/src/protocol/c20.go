package protocol

import (
	"bufio"
	"bytes"
	"reflect"
)

// C20: malformed length fields from the network cannot crash or balloon the client.
// The frame is N fully symbolic bytes (size prefix included) read through a protocol.Conn exactly as the
// Transport does. Obligations: no panic, every loop bounded (unwinding assertion), every allocation whose size
// depends on the input stays below vhAllocLimit, outcome is (msg, nil) or (·, err).

const vhC20AllocLimit = 1 << 16 // bytes; the frame itself is at most a few dozen bytes

// vhFrame: mode 0 = the 4-byte size prefix announces exactly the N-4 bytes that follow (all of them symbolic);
// mode 1 = the prefix is symbolic as well (negative, oversized, short); mode 2 = symbolic and not smaller than N-4.
func vhFrame(N, mode int) []byte {
	if mode == 1 {
		return vhBytes("frame", N)
	}
	if mode == 2 {
		// the prefix announces at least the bytes that arrive (a peer that lies upwards or stalls): any value
		// from N-4 to 2^31-1
		f := vhBytes("frame", N)
		size := int32(uint32(f[0])<<24 | uint32(f[1])<<16 | uint32(f[2])<<8 | uint32(f[3]))
		vhAssume(size >= int32(N-4))
		return f
	}
	n := N - 4
	frame := []byte{byte(n >> 24), byte(n >> 16), byte(n >> 8), byte(n)}
	return append(frame, vhBytes("body", n)...)
}

func VH_C20_ReadResponse(apiKey, version, N, mode int) {
	vhAllocLimit(vhC20AllocLimit)
	// sizes and counts are explored value by value up to N (a frame of N bytes cannot hold more elements); the
	// obligations at each allocation and slice expression are discharged for every value
	vhSplitCap(N)
	frame := vhFrame(N, mode)
	conn := NewConn(&vhFakeConn{data: frame}, "vh")
	_, msg, err := ReadResponse(conn, ApiKey(apiKey), int16(version))
	vhAssert(vhAny(msg != nil, err != nil), "outcome-is-message-or-error")
	if err != nil {
		vhReach("c20-error")
	} else {
		vhReach("c20-decoded")
	}
}

func VH_C20_ReadRequest(N, mode int) {
	vhAllocLimit(vhC20AllocLimit)
	vhSplitCap(N)
	frame := vhFrame(N, mode)
	conn := NewConn(&vhFakeConn{data: frame}, "vh")
	_, _, _, msg, err := ReadRequest(conn)
	vhAssert(vhAny(msg != nil, err != nil), "request-outcome-is-message-or-error")
	vhReach("c20-request-done")
}

// Record sets: RecordSet.ReadFrom on L arbitrary bytes behind a size prefix (honest or arbitrary). Fields covered
// by a checksum are exempt (the property says so): the stored CRC is assumed never to match the checksum computed
// over arbitrary bytes (vhCRCMismatch), so everything up to and including the checksum comparison is explored.
func VH_C20_RecordSet(L, mode, magic int) {
	vhAllocLimit(vhC20AllocLimit)
	vhCRCMismatch(mode&2 == 0) // mode 2/3: the stored checksum may also match (deeper than the property demands)
	var data []byte
	if mode&1 == 1 {
		data = vhBytes("recordset", 4+L)
	} else {
		data = append([]byte{byte(L >> 24), byte(L >> 16), byte(L >> 8), byte(L)}, vhBytes("records", L)...)
	}
	// the magic byte (offset 16 of the set) decides the format: one work item per format, -1 = any other value
	if L > 16 {
		if magic >= 0 {
			vhAssume(data[4+16] == byte(magic))
		} else {
			vhAssume(data[4+16] > 2)
		}
	}
	if magic == 1 && L >= 26 {
		// the timestamp of the first v1 message is not a length field and only feeds time.Unix (division by
		// constants): concrete, stated in the spec
		for i := 18; i < 26; i++ {
			vhAssume(data[4+i] == 0)
		}
	}
	rs := RecordSet{}
	_, err := rs.ReadFrom(bytes.NewReader(data))
	_ = err
	vhReach("c20-recordset-done")
}

// The raw SASL exchange of a Transport connection (after a v0 handshake the token travels outside ReadResponse):
// 4-byte length + bytes read by saslauthenticate.(*Request).RawExchange. Exercised here through the interface the
// connection uses.
func VH_C20_RawExchange(N int) {
	vhAllocLimit(vhC20AllocLimit)
	frame := vhBytes("raw", N)
	fc := &vhFakeConn{data: frame}
	conn := NewConn(fc, "vh")
	conn.SetVersions(map[ApiKey]int16{SaslHandshake: 0, SaslAuthenticate: 0})
	req := apiTypes[SaslAuthenticate].requests[0].new()
	msg, err := conn.RoundTrip(req)
	vhAssert(vhAny(msg != nil, err != nil), "raw-exchange-outcome-is-message-or-error")
	vhReach("c20-raw-exchange")
}

// Unit level: the decode function of one schema element (as the reflection compiler builds it for a message
// field) on N arbitrary bytes, flexible (compact, unsigned-varint lengths up to 10 bytes wide) and not. The
// whole-message harness reaches the first length field of a flexible message only after its header and fixed
// fields; here every byte of a full-width varint length or count is symbolic.
type vhC20Elem struct {
	A int16  `kafka:"min=v0,max=v0"`
	S string `kafka:"min=v0,max=v0,nullable"`
}

func VH_C20_DecodeValue(kind, N, mode int) {
	vhAllocLimit(vhC20AllocLimit)
	vhSplitCap(N)
	data := vhBytes("value", N)
	remain := N
	if mode == 2 {
		remain = int(vhInt32("announced"))
		vhAssume(remain >= N)
	}
	d := &decoder{reader: bytes.NewReader(data), remain: remain}
	flexible := kind%2 == 1
	tag := structTag{MinVersion: 0, MaxVersion: 0, TagID: -2, Nullable: kind >= 10}
	var target interface{}
	switch (kind % 10) / 2 {
	case 0:
		target = new([]int32)
	case 1:
		target = new([]vhC20Elem)
	case 2:
		target = new(string)
	case 3:
		target = new([]byte)
	case 4:
		target = new([]string)
	}
	dec := decodeFuncOf(reflect.TypeOf(target).Elem(), 0, flexible, tag)
	dec(d, valueOf(target))
	d.discardAll()
	vhReach("c20-decode-value")
}

// Structured variant for the tag buffer of a flexible response header: the frame announces more than arrives, the
// tagged-field count is an arbitrary 64-bit value (encoded as a 10-byte varint), followed by `extra` arbitrary
// bytes. The loop over the tagged fields must end with the bytes, not with the count.
func VH_C20_FlexHeaderTags(apiKey, version, extra int) {
	vhAllocLimit(vhC20AllocLimit)
	vhSplitCap(16)
	count := vhUint64("tagged_field_count")
	announced := vhInt32("announced_size")
	n := 4 + 10 + extra
	vhAssume(announced >= int32(n))
	w := &vhW{}
	w.i32(announced)
	w.i32(vhInt32("correlation_id"))
	for i := 0; i < 9; i++ {
		w.u8(0x80 | byte(count>>(7*uint(i)))&0x7f)
	}
	w.u8(byte(count>>63) & 1)
	w.raw(vhBytes("rest", extra))
	conn := NewConn(&vhFakeConn{data: w.b}, "vh")
	_, msg, err := ReadResponse(conn, ApiKey(apiKey), int16(version))
	vhAssert(vhAny(msg != nil, err != nil), "flex-header-outcome-is-message-or-error")
	vhReach("c20-flex-header-tags")
}

// vhPlainReader hides every method of the reader it wraps except Read.
type vhPlainReader struct{ r *bytes.Reader }

func (p vhPlainReader) Read(b []byte) (int, error) { return p.r.Read(b) }

// C20-H6: a record set nested in a message (RecordSet.ReadFrom called with the message's decoder, as for fetch and
// produce bodies). The decoder may take 4+L bytes; the size field of the record set is symbolic (negative, short,
// exact, larger than what is left by any amount), the L bytes after it are symbolic, and the bytes of the next frame
// follow. Whatever the size says, the decoder's budget never goes negative, nothing of the next frame is consumed,
// and a size beyond the enclosing message is an error. kind 0: buffered source (protocol.Conn); kind 1: plain reader.
func VH_C20_NestedRecordSet(L, magic, kind int) {
	vhAllocLimit(vhC20AllocLimit)
	vhCRCMismatch(true)
	size := vhInt32("record_set_size")
	body := vhBytes("records", L)
	if L > 16 {
		if magic >= 0 {
			vhAssume(body[16] == byte(magic))
		} else {
			vhAssume(body[16] > 2)
		}
	}
	if magic == 1 && L >= 26 {
		for i := 18; i < 26; i++ {
			vhAssume(body[i] == 0) // first timestamp: not a length field (see VH_C20_RecordSet)
		}
	}
	data := []byte{byte(size >> 24), byte(size >> 16), byte(size >> 8), byte(size)}
	data = append(data, body...)
	data = append(data, 0xA1, 0xA2, 0xA3, 0xA4, 0xA5, 0xA6, 0xA7, 0xA8)
	rd := bytes.NewReader(data)
	var src *bufio.Reader
	d := &decoder{remain: 4 + L}
	if kind == 0 {
		src = bufio.NewReader(rd)
		d.reader = src
	} else {
		d.reader = vhPlainReader{rd}
	}
	rs := RecordSet{}
	_, err := rs.ReadFrom(d)
	vhAssert(d.remain >= 0, "decoder-budget-never-negative")
	consumed := len(data) - rd.Len()
	if src != nil {
		consumed -= src.Buffered()
	}
	vhAssert(consumed <= 4+L, "next-frame-untouched")
	if int(size) > L {
		vhAssert(err != nil, "record-set-larger-than-its-message-is-an-error")
	}
	vhReach("c20-nested-recordset-done")
}
