package protocol

import (
	"bytes"
	"math"
	"reflect"
	"time"
)

// Reference encoder for C04 (oracle outside the code under test). It is driven by vhSchema, the snapshot of the
// wire schema taken from the pinned tree (c04_schema.go), and by the encoding rules of the Kafka protocol guide
// written down here from scratch: big-endian integers, int16/int32 length prefixes with -1 for null, and, in
// flexible versions, unsigned-varint length+1 prefixes with 0 for null and a tag buffer after every structure.
// Nothing below calls the codec of package protocol, except for the payload of record sets (subject of C05).

type vhSchemaField struct {
	Name   string
	Tag    string
	HasTag bool
	GoType string
}

type vhRefTag struct {
	min, max int
	nullable bool
	flexMark bool // "tag": the structure has a tag buffer from version min on
}

func vhRefAtoi(s string) int {
	n := 0
	for i := 0; i < len(s); i++ {
		n = n*10 + int(s[i]-'0')
	}
	return n
}

func vhRefSplit(s string, sep byte) []string {
	var out []string
	start := 0
	for i := 0; i < len(s); i++ {
		if s[i] == sep {
			out = append(out, s[start:i])
			start = i + 1
		}
	}
	return append(out, s[start:])
}

func vhRefTags(f vhSchemaField) []vhRefTag {
	if !f.HasTag || f.Tag == "-" {
		return nil
	}
	var tags []vhRefTag
	for _, alt := range vhRefSplit(f.Tag, '|') {
		t := vhRefTag{min: -1, max: -1}
		for _, opt := range vhRefSplit(alt, ',') {
			switch {
			case len(opt) > 5 && opt[:5] == "min=v":
				t.min = vhRefAtoi(opt[5:])
			case len(opt) > 5 && opt[:5] == "max=v":
				t.max = vhRefAtoi(opt[5:])
			case opt == "nullable":
				t.nullable = true
			case opt == "tag":
				t.flexMark = true
			}
		}
		if t.min >= 0 && t.max >= t.min {
			tags = append(tags, t)
		}
	}
	return tags
}

func vhRefTagAt(f vhSchemaField, version int) (vhRefTag, bool) {
	for _, t := range vhRefTags(f) {
		if t.min <= version && version <= t.max {
			return t, true
		}
	}
	return vhRefTag{}, false
}

// vhRefRange: versions of a top-level message type and the first flexible one (-1: none), from the snapshot.
func vhRefRange(typeName string) (min, max, flexFrom int, ok bool) {
	fields, ok := vhSchema[typeName]
	if !ok {
		return 0, 0, 0, false
	}
	min, max, flexFrom = -1, -1, -1
	for _, f := range fields {
		for _, t := range vhRefTags(f) {
			if min < 0 || t.min < min {
				min = t.min
			}
			if t.max > max {
				max = t.max
			}
			if t.flexMark && (flexFrom < 0 || t.min < flexFrom) {
				flexFrom = t.min
			}
		}
	}
	return min, max, flexFrom, min >= 0
}

type vhRefEnc struct {
	w        vhW
	version  int
	flexible bool
	unknown  bool   // every tag buffer carries one tagged field that no schema defines (decoders must skip it)
	problem  string // set when the value cannot be encoded from the snapshot (type unknown, field missing)
}

func (e *vhRefEnc) length(n int, null bool) {
	if e.flexible {
		if null {
			e.w.uvarint(0)
		} else {
			e.w.uvarint(uint64(n) + 1)
		}
		return
	}
	panic("length: non-flexible lengths are written by the callers")
}

func (e *vhRefEnc) value(v reflect.Value, goType string, nullable bool) {
	switch v.Kind() {
	case reflect.Bool:
		e.w.boolean(v.Bool())
	case reflect.Int8:
		e.w.i8(int8(v.Int()))
	case reflect.Int16:
		e.w.i16(int16(v.Int()))
	case reflect.Int32:
		e.w.i32(int32(v.Int()))
	case reflect.Int64:
		e.w.i64(v.Int())
	case reflect.Float64:
		e.w.i64(int64(math.Float64bits(v.Float())))
	case reflect.String:
		s := v.String()
		null := nullable && len(s) == 0 // the library has no separate null for strings: "" of a nullable field is null
		switch {
		case e.flexible:
			e.length(len(s), null)
		case null:
			e.w.i16(-1)
		default:
			e.w.i16(int16(len(s)))
		}
		e.w.raw([]byte(s))
	case reflect.Slice:
		null := nullable && v.IsNil()
		n := v.Len()
		isBytes := v.Type().Elem().Kind() == reflect.Uint8
		switch {
		case e.flexible:
			e.length(n, null)
		case null:
			e.w.i32(-1)
		default:
			e.w.i32(int32(n))
		}
		if isBytes {
			e.w.raw(v.Bytes())
			return
		}
		for i := 0; i < n; i++ {
			e.value(v.Index(i), "", nullable)
		}
	case reflect.Struct:
		e.structure(v)
	default:
		e.problem = "unsupported kind " + v.Kind().String()
	}
}

func (e *vhRefEnc) structure(v reflect.Value) {
	name := v.Type().String()
	if name == "protocol.RecordSet" {
		// the payload of record sets is the subject of C05: the same fixed batch that vhFill stores, encoded by
		// the library, preceded by nothing else (RecordSet.WriteTo writes its own int32 size)
		rs := RecordSet{Version: 2, Records: NewRecordReader(Record{Offset: 0, Time: time.Unix(1, 0), Key: NewBytes([]byte("k")), Value: NewBytes([]byte("v"))})}
		var b bytes.Buffer
		if _, err := rs.WriteTo(&b); err != nil {
			e.problem = "record set: " + err.Error()
		}
		e.w.raw(b.Bytes())
		return
	}
	fields, ok := vhSchema[name]
	if !ok {
		e.problem = "type not in the schema snapshot: " + name
		return
	}
	for _, f := range fields {
		t, present := vhRefTagAt(f, e.version)
		if !present || f.GoType == "struct {}" {
			continue
		}
		fv, found := vhFieldByName(v, f.Name)
		if !found {
			e.problem = "field of the schema snapshot missing in the tree: " + name + "." + f.Name
			return
		}
		e.value(fv, f.GoType, t.nullable)
		if e.problem != "" {
			return
		}
	}
	if e.flexible {
		e.tagBuffer() // no tagged field is defined for any message of the snapshot
	}
}

func (e *vhRefEnc) tagBuffer() {
	if !e.unknown {
		e.w.uvarint(0)
		return
	}
	e.w.uvarint(1)   // one tagged field
	e.w.uvarint(200) // tag id (two-byte varint), unknown to every schema
	e.w.uvarint(2)   // size
	e.w.raw(vhBytes("unknown-tagged-field", 2))
}

func vhFieldByName(v reflect.Value, name string) (reflect.Value, bool) {
	t := v.Type()
	for i := 0; i < t.NumField(); i++ {
		if t.Field(i).Name == name {
			return v.Field(i), true
		}
	}
	return reflect.Value{}, false
}

// vhRefCovers: the snapshot knows every exported field of the value's struct types (a tree that added fields is
// not judged by the old snapshot).
func vhRefCovers(t reflect.Type) bool {
	switch t.Kind() {
	case reflect.Slice:
		return vhRefCovers(t.Elem())
	case reflect.Struct:
	default:
		return true
	}
	if t.String() == "protocol.RecordSet" {
		return true
	}
	fields, ok := vhSchema[t.String()]
	if !ok {
		return false
	}
	for i := 0; i < t.NumField(); i++ {
		f := t.Field(i)
		if f.PkgPath != "" {
			continue
		}
		found := false
		for _, sf := range fields {
			if sf.Name == f.Name {
				found = true
			}
		}
		if !found || !vhRefCovers(f.Type) {
			return false
		}
	}
	return true
}

func vhRefResponseFrame(msg Message, version int, corr int32, unknown bool) (frame []byte, covered bool, problem string) {
	v := reflect.ValueOf(msg).Elem()
	min, max, flexFrom, ok := vhRefRange(v.Type().String())
	if !ok || version < min || version > max || !vhRefCovers(v.Type()) {
		return nil, false, ""
	}
	e := &vhRefEnc{version: version, flexible: flexFrom >= 0 && version >= flexFrom, unknown: unknown}
	e.w.i32(0)
	e.w.i32(corr)
	if e.flexible {
		e.tagBuffer() // response header v1
	}
	e.structure(v)
	n := len(e.w.b) - 4
	e.w.b[0], e.w.b[1], e.w.b[2], e.w.b[3] = byte(n>>24), byte(n>>16), byte(n>>8), byte(n)
	return e.w.b, true, e.problem
}

func vhRefRequestFrame(msg Message, apiKey, version int, corr int32, clientID string, unknown bool) (frame []byte, covered bool, problem string) {
	v := reflect.ValueOf(msg).Elem()
	min, max, flexFrom, ok := vhRefRange(v.Type().String())
	if !ok || version < min || version > max || !vhRefCovers(v.Type()) {
		return nil, false, ""
	}
	e := &vhRefEnc{version: version, flexible: flexFrom >= 0 && version >= flexFrom, unknown: unknown}
	e.w.i32(0)
	e.w.i16(int16(apiKey))
	e.w.i16(int16(version))
	e.w.i32(corr)
	if e.flexible {
		// request header v2: nullable (non-compact) client id, then a tag buffer; the library sends null for ""
		if len(clientID) == 0 {
			e.w.i16(-1)
		} else {
			e.w.str(clientID)
		}
		e.tagBuffer()
	} else {
		e.w.str(clientID)
	}
	e.structure(v)
	n := len(e.w.b) - 4
	e.w.b[0], e.w.b[1], e.w.b[2], e.w.b[3] = byte(n>>24), byte(n>>16), byte(n>>8), byte(n)
	return e.w.b, true, e.problem
}

// vhRefEq compares two messages field by field over the fields that the snapshot puts on the wire at `version`
// (nil and empty identified, as the wire format does for non-nullable fields).
func vhRefEq(a, b reflect.Value, version int) bool {
	switch a.Kind() {
	case reflect.Bool:
		return a.Bool() == b.Bool()
	case reflect.Int8, reflect.Int16, reflect.Int32, reflect.Int64:
		return a.Int() == b.Int()
	case reflect.Float64:
		return a.Float() == b.Float()
	case reflect.String:
		return vhStrEq(a.String(), b.String())
	case reflect.Slice:
		if a.Type().Elem().Kind() == reflect.Uint8 {
			return vhBytesEq(a.Bytes(), b.Bytes())
		}
		if a.Len() != b.Len() {
			return false
		}
		ok := true
		for i := 0; i < a.Len(); i++ {
			ok = vhAll(ok, vhRefEq(a.Index(i), b.Index(i), version))
		}
		return ok
	case reflect.Struct:
		fields, known := vhSchema[a.Type().String()]
		if !known {
			return true
		}
		ok := true
		for _, f := range fields {
			if _, present := vhRefTagAt(f, version); !present || f.GoType == "struct {}" {
				continue
			}
			fa, oka := vhFieldByName(a, f.Name)
			fb, okb := vhFieldByName(b, f.Name)
			if !oka || !okb {
				return false
			}
			ok = vhAll(ok, vhRefEq(fa, fb, version))
		}
		return ok
	}
	return true
}

// H3: the frames the library writes are the reference frames, and the reference frames decode to the values.
func VH_C04_RefResponse(apiKey, version, shape int) {
	unknown := shape >= 10 // shape 10+s: shape s, and every tag buffer of the reference frame holds an unknown tagged field
	shape %= 10
	mt := vhMsgType(apiKey, version, true)
	msg := mt.new()
	vhFill(reflect.ValueOf(msg).Elem(), "m", shape)
	corr := vhInt32("corr")
	ref, covered, problem := vhRefResponseFrame(msg, version, corr, unknown)
	if !covered {
		vhReach("c04-ref-not-covered-by-snapshot")
		return
	}
	vhAssert(problem == "", "response-encodable-from-schema-snapshot")
	var buf bytes.Buffer
	err := WriteResponse(&buf, int16(version), corr, msg)
	vhAssert(err == nil, "ref-response-write-ok")
	if !unknown {
		vhAssert(vhBytesEq(buf.Bytes(), ref), "response-frame-equals-reference-encoding")
	}
	fc := &vhFakeConn{data: append(append([]byte{}, ref...), 0xAA, 0xBB)}
	conn := NewConn(fc, "vh")
	id, got, err := ReadResponse(conn, ApiKey(apiKey), int16(version))
	vhAssert(err == nil, "reference-response-decodes")
	vhAssert(id == corr, "reference-response-correlation-id")
	vhAssert(fc.off-conn.buffer.Buffered() == len(ref), "reference-response-consumes-exactly-one-frame")
	vhAssert(vhRefEq(reflect.ValueOf(got).Elem(), reflect.ValueOf(msg).Elem(), version), "reference-response-decodes-to-the-encoded-values")
	// the same through a plain io.Reader (ReadResponse is a public entry point; a reader without a Discard method
	// takes other paths in the decoder)
	plain := bytes.NewReader(append(append([]byte{}, ref...), 0xAA, 0xBB))
	id2, got2, err2 := ReadResponse(plain, ApiKey(apiKey), int16(version))
	vhAssert(err2 == nil && id2 == corr, "reference-response-decodes-from-a-plain-reader")
	if err2 == nil {
		vhAssert(plain.Len() == 2, "plain-reader-consumes-exactly-one-frame")
		vhAssert(vhRefEq(reflect.ValueOf(got2).Elem(), reflect.ValueOf(msg).Elem(), version), "plain-reader-decodes-to-the-encoded-values")
	}
	vhReach("c04-ref-response")
}

func VH_C04_RefRequest(apiKey, version, shape int) {
	unknown := shape >= 10
	shape %= 10
	mt := vhMsgType(apiKey, version, false)
	msg := mt.new()
	vhFill(reflect.ValueOf(msg).Elem(), "m", shape)
	corr := vhInt32("corr")
	clientID := vhString("client", vhLen("client", shape, false))
	ref, covered, problem := vhRefRequestFrame(msg, apiKey, version, corr, clientID, unknown)
	if !covered {
		vhReach("c04-ref-not-covered-by-snapshot")
		return
	}
	vhAssert(problem == "", "request-encodable-from-schema-snapshot")
	var buf bytes.Buffer
	err := WriteRequest(&buf, int16(version), corr, clientID, msg)
	vhAssert(err == nil, "ref-request-write-ok")
	if !unknown {
		vhAssert(vhBytesEq(buf.Bytes(), ref), "request-frame-equals-reference-encoding")
	}
	fc := &vhFakeConn{data: append(append([]byte{}, ref...), 0xAA, 0xBB)}
	conn := NewConn(fc, "vh")
	v, id, cid, got, err := ReadRequest(conn)
	vhAssert(err == nil, "reference-request-decodes")
	vhAssert(vhAll(int(v) == version, id == corr, vhStrEq(cid, clientID)), "reference-request-header")
	vhAssert(fc.off-conn.buffer.Buffered() == len(ref), "reference-request-consumes-exactly-one-frame")
	vhAssert(vhRefEq(reflect.ValueOf(got).Elem(), reflect.ValueOf(msg).Elem(), version), "reference-request-decodes-to-the-encoded-values")
	vhReach("c04-ref-request")
}
