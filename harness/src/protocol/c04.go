package protocol

import (
	"bytes"
	"reflect"
)

// C04-H1: for every registered message type and version, decode(encode(m)) == m, the frame is well formed and
// is consumed exactly.

func vhMsgType(apiKey, version int, response bool) *messageType {
	t := &apiTypes[apiKey]
	if response {
		return &t.responses[int16(version)-t.minVersion()]
	}
	return &t.requests[int16(version)-t.minVersion()]
}

func vhBE32(b []byte) int32 {
	return int32(uint32(b[0])<<24 | uint32(b[1])<<16 | uint32(b[2])<<8 | uint32(b[3]))
}

func VH_C04_ResponseRoundTrip(apiKey, version, shape int) {
	mt := vhMsgType(apiKey, version, true)
	msg := mt.new()
	vhFill(reflect.ValueOf(msg).Elem(), "m", shape)
	corr := vhInt32("corr")
	var buf bytes.Buffer
	err := WriteResponse(&buf, int16(version), corr, msg)
	vhAssert(err == nil, "response-write-ok")
	frame := buf.Bytes()
	vhAssert(len(frame) >= 8, "response-frame-has-header")
	vhAssert(int(vhBE32(frame[0:4])) == len(frame)-4, "response-size-prefix")
	vhAssert(vhBE32(frame[4:8]) == corr, "response-correlation-id-on-wire")

	fc := &vhFakeConn{data: append(append([]byte{}, frame...), 0xAA, 0xBB)} // two bytes of a following frame
	conn := NewConn(fc, "vh")
	id, got, err := ReadResponse(conn, ApiKey(apiKey), int16(version))
	vhAssert(err == nil, "response-read-ok")
	vhAssert(id == corr, "response-correlation-id")
	vhAssert(fc.off-conn.buffer.Buffered() == len(frame), "response-consumes-exactly-one-frame")
	vhAssert(vhDeepEq(reflect.ValueOf(got).Elem(), reflect.ValueOf(msg).Elem(), int16(version)), "response-roundtrip-equal")
	vhAssert(vhIsNullableNilPreserved(reflect.ValueOf(got).Elem(), reflect.ValueOf(msg).Elem(), int16(version)), "response-null-preserved")

	var buf2 bytes.Buffer
	err = WriteResponse(&buf2, int16(version), corr, got)
	vhAssert(err == nil, "response-rewrite-ok")
	vhAssert(vhBytesEq(buf2.Bytes(), frame), "response-reencode-identical")
	vhReach("c04-response-roundtrip")
}

func VH_C04_RequestRoundTrip(apiKey, version, shape int) {
	mt := vhMsgType(apiKey, version, false)
	msg := mt.new()
	vhFill(reflect.ValueOf(msg).Elem(), "m", shape)
	corr := vhInt32("corr")
	clientID := vhString("client", vhLen("client", shape, false))
	var buf bytes.Buffer
	err := WriteRequest(&buf, int16(version), corr, clientID, msg)
	vhAssert(err == nil, "request-write-ok")
	frame := buf.Bytes()
	vhAssert(len(frame) >= 14, "request-frame-has-header")
	vhAssert(int(vhBE32(frame[0:4])) == len(frame)-4, "request-size-prefix")
	vhAssert(int(int16(uint16(frame[4])<<8|uint16(frame[5]))) == apiKey, "request-api-key-on-wire")
	vhAssert(int(int16(uint16(frame[6])<<8|uint16(frame[7]))) == version, "request-version-on-wire")
	vhAssert(vhBE32(frame[8:12]) == corr, "request-correlation-id-on-wire")
	// client id: non-compact nullable string in every request header version
	wantLen := len(clientID)
	if mt.flexible && wantLen == 0 {
		wantLen = -1 // request header v2: the client id is a nullable string, the library sends null for ""
	}
	vhAssert(int(int16(uint16(frame[12])<<8|uint16(frame[13]))) == wantLen, "request-client-id-length-on-wire")
	vhAssert(vhBytesEq(frame[14:14+len(clientID)], []byte(clientID)), "request-client-id-on-wire")
	if mt.flexible {
		vhAssert(frame[14+len(clientID)] == 0, "request-flexible-header-empty-tag-buffer")
	}

	fc := &vhFakeConn{data: append(append([]byte{}, frame...), 0xAA, 0xBB)}
	conn := NewConn(fc, "vh")
	v, id, cid, got, err := ReadRequest(conn)
	vhAssert(err == nil, "request-read-ok")
	vhAssert(vhAll(int(v) == version, id == corr, vhStrEq(cid, clientID)), "request-header-roundtrip")
	vhAssert(fc.off-conn.buffer.Buffered() == len(frame), "request-consumes-exactly-one-frame")
	vhAssert(vhDeepEq(reflect.ValueOf(got).Elem(), reflect.ValueOf(msg).Elem(), int16(version)), "request-roundtrip-equal")
	vhAssert(vhIsNullableNilPreserved(reflect.ValueOf(got).Elem(), reflect.ValueOf(msg).Elem(), int16(version)), "request-null-preserved")

	var buf2 bytes.Buffer
	err = WriteRequest(&buf2, int16(version), corr, clientID, got)
	vhAssert(err == nil, "request-rewrite-ok")
	vhAssert(vhBytesEq(buf2.Bytes(), frame), "request-reencode-identical")
	vhReach("c04-request-roundtrip")
}

// C04-H3: arrays longer than what the decoder allocates up front (decodeArrayOf grows its slice): a Metadata v1
// response listing n brokers, hand-encoded; decoding must yield exactly n entries, consume exactly the frame, and
// encoding the decoded message must give the same bytes.
func VH_C04_LargeArray(n int) {
	base := vhInt32("first_node_id")
	port := vhInt32("port")
	w := &vhW{}
	w.i32(int32(n))
	for i := 0; i < n; i++ {
		w.i32(base + int32(i))
		w.str("h")
		w.i32(port)
		w.nullStr()
	}
	w.i32(base) // controller
	w.i32(0)    // topics
	frame := vhFrameOf(7, w.b)
	fc := &vhFakeConn{data: append(append([]byte{}, frame...), 0xAA, 0xBB)}
	conn := NewConn(fc, "vh")
	id, got, err := ReadResponse(conn, Metadata, 1)
	vhAssert(err == nil && id == 7, "large-array-read-ok")
	vhAssert(fc.off-conn.buffer.Buffered() == len(frame), "large-array-consumes-exactly-one-frame")
	brokers, ok := vhFieldByName(reflect.ValueOf(got).Elem(), "Brokers")
	vhAssert(ok && brokers.Len() == n, "large-array-element-count")
	var buf bytes.Buffer
	err = WriteResponse(&buf, 1, 7, got)
	vhAssert(err == nil, "large-array-rewrite-ok")
	vhAssert(vhBytesEq(buf.Bytes(), frame), "large-array-reencode-identical")
	vhReach("c04-large-array")
}
