package protocol

import (
	"bytes"
	"hash/crc32"
	"io"
	"time"
)

// C05: record batches - what is produced is exactly what a consumer decodes.

func vhReadAllBytes(b Bytes) []byte {
	if b == nil {
		return nil
	}
	out := []byte{}
	buf := make([]byte, 8)
	for {
		n, err := b.Read(buf)
		out = append(out, buf[:n]...)
		if err != nil || n == 0 {
			break
		}
	}
	return out
}

func vhMs(t time.Time) int64 { return t.Unix()*1000 + int64(t.Nanosecond())/1000000 }

// H2 (Client.Fetch path): reference-encoded v2 batches decoded by RecordSet.ReadFrom.
// corrupt: 0 = valid, 1 = the stored CRC of the last batch differs from the checksum, 2 = last batch is a control batch
func VH_C05_DecodeV2(nb, corrupt int) {
	first := vhInt64("log_fragment_start")
	vhAssume(vhAll(first >= 0, first < 1<<40))
	wire, stored, _, _ := vhLogV2(nb, first)
	if corrupt == 3 {
		// the response begins with a control batch (a transaction marker), e.g. when the fetch position lands on it
		marker := vhEncBatchV2(first-1, 0x20, 0, 1600000000000, 1600000000000, 1, []vhRec{{key: []byte{0, 0, 0, 1}, value: []byte{0, 0, 0, 0, 0, 0}}})
		wire = append(marker, wire...)
	}
	nLast := 0 // records of the last batch
	if corrupt == 1 || corrupt == 2 {
		// re-encode: take the last batch apart is not needed - build one more batch with the defect
		k := vhBytes("key", 1)
		v := vhBytes("value", 2)
		attrs := int16(0)
		if corrupt == 2 {
			attrs = 0x20 // control batch
		}
		last := vhEncBatchV2(first+100, attrs, 0, 1600000009000, 1600000009000, 1, []vhRec{{key: k, value: v}})
		if corrupt == 1 {
			bad := vhBytes("stored_crc", 4)
			vhAssume(!vhBytesEq(bad, last[17:21]))
			copy(last[17:21], bad)
		}
		wire = append(wire, last...)
		nLast = 1
	}
	_ = nLast
	w := &vhW{}
	w.i32(int32(len(wire)))
	w.raw(wire)
	rs := RecordSet{}
	n, err := rs.ReadFrom(bytes.NewReader(w.b))
	if corrupt == 1 && nb == 0 {
		vhAssert(err != nil, "crc-mismatch-is-an-error")
		vhAssert(rs.Records == nil, "no-records-from-a-corrupt-batch")
		vhReach("c05-crc-mismatch")
		return
	}
	vhAssert(err == nil, "valid-batches-decode")
	vhAssert(int(n) == len(w.b), "record-set-consumed-exactly")
	var got []Record
	if rs.Records != nil {
		for i := 0; i < len(stored)+3; i++ {
			r, rerr := rs.Records.ReadRecord()
			if rerr != nil {
				vhAssert(rerr == io.EOF, "records-end-with-EOF")
				break
			}
			got = append(got, *r)
		}
	}
	// control batches are hidden, records of a batch whose checksum does not match are never surfaced
	vhAssert(len(got) == len(stored), "decodes-exactly-the-stored-records")
	for i := range stored {
		if i >= len(got) {
			break
		}
		vhAssert(got[i].Offset == stored[i].offset, "absolute-offsets")
		vhAssert(vhMs(got[i].Time) == stored[i].ts, "millisecond-timestamps")
		vhAssert(vhBytesEq(vhReadAllBytes(got[i].Key), stored[i].key), "keys")
		vhAssert(vhBytesEq(vhReadAllBytes(got[i].Value), stored[i].value), "values")
	}
	vhReach("c05-decode-v2")
}

// reference decoder of one v2 batch (protocol guide), for the producer side
type vhDecodedBatch struct {
	ok              bool
	baseOffset      int64
	batchLength     int32
	magic           int8
	crc             uint32
	crcComputed     uint32
	attributes      int16
	lastOffsetDelta int32
	firstTs, maxTs  int64
	count           int32
	recs            []vhRec
	keyNull, valNull []bool
}

type vhR struct {
	b []byte
	p int
}

func (r *vhR) u8() byte   { v := r.b[r.p]; r.p++; return v }
func (r *vhR) i16() int16 { v := int16(uint16(r.b[r.p])<<8 | uint16(r.b[r.p+1])); r.p += 2; return v }
func (r *vhR) i32() int32 {
	v := int32(uint32(r.b[r.p])<<24 | uint32(r.b[r.p+1])<<16 | uint32(r.b[r.p+2])<<8 | uint32(r.b[r.p+3]))
	r.p += 4
	return v
}
func (r *vhR) i64() int64 { hi := int64(r.i32()); lo := int64(uint32(r.i32())); return hi<<32 | lo }
func (r *vhR) varint() int64 {
	var x uint64
	var s uint
	for {
		c := r.u8()
		x |= uint64(c&0x7f) << s
		if c&0x80 == 0 {
			break
		}
		s += 7
	}
	return int64(x>>1) ^ -int64(x&1)
}
func (r *vhR) take(n int) []byte { v := r.b[r.p : r.p+n]; r.p += n; return v }

func vhDecodeBatchV2(b []byte) (d vhDecodedBatch) {
	r := &vhR{b: b}
	d.baseOffset = r.i64()
	d.batchLength = r.i32()
	r.i32() // leader epoch
	d.magic = int8(r.u8())
	d.crc = uint32(r.i32())
	d.crcComputed = crc32.Checksum(b[21:], crc32.MakeTable(crc32.Castagnoli))
	d.attributes = r.i16()
	d.lastOffsetDelta = r.i32()
	d.firstTs = r.i64()
	d.maxTs = r.i64()
	r.i64()
	r.i16()
	r.i32()
	d.count = r.i32()
	for i := int32(0); i < d.count; i++ {
		n := int(r.varint())
		end := r.p + n
		r.u8() // attributes
		var rec vhRec
		rec.tsDelta = r.varint()
		rec.offsetDelta = r.varint()
		kl := int(r.varint())
		if kl >= 0 {
			rec.key = r.take(kl)
		}
		vl := int(r.varint())
		if vl >= 0 {
			rec.value = r.take(vl)
		}
		d.keyNull = append(d.keyNull, kl < 0)
		d.valNull = append(d.valNull, vl < 0)
		hc := int(r.varint())
		for h := 0; h < hc; h++ {
			hk := int(r.varint())
			rec.hkeys = append(rec.hkeys, string(r.take(hk)))
			hv := int(r.varint())
			if hv >= 0 {
				rec.hvals = append(rec.hvals, r.take(hv))
			} else {
				rec.hvals = append(rec.hvals, nil)
			}
		}
		if r.p != end {
			return
		}
		d.recs = append(d.recs, rec)
	}
	d.ok = r.p == len(b)
	return
}

// H1 (producer side, protocol package): RecordSet.WriteTo version 2 decoded by the reference decoder.
// shapes of key/value per record: 0 = null, 1 = empty, 2 = two symbolic bytes
func VH_C05_EncodeV2(n int) {
	vhConcreteClock(true)
	recs := make([]Record, n)
	kshape := make([]int, n)
	vshape := make([]int, n)
	keys := make([][]byte, n)
	vals := make([][]byte, n)
	mk := func(name string, shape int) []byte {
		switch shape {
		case 0:
			return nil
		case 1:
			return []byte{}
		}
		return vhBytes(name, 2)
	}
	// record times in milliseconds after t0: not monotonic (records may carry any creation time)
	tsMs := []int{500, 150, 700, 0}
	for i := range recs {
		kshape[i], vshape[i] = vhChoose("key_shape", 3), vhChoose("value_shape", 3)
		keys[i], vals[i] = mk("key", kshape[i]), mk("value", vshape[i])
		recs[i] = Record{Time: time.Unix(1600000000, int64(tsMs[i])*1000000), Key: NewBytes(keys[i]), Value: NewBytes(vals[i])}
		if i == 0 {
			recs[i].Headers = []Header{{Key: "h", Value: vhBytes("header_value", 1)}}
		}
	}
	rs := RecordSet{Version: 2, Records: NewRecordReader(recs...)}
	var buf bytes.Buffer
	_, err := rs.WriteTo(&buf)
	vhAssert(err == nil, "write-ok")
	out := buf.Bytes()
	vhAssert(len(out) >= 4+61, "has-a-batch")
	size := int(int32(uint32(out[0])<<24 | uint32(out[1])<<16 | uint32(out[2])<<8 | uint32(out[3])))
	vhAssert(size == len(out)-4, "record-set-size-prefix")
	d := vhDecodeBatchV2(out[4:])
	vhAssert(d.ok, "independent-decoder-accepts-the-batch")
	vhAssert(int(d.batchLength) == len(out)-4-12, "batch-length-field")
	vhAssert(d.magic == 2, "magic")
	vhAssert(d.crc == d.crcComputed, "crc-covers-attributes-to-end")
	vhAssert(vhAll(int(d.count) == n, int(d.lastOffsetDelta) == n-1), "count-and-last-offset-delta")
	vhAssert(d.firstTs == 1600000000000+int64(tsMs[0]), "first-timestamp-is-the-first-records")
	for i := 0; i < n && i < len(d.recs); i++ {
		vhAssert(d.recs[i].offsetDelta == int64(i), "offset-delta-is-the-index")
		vhAssert(d.firstTs+d.recs[i].tsDelta == 1600000000000+int64(tsMs[i]), "timestamp-delta")
		vhAssert(d.keyNull[i] == (kshape[i] == 0), "null-key-stays-null-empty-stays-empty")
		vhAssert(d.valNull[i] == (vshape[i] == 0), "null-value-stays-null-empty-stays-empty")
		vhAssert(vhAll(vhBytesEq(d.recs[i].key, keys[i]), vhBytesEq(d.recs[i].value, vals[i])), "key-and-value-bytes")
	}
	if len(d.recs) > 0 {
		vhAssert(len(d.recs[0].hkeys) == 1 && d.recs[0].hkeys[0] == "h", "header-key")
	}
	vhReach("c05-encode-v2")
}

// H1b (producer side): header keys and values at the lengths where a (zig-zag) varint length prefix changes its
// size (63/64, 8191/8192) - the record's own length field, computed up front, must agree with what is written.
func VH_C05_EncodeV2Headers(hl int) {
	vhConcreteClock(true)
	var hv []byte
	if hl <= 128 {
		hv = vhBytes("header_value", hl)
	} else {
		hv = make([]byte, hl)
		hv[0], hv[hl-1] = vhByte("header_value_first"), vhByte("header_value_last")
	}
	hk := "k"
	for len(hk) < hl && len(hk) < 70 {
		hk += "k"
	}
	recs := []Record{{Time: time.Unix(1600000000, 0), Key: NewBytes(vhBytes("key", 1)), Value: NewBytes(vhBytes("value", 2)),
		Headers: []Header{{Key: hk, Value: hv}, {Key: "n", Value: nil}}}}
	rs := RecordSet{Version: 2, Records: NewRecordReader(recs...)}
	var buf bytes.Buffer
	_, err := rs.WriteTo(&buf)
	vhAssert(err == nil, "write-ok")
	out := buf.Bytes()
	vhAssert(len(out) >= 4+61, "has-a-batch")
	size := int(int32(uint32(out[0])<<24 | uint32(out[1])<<16 | uint32(out[2])<<8 | uint32(out[3])))
	vhAssert(size == len(out)-4, "record-set-size-prefix")
	d := vhDecodeBatchV2(out[4:])
	vhAssert(d.ok, "independent-decoder-accepts-the-batch-record-length-fields-included")
	vhAssert(int(d.batchLength) == len(out)-4-12, "batch-length-field")
	vhAssert(d.crc == d.crcComputed, "crc-covers-attributes-to-end")
	if d.ok && len(d.recs) == 1 {
		vhAssert(len(d.recs[0].hkeys) == 2 && d.recs[0].hkeys[0] == hk && d.recs[0].hkeys[1] == "n", "header-keys")
		if len(d.recs[0].hvals) == 2 {
			vhAssert(vhBytesEq(d.recs[0].hvals[0], hv), "header-value-bytes")
		}
	}
	vhReach("c05-encode-v2-headers")
}
