package protocol

import "bytes"

// C06: protocol.RoundTrip returns the decoded message only when the correlation id of the response matches.
type vhRW struct {
	r *bytes.Reader
	w bytes.Buffer
}

func (x *vhRW) Read(p []byte) (int, error)  { return x.r.Read(p) }
func (x *vhRW) Write(p []byte) (int, error) { return x.w.Write(p) }

func VH_C06_RoundTrip() {
	reqID := vhInt32("request_id")
	resID := vhInt32("response_id")
	// ApiVersions v0 response: error code + empty array
	body := []byte{0, 0, 0, 0, 0, 0}
	frame := []byte{0, 0, 0, byte(4 + len(body)), byte(resID >> 24), byte(resID >> 16), byte(resID >> 8), byte(resID)}
	frame = append(frame, body...)
	rw := &vhRW{r: bytes.NewReader(frame)}
	req := apiTypes[ApiVersions].requests[0].new()
	msg, err := RoundTrip(rw, 0, reqID, "vh", req)
	if reqID == resID {
		vhAssert(err == nil && msg != nil, "matching-id-delivers-the-response")
		vhReach("c06-roundtrip-match")
	} else {
		vhAssert(msg == nil, "mismatching-id-never-delivers-a-message")
		vhAssert(err != nil, "mismatching-id-is-an-error")
		vhReach("c06-roundtrip-mismatch")
	}
}
