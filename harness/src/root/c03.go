package kafka

import (
	"context"
)

// C03: commits never pass undelivered records; resume at the commit.

var vhTopics = []string{"A", "B"}

// H1: offsetStash.merge is the point-wise maximum; makeCommit(m).offset == m.Offset+1.
func VH_C03_Merge(nPre, nCommits int) {
	stash := offsetStash{}
	type key struct {
		t string
		p int
	}
	pre := map[key]int64{}
	for i := 0; i < nPre; i++ {
		t := vhTopics[vhChoose("pre_topic", 2)]
		p := vhChoose("pre_partition", 2)
		off := vhInt64("pre_offset")
		if stash[t] == nil {
			stash[t] = map[int]int64{}
		}
		stash[t][p] = off
		pre[key{t, p}] = off
	}
	msgs := make([]Message, nCommits)
	for i := range msgs {
		msgs[i] = Message{Topic: vhTopics[vhChoose("topic", 2)], Partition: vhChoose("partition", 2), Offset: vhInt64("offset")}
		vhAssume(msgs[i].Offset < 1<<62)
	}
	commits := makeCommits(msgs...)
	for i := range commits {
		vhAssert(vhAll(commits[i].offset == msgs[i].Offset+1, commits[i].topic == msgs[i].Topic, commits[i].partition == msgs[i].Partition), "commit-is-offset-plus-one")
	}
	stash.merge(commits)
	for _, t := range vhTopics {
		for p := 0; p < 2; p++ {
			// reference: maximum of the previous entry (if any) and every commit for (t,p)
			have := false
			var want int64
			if v, ok := pre[key{t, p}]; ok {
				have, want = true, v
			}
			for i := range msgs {
				if msgs[i].Topic == t && msgs[i].Partition == p {
					o := msgs[i].Offset + 1
					if !have || o > want {
						have, want = true, o
					}
				}
			}
			got, ok := stash[t][p]
			vhAssert(ok == have, "stash-has-exactly-the-touched-partitions")
			if have {
				vhAssert(got == want, "stash-holds-the-maximum")
			}
		}
	}
	vhReach("c03-merge")
}

// H2: one run of a commit loop (sync mode: commitLoopImmediate; interval mode: commitLoopInterval) with up to two
// queued CommitMessages requests, coordinator outcomes chosen per call, then the generation ends.
func VH_C03_CommitLoop(syncMode, nReq int) {
	vhConcreteClock(true)
	co := &vhCoordinator{}
	fails := make([]bool, 8)
	for i := range fails {
		fails[i] = false
	}
	co.commitFails = func(call int) bool {
		if call < len(fails) {
			return vhChoose("commit_fails", 2) == 1
		}
		return false
	}
	gen := &Generation{ID: 7, GroupID: "g", MemberID: "m", conn: co, done: make(chan struct{}), joined: make(chan struct{}),
		log: func(func(Logger)) {}, logError: func(func(Logger)) {}}
	cfg := ReaderConfig{GroupID: "g", CommitInterval: 0}
	if syncMode == 0 || syncMode == 2 {
		cfg.CommitInterval = 1000000
	}
	stctx, stop := context.WithCancel(context.Background())
	r := &Reader{config: cfg, commits: make(chan commitRequest, 4), stctx: stctx, stop: stop}
	// the application passes these offsets to CommitMessages
	highest := map[int]int64{}
	errchs := make([]chan error, nReq)
	offs := make([]int64, nReq)
	parts := make([]int, nReq)
	for i := 0; i < nReq; i++ {
		parts[i] = vhChoose("partition", 2)
		offs[i] = vhInt64("offset")
		vhAssume(vhAll(offs[i] >= 0, offs[i] < 1<<62))
		if h, ok := highest[parts[i]]; !ok || offs[i] > h {
			highest[parts[i]] = offs[i]
		}
		req := commitRequest{commits: makeCommits(Message{Topic: "A", Partition: parts[i], Offset: offs[i]})}
		if syncMode == 1 {
			errchs[i] = make(chan error, 1)
			req.errch = errchs[i]
		}
		r.commits <- req
	}
	if vhChoose("reader_closing", 2) == 1 {
		stop() // the reader is being closed: back-off sleeps between commit retries are interrupted
	}
	ctx, cancel := context.WithCancel(context.Background())
	loopDone := make(chan struct{})
	go func() {
		r.commitLoop(ctx, gen)
		close(loopDone)
	}()
	// let the loop process what is queued, then end the generation
	if vhIsSymbolic() {
		vhRun(vhSpawned())
	}
	if syncMode == 2 {
		// interval mode: the commit ticker fires while the generation lives - everything passed so far is
		// flushed now, not only when the generation ends
		before := len(co.commits)
		vhFireNext()
		if vhIsSymbolic() {
			vhRun(vhSpawned())
		}
		if nReq > 0 {
			vhAssert(len(co.commits) > before, "interval-tick-commits-the-stashed-offsets")
		}
		for p, h := range highest {
			seen := false
			for _, c := range co.commits[before:] {
				if int(c.partition) == p && c.offset == h+1 {
					seen = true
				}
			}
			vhAssert(seen, "interval-tick-commits-highest-passed-plus-one-for-every-partition")
		}
	}
	cancel()
	<-loopDone

	for _, c := range co.commits {
		vhAssert(vhAll(c.group == "g", c.generation == 7, c.member == "m", c.topic == "A"), "commit-carries-the-generations-identity")
		h, ok := highest[int(c.partition)]
		vhAssert(ok, "commit-only-for-partitions-the-application-committed")
		if ok {
			vhAssert(c.offset <= h+1, "commit-never-exceeds-highest-passed-offset-plus-one")
		}
	}
	if syncMode == 1 {
		for i := 0; i < nReq; i++ {
			err := <-errchs[i]
			if err == nil {
				// a request containing an offset >= this one was acknowledged
				found := false
				for _, c := range co.commits {
					if c.acked && int(c.partition) == parts[i] && c.offset >= offs[i]+1 {
						found = true
					}
				}
				vhAssert(found, "sync-commit-nil-only-if-coordinator-recorded-it")
			}
		}
	}
	vhReach("c03-commit-loop")
}

// H3: fetchOffsets + makeAssignments: start offset = committed offset, or StartOffset when there is none (-1);
// T topics with the same partition ids and independent committed offsets.
func VH_C03_Assignments(P, T int) {
	start := vhInt64("StartOffset")
	topics := vhTopics[:T]
	cg := &ConsumerGroup{config: ConsumerGroupConfig{ID: "g", Topics: topics, StartOffset: start}}
	co := &vhCoordinator{}
	subs := map[string][]int32{}
	committed := map[string][]int64{}
	for _, t := range topics {
		resp := offsetFetchResponseV1Response{Topic: t}
		for p := 0; p < P; p++ {
			subs[t] = append(subs[t], int32(p))
			c := vhInt64("committed")
			vhAssume(c >= -1)
			committed[t] = append(committed[t], c)
			resp.PartitionResponses = append(resp.PartitionResponses, offsetFetchResponseV1PartitionResponse{Partition: int32(p), Offset: c})
		}
		co.fetchResp.Responses = append(co.fetchResp.Responses, resp)
	}
	offsets, err := cg.fetchOffsets(co, subs)
	vhAssert(err == nil, "fetch-offsets-ok")
	asg := cg.makeAssignments(subs, offsets)
	for _, t := range topics {
		vhAssert(len(asg[t]) == P, "one-assignment-per-partition")
		for p := 0; p < P && p < len(asg[t]); p++ {
			a := asg[t][p]
			want := committed[t][p]
			if want < 0 {
				want = start
			}
			vhAssert(vhAll(a.ID == p, a.Offset == want), "assignment-starts-at-the-committed-offset")
		}
	}
	vhReach("c03-assignments")
}

// Generation.CommitOffsets with several topics in one call: the coordinator records, for every topic and
// partition, exactly the offset given for that topic and partition, under the generation's identity.
func VH_C03_CommitOffsets(T, P int) {
	vhConcreteClock(true)
	co := &vhCoordinator{}
	g := vhNewGeneration(co)
	offsets := map[string]map[int]int64{}
	for t := 0; t < T; t++ {
		name := vhTopicName(t)
		offsets[name] = map[int]int64{}
		for p := 0; p < P; p++ {
			o := vhInt64("offset")
			vhAssume(vhAll(o >= 0, o < 1<<62))
			offsets[name][p] = o
		}
	}
	err := g.CommitOffsets(offsets)
	vhAssert(err == nil, "commit-offsets-ok")
	vhAssert(len(co.commits) == T*P, "one-recorded-commit-per-topic-partition")
	for t := 0; t < T; t++ {
		name := vhTopicName(t)
		for p := 0; p < P; p++ {
			n := 0
			for _, cm := range co.commits {
				if cm.topic == name && int(cm.partition) == p {
					n++
					vhAssert(cm.offset == offsets[name][p], "recorded-offset-is-the-one-given-for-that-topic-and-partition")
					vhAssert(vhAll(cm.group == "g", cm.generation == 7, cm.member == "m"), "commit-carries-the-generation-identity")
				}
			}
			vhAssert(n == 1, "each-topic-partition-committed-exactly-once")
		}
	}
	vhReach("c03-commit-offsets")
}
