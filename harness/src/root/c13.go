package kafka

import (
	"context"
	"hash/fnv"
	"math"
	"sync/atomic"
)

// C13: partition balancers return offered partitions and match the reference hashes.

// keyOf returns a symbolic key of length L; L == -1 is the nil key.
func vhKey(L int) []byte {
	if L < 0 {
		return nil
	}
	return vhBytes("key", L)
}

func VH_C13_Murmur2(L int) {
	key := vhKey(L)
	parts := vhIota("partitions", 1, math.MaxInt32)
	consistent := vhChoose("consistent", 2) == 1
	got := Murmur2Balancer{Consistent: consistent}.Balance(Message{Key: key}, parts...)
	vhAssert(vhAll(got >= 0, got < len(parts)), "murmur2-offered-partition")
	if key != nil || consistent {
		vhAssert(got == vrefJavaPartition(key, len(parts)), "murmur2-matches-java")
		vhReach("murmur2-hashed")
	} else {
		vhReach("murmur2-random")
	}
}

func VH_C13_Hash(L int) {
	key := vhKey(L)
	parts := vhIota("partitions", 1, math.MaxInt32)
	h := &Hash{}
	got := h.Balance(Message{Key: key}, parts...)
	vhAssert(vhAll(got >= 0, got < len(parts)), "hash-offered-partition")
	if key != nil {
		vhAssert(got == vrefSaramaHash(key, len(parts)), "hash-matches-sarama")
		// pure function of key and partition count: a second call (pooled hasher reused) agrees
		vhAssert(h.Balance(Message{Key: key}, parts...) == got, "hash-pure")
		vhReach("hash-hashed")
	} else {
		vhReach("hash-nil-key")
	}
}

func VH_C13_ReferenceHash(L int) {
	key := vhKey(L)
	parts := vhIota("partitions", 1, math.MaxInt32)
	h := &ReferenceHash{}
	got := h.Balance(Message{Key: key}, parts...)
	vhAssert(vhAll(got >= 0, got < len(parts)), "refhash-offered-partition")
	if key != nil {
		vhAssert(got == vrefSaramaReferenceHash(key, len(parts)), "refhash-matches-sarama")
		vhAssert(h.Balance(Message{Key: key}, parts...) == got, "refhash-pure")
		vhReach("refhash-hashed")
	} else {
		vhReach("refhash-nil-key")
	}
}

func VH_C13_CRC32(L int) {
	key := vhKey(L)
	parts := vhIota("partitions", 1, math.MaxInt32)
	consistent := vhChoose("consistent", 2) == 1
	got := CRC32Balancer{Consistent: consistent}.Balance(Message{Key: key}, parts...)
	vhAssert(vhAll(got >= 0, got < len(parts)), "crc32-offered-partition")
	if len(key) != 0 || consistent {
		vhAssert(got == vrefRdkafkaConsistent(key, len(parts)), "crc32-matches-librdkafka")
		vhReach("crc32-hashed")
	} else {
		vhReach("crc32-random")
	}
}

// vhSetUint stores v into a counter field whatever its unsigned width is.
func vhSetUint[T ~uint32 | ~uint64](p *T, v uint64) { *p = T(v) }

// RoundRobin, full range: from an arbitrary counter (= number of messages seen so far), ChunkSize and partition
// count, two consecutive calls land on partition (messages_seen / chunk) mod n.
func VH_C13_RoundRobin() {
	chunk := vhInt("chunk")
	parts := vhIota("partitions", 1, math.MaxInt32)
	n := len(parts)
	rr := &RoundRobin{ChunkSize: chunk}
	vhSetUint(&rr.counter, vhUint64("counter"))
	seen := uint64(rr.counter)
	vhAssume(seen < 1<<62) // bound: fewer than 2^62 messages routed so far
	p1 := rr.Balance(Message{}, parts...)
	p2 := rr.Balance(Message{}, parts...)
	vhAssert(vhAll(p1 >= 0, p1 < n, p2 >= 0, p2 < n), "roundrobin-offered-partition")
	c := uint64(chunk)
	if chunk < 1 {
		c = 1
	}
	vhAssert(uint64(p1) == (seen/c)%uint64(n), "roundrobin-position")
	vhAssert(uint64(p2) == ((seen+1)/c)%uint64(n), "roundrobin-position-next")
	vhReach("roundrobin-two-calls")
}

// RoundRobin with a concrete ChunkSize and partition count and an arbitrary counter: the relation between
// consecutive calls stated directly - same partition inside a run of ChunkSize messages, the cyclically next
// partition at a run boundary.
func VH_C13_RoundRobinRuns(chunk, n int) {
	parts := make([]int, n)
	for i := range parts {
		parts[i] = i
	}
	rr := &RoundRobin{ChunkSize: chunk}
	vhSetUint(&rr.counter, vhUint64("counter"))
	seen := uint64(rr.counter)
	vhAssume(seen < 1<<62)
	p1 := rr.Balance(Message{}, parts...)
	p2 := rr.Balance(Message{}, parts...)
	c := uint64(chunk)
	if chunk < 1 {
		c = 1
	}
	if (seen+1)%c == 0 {
		want := p1 + 1
		if want == n {
			want = 0
		}
		vhAssert(p2 == want, "roundrobin-next-partition-in-order")
		vhReach("roundrobin-advance")
	} else {
		vhAssert(p2 == p1, "roundrobin-chunk-stays")
		vhReach("roundrobin-stay")
	}
}

// LeastBytes: one step from arbitrary counters over N partitions.
func VH_C13_LeastBytes(N int) {
	lb := &LeastBytes{}
	parts := make([]int, N)
	for i := range parts {
		parts[i] = i
	}
	lb.counters = make([]leastBytesCounter, N)
	before := make([]uint64, N)
	for i := range lb.counters {
		b := vhUint64("bytes")
		vhAssume(b < 1<<62)
		lb.counters[i] = leastBytesCounter{partition: i, bytes: b}
		before[i] = b
	}
	key := vhBlob("key", 1<<20)
	val := vhBlob("value", 1<<20)
	got := lb.Balance(Message{Key: key, Value: val}, parts...)
	vhAssert(vhAll(got >= 0, got < N), "leastbytes-offered-partition")
	for i := 0; i < N; i++ {
		vhAssert(vhImplies(got == i, lb.counters[i].bytes == before[i]+uint64(len(key))+uint64(len(val))), "leastbytes-adds-to-chosen")
		vhAssert(vhImplies(got != i, lb.counters[i].bytes == before[i]), "leastbytes-others-unchanged")
		vhAssert(vhImplies(got == i, vhAll(minAll(before, before[i]))), "leastbytes-picks-minimum")
	}
	vhReach("leastbytes-step")
}

func minAll(xs []uint64, m uint64) bool {
	r := true
	for _, x := range xs {
		r = vhAll(r, m <= x)
	}
	return r
}

// LeastBytes first call: counters built from the offered list.
func VH_C13_LeastBytesFirst(N int) {
	lb := &LeastBytes{}
	parts := make([]int, N)
	for i := range parts {
		parts[i] = N - 1 - i // offered in descending order
	}
	got := lb.Balance(Message{Key: vhBlob("key", 1<<20)}, parts...)
	vhAssert(vhAll(got >= 0, got < N), "leastbytes-first-offered-partition")
	vhAssert(len(lb.counters) == N, "leastbytes-first-counters")
	vhReach("leastbytes-first")
}

// vhConstHasher is a user-supplied hash.Hash32 whose sum is an arbitrary 32-bit value: it separates the
// partition arithmetic (sign handling, modulo) from the hash function, so the arithmetic is checked for every
// hash value - including the ones whose keys are hard to find, such as 0x80000000.
type vhConstHasher struct{ sum uint32 }

func (h *vhConstHasher) Write(p []byte) (int, error) { return len(p), nil }
func (h *vhConstHasher) Sum(b []byte) []byte         { return b }
func (h *vhConstHasher) Reset()                      {}
func (h *vhConstHasher) Size() int                   { return 4 }
func (h *vhConstHasher) BlockSize() int              { return 1 }
func (h *vhConstHasher) Sum32() uint32               { return h.sum }

func VH_C13_HashArithmetic(which int) {
	sum := vhUint32("hash")
	parts := vhIota("partitions", 1, math.MaxInt32)
	n := len(parts)
	key := []byte{1}
	if which == 0 {
		got := (&Hash{Hasher: &vhConstHasher{sum}}).Balance(Message{Key: key}, parts...)
		vhAssert(vhAll(got >= 0, got < n), "hash-arithmetic-offered-partition")
		want := int32(sum) % int32(n)
		if want < 0 {
			want = -want
		}
		vhAssert(got == int(want), "hash-arithmetic-matches-sarama")
	} else {
		got := (&ReferenceHash{Hasher: &vhConstHasher{sum}}).Balance(Message{Key: key}, parts...)
		vhAssert(vhAll(got >= 0, got < n), "refhash-arithmetic-offered-partition")
		vhAssert(got == int((int32(sum)&0x7fffffff)%int32(n)), "refhash-arithmetic-matches-sarama")
	}
	vhReach("hash-arithmetic")
}

// A user-supplied, stateful Hasher (the standard library's FNV-1a, which is what the references use) serves two
// consecutive messages with different keys through the same balancer: each partition must be the reference's for
// that key alone - the balancer is a pure function of key and partition count whatever it hashed before.
func VH_C13_CustomHasher(which, L int) {
	k1, k2 := vhBytes("key1", L), vhBytes("key2", L)
	parts := vhIota("partitions", 1, math.MaxInt32)
	n := len(parts)
	hasher := fnv.New32a()
	if which == 0 {
		b := &Hash{Hasher: hasher}
		g1 := b.Balance(Message{Key: k1}, parts...)
		g2 := b.Balance(Message{Key: k2}, parts...)
		vhAssert(g1 == vrefSaramaHash(k1, n), "custom-hasher-hash-first-message")
		vhAssert(g2 == vrefSaramaHash(k2, n), "custom-hasher-hash-second-message-independent-of-the-first")
	} else {
		b := &ReferenceHash{Hasher: hasher}
		g1 := b.Balance(Message{Key: k1}, parts...)
		g2 := b.Balance(Message{Key: k2}, parts...)
		vhAssert(g1 == vrefSaramaReferenceHash(k1, n), "custom-hasher-refhash-first-message")
		vhAssert(g2 == vrefSaramaReferenceHash(k2, n), "custom-hasher-refhash-second-message-independent-of-the-first")
	}
	vhReach("custom-hasher")
}

// The Writer hands the balancers the list 0..n-1 (the assumption of every harness above): loadCachedPartitions
// returns exactly that list for every sequence of requested sizes, whatever the process-wide cache holds from
// earlier requests.
func VH_C13_PartitionList(calls int) {
	partitionsCache = atomic.Value{} // a fresh process
	sizes := []int{0, 3, 127, 128, 129, 148, 300} // around the cache's 128-entry alignment
	for c := 0; c < calls; c++ {
		n := sizes[vhChoose("partitions", len(sizes))]
		list := loadCachedPartitions(n)
		vhAssert(len(list) == n, "partition-list-has-the-requested-length")
		ok := true
		for i, p := range list {
			if p != i {
				ok = false
			}
		}
		vhAssert(ok, "partition-list-is-0-to-n-minus-1")
	}
	vhReach("c13-partition-list")
}

// vhOfferRecorder is a Balancer that records what it is offered and picks the last partition of the list.
type vhOfferRecorder struct {
	topics []string
	offers [][]int
}

func (b *vhOfferRecorder) Balance(msg Message, partitions ...int) int {
	b.topics = append(b.topics, msg.Topic)
	b.offers = append(b.offers, append([]int{}, partitions...))
	return partitions[len(partitions)-1]
}

// H7: what the Writer offers its Balancer. A Writer without a topic of its own writes, in one call, messages for
// topics with different partition counts, in any order: for every message the balancer is offered exactly the
// partitions 0..n-1 of that message's topic, and the message is produced to the partition the balancer picked.
func VH_C13_WriterOffers() {
	vhConcreteClock(true)
	counts := map[string]int{"a": 2, "b": 5, "c": 1}
	tr := &vhTransport{partitions: 1, budget: 1, fixed: []int{vhAcked, vhAcked, vhAcked, vhAcked}, partsByTopic: counts}
	rec := &vhOfferRecorder{}
	w := &Writer{Addr: TCP("vh:9092"), Balancer: rec, MaxAttempts: 1, BatchSize: 1, Transport: tr, RequiredAcks: RequireAll}
	names := []string{"a", "b", "c"}
	msgs := make([]Message, 3)
	for i := range msgs {
		msgs[i] = Message{Topic: names[vhChoose("topic_of_message", 3)], Value: []byte{byte(i)}}
	}
	err := w.WriteMessages(context.Background(), msgs...)
	vhAssert(err == nil, "multi-topic-write-ok")
	vhAssert(len(rec.offers) == len(msgs), "balancer-consulted-once-per-message")
	for i, offer := range rec.offers {
		n := counts[rec.topics[i]]
		ok := len(offer) == n
		for j, p := range offer {
			if p != j {
				ok = false
			}
		}
		vhAssert(ok, "balancer-is-offered-the-partitions-of-the-messages-own-topic")
	}
	for _, j := range tr.journal {
		vhAssert(int(j.partition) == counts[j.topic]-1, "message-produced-to-the-partition-the-balancer-picked")
	}
	w.Close()
	vhReach("c13-writer-offers")
}

// H8: the random choice for messages without a key is made from several goroutines at once (the balancers are
// documented as safe for concurrent use): whatever generator it draws from must be safe for that - a *rand.Rand of
// its own is not, unless every use holds a lock (lockset analysis on the generator object) - and the choice is an
// offered partition.
func VH_C13_ConcurrentRandom() {
	parts := []int{3, 5, 8}
	vhGuardCheck(true)
	got := make([]int, 6)
	for g := 0; g < 2; g++ {
		g := g
		go func() {
			got[3*g+0] = (&Hash{}).Balance(Message{}, parts...)
			got[3*g+1] = (&Murmur2Balancer{}).Balance(Message{}, parts...)
			got[3*g+2] = CRC32Balancer{}.Balance(Message{}, parts...)
		}()
	}
	vhRunAll()
	vhRunAll()
	vhGuardCheck(false)
	for _, p := range got {
		vhAssert(p == 3 || p == 5 || p == 8, "random-choice-is-an-offered-partition")
	}
	vhReach("c13-concurrent-random")
}
