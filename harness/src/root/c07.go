package kafka

import (
	"context"
	"time"
)

// C07 end to end (level S): an Async writer gets two WriteMessages calls from one goroutine for one partition,
// then Close; produce outcomes are nondeterministic (retries, lost acknowledgements). In the partition's journal
// every copy of an earlier batch precedes every copy of a later batch and ids inside a batch are in submission
// order. C09: Close returns (no level-S deadlock) only after every accepted message was sent or exhausted its
// attempts and every Completion ran; WriteMessages afterwards fails with io.ErrClosedPipe.
func VH_C07_AsyncOrder(n1, n2, batchSize int) {
	vhConcreteClock(true)
	tr := &vhTransport{partitions: 1, budget: 4}
	comp := &vhCompletion{}
	w := &Writer{Addr: TCP("vh:9092"), Topic: "t", MaxAttempts: 2, BatchSize: batchSize, Transport: tr, Completion: comp.fn, RequiredAcks: RequireAll, Async: true}
	id := 1
	mk := func(n int) []Message {
		ms := make([]Message, n)
		for i := range ms {
			ms[i] = Message{Value: []byte{byte(id)}}
			id++
		}
		return ms
	}
	err1 := w.WriteMessages(context.Background(), mk(n1)...)
	err2 := w.WriteMessages(context.Background(), mk(n2)...)
	vhAssert(vhAll(err1 == nil, err2 == nil), "async-write-accepts")
	cerr := w.Close()
	vhAssert(cerr == nil, "close-returns")
	total := n1 + n2

	// order: walk the journal; the first id of each request never goes backwards except when the request is a
	// retry of the same batch (identical ids), and ids inside a request are consecutive ascending
	prevFirst := 0
	var prev []int
	for _, r := range tr.journal {
		for k := 1; k < len(r.ids); k++ {
			vhAssert(r.ids[k] == r.ids[k-1]+1, "submission-order-inside-a-batch")
		}
		if vhSameInts(r.ids, prev) {
			continue // a retry of the same batch
		}
		vhAssert(r.ids[0] > prevFirst, "later-batch-only-after-every-copy-of-the-earlier-one")
		if len(prev) > 0 {
			vhAssert(r.ids[0] == prev[len(prev)-1]+1, "no-gap-between-consecutive-batches")
		}
		prev = r.ids
		prevFirst = r.ids[0]
		vhAssert(len(r.ids) <= batchSize, "request-respects-BatchSize")
	}
	// C09: Close returned after everything accepted earlier completed
	seen := make([]int, total+1)
	for _, ids := range comp.ids {
		for _, x := range ids {
			seen[x]++
		}
	}
	for x := 1; x <= total; x++ {
		vhAssert(seen[x] == 1, "close-waits-for-every-completion")
	}
	err3 := w.WriteMessages(context.Background(), Message{Value: []byte{99}})
	vhAssert(err3 != nil, "write-after-close-fails")
	vhReach("c07-async-order")
}

// The per-partition batch queue is a FIFO for every sequence of Put and Get operations (the initial capacity is
// 2 here so that growth and wrap-around happen within a few operations; the Writer creates it with 10).
func VH_C07_BatchQueueFIFO(ops int) {
	q := newBatchQueue(2)
	var model []*writeBatch
	for i := 0; i < ops; i++ {
		if len(model) > 0 && vhChoose("op", 2) == 1 {
			got := q.Get()
			vhAssert(got == model[0], "get-returns-the-oldest-batch")
			model = model[1:]
		} else {
			b := &writeBatch{size: i + 1}
			vhAssert(q.Put(b), "put-on-an-open-queue-succeeds")
			model = append(model, b)
		}
	}
	q.Close()
	vhAssert(!q.Put(&writeBatch{}), "put-on-a-closed-queue-fails")
	for _, want := range model {
		vhAssert(q.Get() == want, "closed-queue-drains-in-submission-order")
	}
	vhAssert(q.Get() == nil, "drained-closed-queue-returns-nil")
	vhReach("c07-batch-queue-fifo")
}

// H6 (lock hand-off schedule): two goroutines make their first write to a partition at the same time (every Unlock /
// RUnlock yields to the other). The partition still has ONE sender: after everything has settled exactly one
// goroutine waits for batches of that partition, and each goroutine's messages are in the log in its own order.
func VH_C07_ConcurrentFirstWrite(retry int) {
	vhConcreteClock(true)
	vhHandoff(true)
	tr := &vhTransport{partitions: 1, budget: 1, fixed: []int{vhAcked, vhAcked, vhAcked, vhAcked, vhAcked, vhAcked, vhAcked, vhAcked}}
	w := &Writer{Addr: TCP("vh:9092"), Topic: "t", MaxAttempts: 1, BatchSize: 1, Transport: tr, RequiredAcks: RequireAll, Async: true}
	if retry == 1 {
		// the first produce attempt is refused before it is applied (retriable), the writer retries after a back-off
		// while the other submitter's batches queue up behind it
		tr.fixed[0] = vhNetError
		w.MaxAttempts = 3
		w.WriteBackoffMin, w.WriteBackoffMax = 10*time.Millisecond, 20*time.Millisecond
	}
	ctx := context.Background()
	// the same scenario serves C10: the Writer's fields under two concurrent submitters, Stats and Close
	vhGuarded(w, "closed", &w.mutex)
	vhGuarded(w, "writers", &w.mutex)
	vhWatch(w)
	vhGuardCheck(true)
	done := 0
	for g := 0; g < 2; g++ {
		g := g
		go func() {
			w.WriteMessages(ctx, Message{Value: []byte{byte(10 * (g + 1))}})
			w.Stats()
			w.WriteMessages(ctx, Message{Value: []byte{byte(10*(g+1) + 1)}})
			done++
		}()
	}
	for i := 0; i < 6; i++ {
		vhSettle()
		if retry == 1 {
			time.Sleep(30 * time.Millisecond)
		}
	}
	vhAssert(done == 2, "both-submitters-return")
	senders := 0
	for i := 1; i <= vhSpawned(); i++ {
		if !vhCoroDone(i) && vhCoroBlockedOn(i) == "(*sync.Cond).Wait" {
			senders++ // a partition's sender idles in batchQueue.Get
		}
	}
	vhAssert(senders <= 1, "a-partition-has-one-sender")
	pos := map[int]int{}
	n := 0
	for _, j := range tr.journal {
		for _, id := range j.ids {
			pos[id] = n
			n++
		}
	}
	if retry == 1 {
		// applied requests only
		pos, n = map[int]int{}, 0
		for _, j := range tr.journal {
			if !j.applied {
				continue
			}
			for _, id := range j.ids {
				pos[id] = n
				n++
			}
		}
	}
	vhAssert(n == 4, "every-message-produced-once")
	vhAssert(pos[10] < pos[11] && pos[20] < pos[21], "each-submitters-messages-in-its-own-order")
	closed := false
	go func() { w.Close(); closed = true }()
	for i := 0; i < 4 && !closed; i++ {
		vhSettle()
	}
	vhAssert(closed, "close-returns")
	vhReach("c07-concurrent-first-write")
}
