package kafka

// Go-source shims for standard-library functions that call back into user code; the engine redirects
// errors.Is/As and sort.* here (never used natively).

import "sort"

func vhShimErrorsIs(err, target error) bool {
	for err != nil {
		if err == target {
			return true
		}
		if x, ok := err.(interface{ Is(error) bool }); ok && x.Is(target) {
			return true
		}
		switch x := err.(type) {
		case interface{ Unwrap() error }:
			err = x.Unwrap()
		case interface{ Unwrap() []error }:
			for _, e := range x.Unwrap() {
				if vhShimErrorsIs(e, target) {
					return true
				}
			}
			return false
		default:
			return false
		}
	}
	return target == nil
}

func vhShimErrorsAs(err error, target interface{}) bool {
	for err != nil {
		if vhAsAssign(err, target) {
			return true
		}
		if x, ok := err.(interface{ As(interface{}) bool }); ok && x.As(target) {
			return true
		}
		u, ok := err.(interface{ Unwrap() error })
		if !ok {
			return false
		}
		err = u.Unwrap()
	}
	return false
}

func vhShimSortSlice(x interface{}, less func(i, j int) bool) {
	n := vhLenAny(x)
	for i := 1; i < n; i++ {
		for j := i; j > 0 && less(j, j-1); j-- {
			vhSwapAny(x, j, j-1)
		}
	}
}

func vhShimSortSort(data sort.Interface) {
	n := data.Len()
	for i := 1; i < n; i++ {
		for j := i; j > 0 && data.Less(j, j-1); j-- {
			data.Swap(j, j-1)
		}
	}
}

func vhShimSortStrings(x []string) {
	for i := 1; i < len(x); i++ {
		for j := i; j > 0 && x[j] < x[j-1]; j-- {
			x[j], x[j-1] = x[j-1], x[j]
		}
	}
}

func vhShimSortInts(x []int) {
	for i := 1; i < len(x); i++ {
		for j := i; j > 0 && x[j] < x[j-1]; j-- {
			x[j], x[j-1] = x[j-1], x[j]
		}
	}
}
