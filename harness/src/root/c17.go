package kafka

import (
	"context"
	"errors"
	"io"
	"net"
	"time"

	"github.com/segmentio/kafka-go/compress"
	pfindcoordinator "github.com/segmentio/kafka-go/protocol/findcoordinator"
)

// C17 on the Conn path: the connection is lost after any prefix of a fetch response (the frame announces more
// bytes than arrive). Conn.ReadBatch / Batch.ReadMessage may deliver the records that were completely received,
// then must report an error that is not the "batch completely consumed" signal io.EOF, Batch.Close must return
// an error and the connection must be closed.
//
// codec 0: uncompressed v2 batches. codec 1: the batch is compressed with a *stream codec whose blocks end
// cleanly* (one block per record: [length byte][bytes]; end of input at a block boundary is a clean end of
// stream, as for xerial-framed snappy) - the real third-party codecs are not interpreted, this stand-in is
// installed in compress.Codecs for the path and exercises the library's byte accounting around a decompressor.

type vhBlockCodec struct{}

func (vhBlockCodec) Code() int8                          { return 1 }
func (vhBlockCodec) Name() string                        { return "vhblock" }
func (vhBlockCodec) NewReader(r io.Reader) io.ReadCloser { return &vhBlockReader{r: r} }
func (vhBlockCodec) NewWriter(w io.Writer) io.WriteCloser {
	panic("vhBlockCodec: the harness encodes by hand")
}

type vhBlockReader struct {
	r   io.Reader
	buf []byte
}

func (b *vhBlockReader) Close() error { return nil }

func (b *vhBlockReader) Read(p []byte) (int, error) {
	if len(b.buf) == 0 {
		var hdr [1]byte
		if n, _ := io.ReadFull(b.r, hdr[:]); n == 0 {
			return 0, io.EOF // clean end at a block boundary
		}
		blk := make([]byte, int(hdr[0]))
		if _, err := io.ReadFull(b.r, blk); err != nil {
			return 0, io.ErrUnexpectedEOF
		}
		b.buf = blk
	}
	n := copy(p, b.buf)
	b.buf = b.buf[n:]
	return n, nil
}

func VH_C17_ConnFetchCut(version, nrec, codec int) {
	vhConcreteClock(true)
	const first = 10
	var recs []vhRec
	var stored []vhStored
	for i := 0; i < nrec; i++ {
		k, v := vhBytes("key", 1), vhBytes("value", 2)
		recs = append(recs, vhRec{offsetDelta: int64(i), tsDelta: 0, key: k, value: v})
		stored = append(stored, vhStored{offset: first + int64(i), key: k, value: v})
	}
	var wire []byte
	if codec == 4 {
		// message format 1 (one message), read with Batch.Read like codec 3
		wire = vhEncMessage(first, 1, 0, 1600000000000, recs[0].key, recs[0].value)
		codec = 3
	} else if codec == 0 || codec == 3 {
		wire = vhEncBatchV2(first, 0, int32(nrec-1), 1600000000000, 1600000000000, int32(nrec), recs)
	} else {
		compress.Codecs[1] = vhBlockCodec{}
		var payload []byte
		for _, r := range recs {
			e := vhEncRecord(r)
			payload = append(append(payload, byte(len(e))), e...)
		}
		wire = vhEncBatchV2Raw(first, 1, int32(nrec-1), 1600000000000, 1600000000000, int32(nrec), payload)
	}
	f1 := vhApiVersionsFrame(1, []vhApiRange{{int16(fetch), 0, int16(version)}, {int16(listOffsets), 0, 1}})
	f2 := vhFetchResponse(2, version, 0, "t", 0, 0, first+int64(nrec)+10, wire)
	// the connection is lost after `cut` bytes of the fetch response (0 <= cut < len); codec 2: already inside
	// the ApiVersions response that precedes it
	var fc *vhFakeConn
	if codec == 2 {
		fc = &vhFakeConn{data: append([]byte{}, f1[:vhChoose("cut", len(f1))]...)}
	} else {
		fc = &vhFakeConn{data: append(append([]byte{}, f1...), f2[:vhChoose("cut", len(f2))]...)}
	}
	c := NewConnWith(fc, ConnConfig{Topic: "t", Partition: 0, ClientID: "vh"})
	_, serr := c.Seek(first, SeekAbsolute|SeekDontCheck)
	vhAssert(serr == nil, "seek-ok")
	b := c.ReadBatchWith(ReadBatchConfig{MinBytes: 1, MaxBytes: 100000})
	if codec == 3 {
		// Batch.Read into a buffer shorter than the value (1 byte for 2): the response is cut inside its only record
		// (or before it), so the read fails with the truncation - not with io.ErrShortBuffer, the one error after
		// which a Batch keeps its connection - and the connection is closed
		small := make([]byte, 1)
		_, rerr := b.Read(small)
		cerr := b.Close()
		vhAssert(rerr != nil && !errors.Is(rerr, io.EOF), "truncated-read-is-an-error")
		vhAssert(!errors.Is(rerr, io.ErrShortBuffer), "truncation-is-not-reported-as-a-short-buffer")
		vhAssert(cerr != nil, "close-reports-the-truncation")
		vhAssert(fc.closed, "connection-closed-after-a-truncated-response")
		vhReach("c17-conn-fetch-cut")
		return
	}
	var got []Message
	var lastErr error
	for i := 0; i < nrec+2; i++ {
		m, err := b.ReadMessage()
		if err != nil {
			lastErr = err
			break
		}
		got = append(got, m)
	}
	berr := b.Err()
	cerr := b.Close()
	vhAssert(len(got) <= nrec, "no-fabricated-records")
	for i := range got {
		if i >= nrec {
			break
		}
		vhAssert(vhAll(got[i].Offset == stored[i].offset, vhBytesEq(got[i].Key, stored[i].key), vhBytesEq(got[i].Value, stored[i].value)), "delivered-records-are-a-prefix-of-the-stored-ones")
	}
	vhAssert(lastErr != nil, "truncated-batch-ends-with-an-error")
	vhAssert(!errors.Is(lastErr, io.EOF), "truncated-batch-is-not-reported-as-completely-consumed")
	vhAssert(berr != nil && !errors.Is(berr, io.EOF), "batch-err-reports-the-truncation")
	vhAssert(cerr != nil, "close-reports-the-truncation")
	vhAssert(fc.closed, "connection-closed-after-a-truncated-response")
	vhReach("c17-conn-fetch-cut")
}

// Transport: a connection whose response was cut short is not used again. The first call fails; the second call
// for the same broker is served by a newly dialed connection, it neither reuses the dead one nor blocks.
func VH_C17_TransportDeadConn(cutTail int) {
	vhConcreteClock(true)
	dials := 0
	answer := func(node int32) []byte {
		w := &vhW{}
		w.i16(0)
		w.i32(node)
		w.str("h")
		w.i32(9092)
		return vhFrameOf(2, w.b)
	}
	f1 := vhApiVersionsFrame(1, []vhApiRange{{10, 0, 0}, {3, 0, 1}})
	a1 := answer(100)
	conns := []*vhFakeConn{
		{data: append(append([]byte{}, f1...), a1[:len(a1)-cutTail]...)}, // the answer loses its last bytes, then EOF
		{data: append(append([]byte{}, f1...), answer(200)...)},
	}
	ready := make(event)
	close(ready)
	p := &connPool{
		dial: func(ctx context.Context, network, address string) (net.Conn, error) {
			if dials >= len(conns) {
				return nil, vhErrCoordinator
			}
			c := conns[dials]
			dials++
			return c, nil
		},
		dialTimeout: time.Second, idleTimeout: time.Minute, clientID: "vh",
		ready: ready, wake: make(chan event), conns: make(map[int32]*connGroup),
	}
	p.ctrl = p.newConnGroup(&networkAddress{network: "tcp", address: "bootstrap:9092"})
	p.setState(connPoolState{})
	var resA, resB Response
	var errA, errB error
	doneA, doneB := false, false
	go func() {
		resA, errA = p.roundTrip(context.Background(), &pfindcoordinator.Request{Key: "A"})
		doneA = true
	}()
	vhSettle()
	vhAssert(doneA && errA != nil && resA == nil, "call-on-the-cut-connection-fails")
	vhAssert(conns[0].closed, "cut-connection-is-closed")
	go func() {
		resB, errB = p.roundTrip(context.Background(), &pfindcoordinator.Request{Key: "B"})
		doneB = true
	}()
	vhSettle()
	vhAssert(doneB, "next-call-does-not-block-on-the-dead-connection")
	if doneB {
		vhAssert(errB == nil && dials == 2, "next-call-is-served-by-a-new-connection")
		if errB == nil {
			vhAssert(resB.(*pfindcoordinator.Response).NodeID == 200, "next-call-gets-the-new-connections-answer")
		}
	}
	vhReach("c17-transport-dead-conn")
}
