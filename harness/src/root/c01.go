package kafka

import (
	"context"
	"errors"
	"net"
	"time"
)

// C01: acknowledged messages are in the log; failures are attributed exactly.

type vhCompletion struct {
	calls int
	ids   [][]int
	errs  []error
}

func (c *vhCompletion) fn(msgs []Message, err error) {
	c.calls++
	var ids []int
	for i := range msgs {
		ids = append(ids, int(msgs[i].Value[0]))
	}
	c.ids = append(c.ids, ids)
	c.errs = append(c.errs, err)
}

func vhIDs(msgs []Message) []int {
	var ids []int
	for i := range msgs {
		ids = append(ids, int(msgs[i].Value[0]))
	}
	return ids
}

func vhSameInts(a, b []int) bool {
	if len(a) != len(b) {
		return false
	}
	for i := range a {
		if a[i] != b[i] {
			return false
		}
	}
	return true
}

// H1: the retry loop of (*partitionWriter).writeBatch under every sequence of produce outcomes.
func VH_C01_WriteBatch(n, maxAttempts int) {
	vhManual(true)
	vhConcreteClock(true)
	tr := &vhTransport{partitions: 1}
	comp := &vhCompletion{}
	w := &Writer{Addr: TCP("vh:9092"), Topic: "t", MaxAttempts: maxAttempts, Transport: tr, Completion: comp.fn, RequiredAcks: RequireAll}
	ptw := &partitionWriter{meta: topicPartition{topic: "t", partition: 3}, queue: newBatchQueue(10), w: w}
	batch := &writeBatch{time: time.Unix(1, 0), ready: make(chan struct{}), done: make(chan struct{}), timer: time.NewTimer(time.Second)}
	for i := 0; i < n; i++ {
		batch.msgs = append(batch.msgs, Message{Value: []byte{byte(i + 1)}})
		batch.size++
	}
	want := vhIDs(batch.msgs)
	ptw.writeBatch(batch)

	j := tr.journal
	vhAssert(len(j) >= 1, "at-least-one-attempt")
	vhAssert(len(j) <= maxAttempts, "no-more-than-MaxAttempts")
	applied := 0
	for i, r := range j {
		vhAssert(vhAll(r.topic == "t", r.partition == 3), "produced-to-its-own-topic-partition-only")
		vhAssert(vhSameInts(r.ids, want), "every-attempt-carries-the-batch-in-order")
		vhAssert(r.acks == int16(RequireAll), "required-acks-forwarded")
		if r.applied {
			applied++
		}
		last := i == len(j)-1
		if !last {
			// an attempt is followed by another one only after a temporary / transient failure
			retriable := r.outcome == vhAckLost || r.outcome == vhNetError || (r.outcome == vhKafkaError && vhRetriableCode(r.code))
			vhAssert(retriable, "retry-only-after-a-temporary-failure")
			vhAssert(r.outcome != vhAcked, "no-attempt-after-an-acknowledged-one")
		} else if len(j) < maxAttempts {
			// the loop stopped early: acknowledged, or a permanent failure
			permanent := r.outcome == vhOtherError || (r.outcome == vhKafkaError && !vhRetriableCode(r.code))
			vhAssert(vhAny(r.outcome == vhAcked, permanent), "stops-early-only-on-ack-or-permanent-failure")
		}
	}
	for i, r := range j {
		if r.outcome != vhKafkaError {
			continue
		}
		// independent core of the classification (Kafka protocol error table)
		if vhCoreRetriable(r.code) && i+1 < maxAttempts {
			vhAssert(i+1 < len(j), "well-known-retriable-code-is-retried")
		}
		if vhCorePermanent(r.code) {
			vhAssert(i == len(j)-1, "well-known-permanent-code-is-not-retried")
		}
	}
	last := j[len(j)-1]
	vhAssert((batch.err == nil) == (last.outcome == vhAcked), "batch-error-nil-iff-acknowledged")
	if last.outcome == vhKafkaError {
		vhAssert(errors.Is(batch.err, Error(last.code)), "batch-error-is-the-brokers-code")
	}
	// duplicates only from a retry after a lost acknowledgement: applied copies = 1 + number of lost acks before
	lost := 0
	for _, r := range j {
		if r.outcome == vhAckLost {
			lost++
		}
	}
	if last.outcome == vhAcked {
		vhAssert(applied == 1+lost, "applied-once-plus-lost-acks")
	} else {
		vhAssert(applied == lost, "not-applied-unless-ack-was-lost")
	}
	vhAssert(comp.calls == 1, "completion-invoked-exactly-once")
	vhAssert(vhSameInts(comp.ids[0], want), "completion-receives-the-batch")
	vhAssert(comp.errs[0] == batch.err, "completion-receives-the-batch-outcome")
	vhAssert(vhIsClosed(batch.done), "done-closed")
	vhReach("c01-writebatch")
}

// H3: Client.Produce error extraction.
func VH_C01_ClientProduce() {
	vhConcreteClock(true)
	code := vhInt16("code")
	tr := &vhScriptTransport{res: vhProduceResp("t", 0, code, vhInt64("base"))}
	c := &Client{Addr: TCP("vh:9092"), Transport: tr}
	res, err := c.Produce(context.Background(), &ProduceRequest{Topic: "t", Partition: 0, RequiredAcks: RequireAll, Records: NewRecordReader(Record{Value: NewBytes([]byte{1})})})
	vhAssert(err == nil, "produce-roundtrip-ok")
	vhAssert((res.Error == nil) == (code == 0), "error-nil-iff-code-zero")
	if code != 0 {
		vhAssert(errors.Is(res.Error, Error(code)), "error-is-the-code")
	}
	vhReach("c01-client-produce")
}

type vhScriptTransport struct {
	res Response
	err error
}

func (t *vhScriptTransport) RoundTrip(ctx context.Context, addr net.Addr, req Request) (Response, error) {
	return t.res, t.err
}

// H2: WriteMessages end to end (level S: WriteMessages, writeBatches and awaitBatch run as coroutines, the batch
// timer fires when nothing else can run), over vhTransport with nondeterministic produce outcomes.
type vhRecordingBalancer struct {
	inner   Balancer
	choices []int
	offered []int
}

func (b *vhRecordingBalancer) Balance(msg Message, partitions ...int) int {
	p := b.inner.Balance(msg, partitions...)
	b.choices = append(b.choices, p)
	b.offered = append(b.offered, len(partitions))
	return p
}

func VH_C01_WriteMessages(n, P, batchSize, balancerKind, batchBytes int) {
	vhConcreteClock(true)
	tr := &vhTransport{partitions: P}
	comp := &vhCompletion{}
	var inner Balancer = &RoundRobin{}
	if balancerKind == 1 {
		inner = &Hash{}
	}
	rec := &vhRecordingBalancer{inner: inner}
	w := &Writer{Addr: TCP("vh:9092"), Topic: "t", MaxAttempts: 2, BatchSize: batchSize, BatchBytes: int64(batchBytes), Transport: tr, Completion: comp.fn, RequiredAcks: RequireAll, Balancer: rec}
	msgs := make([]Message, n)
	for i := range msgs {
		msgs[i] = Message{Key: vhBytes("key", 1), Value: []byte{byte(i + 1)}}
	}
	err := w.WriteMessages(context.Background(), msgs...)

	// ground truth per message id: partition it was acknowledged on / applied on
	ackedOn := make([]int, n+1)
	appliedCopies := make([]int, n+1)
	lostAcks := 0
	for i := range ackedOn {
		ackedOn[i] = -1
	}
	for _, r := range tr.journal {
		vhAssert(r.topic == "t", "produced-to-the-writers-topic")
		for _, id := range r.ids {
			vhAssert(int(r.partition) == rec.choices[id-1], "produced-to-the-partition-the-balancer-chose")
			if r.acked {
				ackedOn[id] = int(r.partition)
			}
			if r.applied {
				appliedCopies[id]++
			}
		}
		if r.outcome == vhAckLost {
			lostAcks++
		}
	}
	for i := range msgs {
		vhAssert(vhAll(rec.offered[i] == P, rec.choices[i] >= 0, rec.choices[i] < P), "balancer-offered-all-partitions")
	}
	var werr WriteErrors
	if err != nil {
		ok := errors.As(err, &werr)
		vhAssert(ok, "failure-is-reported-as-WriteErrors")
		vhAssert(len(werr) == n, "one-entry-per-message")
	}
	for i := range msgs {
		id := i + 1
		acked := ackedOn[id] >= 0
		if err == nil {
			vhAssert(acked, "nil-means-every-message-acknowledged")
		} else if len(werr) == n {
			vhAssert((werr[i] == nil) == acked, "entry-nil-exactly-when-acknowledged")
		}
		// at most once per applied attempt: copies beyond the first need a lost acknowledgement
		vhAssert(appliedCopies[id] <= 1+lostAcks, "duplicates-only-after-lost-ack")
	}
	// completion: every accepted message exactly once, with the batch's outcome
	seen := make([]int, n+1)
	for c, ids := range comp.ids {
		for _, id := range ids {
			seen[id]++
			vhAssert((comp.errs[c] == nil) == (ackedOn[id] >= 0), "completion-outcome-matches")
		}
	}
	for id := 1; id <= n; id++ {
		vhAssert(seen[id] == 1, "completion-exactly-once-per-message")
	}
	vhReach("c01-writemessages")
}

// H5 (level S): the linger timer of a batch fires at the very moment the batch has become full and a following
// batch was started (both cases of awaitBatch's select are ready: the engine takes each). Whatever the select
// picks, every message ends up in the log exactly once and the following batch is not lost.
func VH_C01_LingerTimerRace() {
	vhConcreteClock(true)
	tr := &vhTransport{partitions: 1, budget: 1, fixed: []int{vhAcked, vhAcked, vhAcked, vhAcked, vhAcked, vhAcked}}
	w := &Writer{Addr: TCP("vh:9092"), Topic: "t", MaxAttempts: 1, BatchSize: 2, BatchTimeout: 10 * time.Millisecond, Transport: tr, RequiredAcks: RequireAll, Async: true}
	vhManual(true) // the goroutines the writer starts are held back until the timer has fired
	err := w.WriteMessages(context.Background(), Message{Value: []byte{1}}, Message{Value: []byte{2}}, Message{Value: []byte{3}})
	vhAssert(err == nil, "async-write-accepted")
	fired := vhFireNext() // the linger timer of the first batch, which is full already
	vhAssert(fired, "first-batch-has-a-linger-timer")
	vhManual(false)
	vhSettle()
	for i := 0; i < 3; i++ {
		time.Sleep(20 * time.Millisecond) // the second batch lingers, then is flushed by its timer
		vhSettle()
	}
	closed := false
	go func() { w.Close(); closed = true }()
	for i := 0; i < 4 && !closed; i++ {
		vhSettle() // the goroutines started while held back only run when the harness says so
	}
	vhAssert(closed, "close-returns")
	count := map[int]int{}
	for _, j := range tr.journal {
		for _, id := range j.ids {
			count[id]++
		}
	}
	for id := 1; id <= 3; id++ {
		vhAssert(count[id] == 1, "every-accepted-message-is-in-the-log-exactly-once")
	}
	vhReach("c01-linger-timer-race")
}
