package kafka

import (
	"context"
	"crypto/tls"
	"net"
	"time"

	pfindcoordinator "github.com/segmentio/kafka-go/protocol/findcoordinator"
	meta "github.com/segmentio/kafka-go/protocol/metadata"
	pproduce "github.com/segmentio/kafka-go/protocol/produce"
)

// C10: guard discipline. The harness declares which mutex protects which field (from the comments in the source)
// and runs the exported methods of the goroutine-safe types on symbolic paths; at every plain load/store of a
// declared field executed by repository code the engine asserts that the guard is currently locked (by anyone:
// kafka-go hands locks over), and that atomic-only fields are never touched by plain accesses. This is a
// necessary condition for data-race freedom of these fields, not a race detector.

func vhGuardConn(c *Conn) {
	vhGuarded(c, "offset", &c.mutex)
	vhGuarded(c, "correlationID", &c.wlock)
	vhGuarded(c, "inflight", nil)
	vhGuarded(c, "requiredAcks", nil)
	for _, d := range []*connDeadline{&c.rdeadline, &c.wdeadline} {
		vhGuarded(d, "value", &d.mutex)
		vhGuarded(d, "rconn", &d.mutex)
		vhGuarded(d, "wconn", &d.mutex)
	}
}

func VH_C10_Conn(scenario int) {
	vhConcreteClock(true)
	code := vhInt16("error_code")
	f1 := vhApiVersionsFrame(1, []vhApiRange{{int16(produce), 0, 7}, {int16(fetch), 0, 10}, {int16(listOffsets), 0, 1}, {int16(metadata), 0, 1}})
	var script []byte
	script = append(script, f1...)
	switch scenario {
	case 0: // produce then list offsets
		script = append(script, vhProduceResponse(2, 7, "t", 0, code, 5, 1000, 0, 0)...)
		script = append(script, vhListOffsetsFrame(3, "t", 0, 0, -1, 9)...)
	case 2: // every Seek mode: two list-offsets answers (first, last) for the modes that check the bounds
		script = script[:0]
		script = append(script, vhListOffsetsFrame(1, "t", 0, 0, -1, 0)...)
		script = append(script, vhListOffsetsFrame(2, "t", 0, 0, -1, 9)...)
	case 1: // fetch, read, close batch, seek
		script = append(script, vhFetchResponse(2, 10, 0, "t", 0, code, 10, vhEncMessage(0, 1, 0, 1000, nil, []byte("v")))...)
		script = append(script, vhListOffsetsFrame(3, "t", 0, 0, -1, 0)...)
		script = append(script, vhListOffsetsFrame(4, "t", 0, 0, -1, 9)...)
	}
	fc := &vhFakeConn{data: script}
	c := NewConnWith(fc, ConnConfig{Topic: "t", Partition: 0, ClientID: "vh"})
	vhGuardConn(c)
	vhWatch(c)
	vhGuardCheck(true)
	switch scenario {
	case 0:
		c.SetDeadline(time.Unix(2000000000, 0))
		c.SetRequiredAcks(1)
		c.WriteMessages(Message{Value: []byte("v"), Time: time.Unix(100, 0)})
		c.ReadLastOffset()
		c.Offset()
		c.SetWriteDeadline(time.Time{})
	case 1:
		c.Seek(0, SeekAbsolute|SeekDontCheck)
		b := c.ReadBatchWith(ReadBatchConfig{MinBytes: 1, MaxBytes: 1000})
		vhGuarded(b, "offset", &b.mutex)
		vhGuarded(b, "err", &b.mutex)
		vhGuarded(b, "conn", &b.mutex)
		vhGuarded(b, "lock", &b.mutex)
		vhGuarded(b, "msgs", &b.mutex)
		vhWatch(b)
		b.ReadMessage()
		b.Offset()
		b.HighWaterMark()
		b.Close()
		c.Seek(1, SeekCurrent)
		c.SetReadDeadline(time.Unix(2000000000, 0))
	case 2:
		whence := []int{SeekStart, SeekAbsolute, SeekEnd, SeekCurrent}[vhChoose("whence", 4)]
		if vhChoose("dontcheck", 2) == 1 {
			whence |= SeekDontCheck
		}
		c.Seek(1, whence)
		c.Offset()
	}
	c.Close()
	vhGuardCheck(false)
	vhReach("c10-conn")
}

func VH_C10_Balancers() {
	parts := []int{0, 1, 2}
	rr := &RoundRobin{ChunkSize: vhIntRange("chunk", -1, 3)}
	vhGuarded(rr, "counter", &rr.mutex)
	vhGuarded(rr, "ChunkSize", &rr.mutex)
	lb := &LeastBytes{}
	vhGuarded(lb, "counters", &lb.mutex)
	vhWatch(rr)
	vhWatch(lb)
	vhGuardCheck(true)
	rr.Balance(Message{}, parts...)
	rr.Balance(Message{}, parts...)
	lb.Balance(Message{Value: vhBlob("v", 100)}, parts...)
	lb.Balance(Message{Value: vhBlob("v", 100)}, parts...)
	vhGuardCheck(false)
	vhReach("c10-balancers")
}

func VH_C10_Writer(scenario int) {
	vhConcreteClock(true)
	tr := &vhTransport{partitions: 1, budget: 1}
	w := &Writer{Addr: TCP("vh:9092"), Topic: "t", MaxAttempts: 2, BatchSize: 1, Transport: tr, RequiredAcks: RequireAll}
	if scenario == 1 {
		// batches of two: the first call fills a batch (flushed by size), the second leaves one message in an
		// open batch that only the BatchTimeout timer flushes (partitionWriter.awaitBatch, timer branch)
		w.BatchSize = 2
		w.BatchTimeout = 10 * time.Millisecond
	}
	vhGuarded(w, "closed", &w.mutex)
	vhGuarded(w, "writers", &w.mutex)
	vhWatch(w)
	vhGuardCheck(true)
	w.WriteMessages(context.Background(), Message{Value: []byte{1}}, Message{Value: []byte{2}})
	for _, ptw := range w.writers {
		vhWatch(ptw)
		vhGuarded(ptw, "currBatch", &ptw.mutex)
		vhGuarded(&ptw.queue, "queue", ptw.queue.mutex)
		vhGuarded(&ptw.queue, "closed", ptw.queue.mutex)
	}
	err := w.WriteMessages(context.Background(), Message{Value: []byte{3}})
	if scenario == 1 {
		vhAssert(err == nil, "timer-flushed-batch-completes")
		vhReach("c10-writer-timer-flush")
	}
	w.Stats()
	w.Close()
	w.WriteMessages(context.Background(), Message{Value: []byte{4}})
	vhGuardCheck(false)
	vhReach("c10-writer")
}

func VH_C10_Generation() {
	vhConcreteClock(true)
	g := vhNewGeneration(&vhCoordinator{})
	vhGuarded(g, "closed", &g.lock)
	vhGuarded(g, "routines", &g.lock)
	vhWatch(g)
	vhGuardCheck(true)
	g.Start(func(ctx context.Context) { <-ctx.Done() })
	g.heartbeatLoop(time.Second)
	vhRunAll()
	g.close()
	vhGuardCheck(false)
	vhReach("c10-generation")
}

// Transport.pools (a map) is only read, iterated and modified under Transport.mutex: grabPool (read-locked fast path
// and locked slow path) and CloseIdleConnections. Goroutines spawned by the pool are recorded, not run.
func VH_C10_Transport() {
	vhManual(true)
	vhConcreteClock(true)
	t := &Transport{Dial: func(ctx context.Context, network, address string) (net.Conn, error) { return nil, vhErrCoordinator }}
	t.grabPool(TCP("vh:9092")).unref() // creates the map and the first pool
	vhGuarded(t, "pools", &t.mutex)
	vhWatch(t)
	vhGuardCheck(true)
	t.grabPool(TCP("vh:9092")).unref()  // fast path: existing pool
	t.grabPool(TCP("other:9092")).unref() // slow path: new pool
	t.CloseIdleConnections()
	t.grabPool(TCP("vh:9092")).unref()
	t.CloseIdleConnections()
	vhGuardCheck(false)
	vhReach("c10-transport")
}

// C10-H5: the *tls.Config a program hands to a Transport is shared by every connection goroutine of that transport
// (and by in-flight handshakes reading it): the library may read it but never writes to it - the per-connection
// ServerName goes into a private copy. Declared as a read-only guard on the config's ServerName field; the path ends
// where crypto/tls is entered (cut: Clone / Client are not interpreted), which is after any store connect could make.
func VH_C10_TransportTLS() {
	vhConcreteClock(true)
	cfg := &tls.Config{}
	fc := &vhFakeConn{}
	ready := make(event)
	close(ready)
	p := &connPool{
		dial:        func(ctx context.Context, network, address string) (net.Conn, error) { return fc, nil },
		dialTimeout: time.Second, idleTimeout: time.Minute, clientID: "vh", tls: cfg,
		ready: ready, wake: make(chan event), conns: make(map[int32]*connGroup),
	}
	p.ctrl = p.newConnGroup(&networkAddress{network: "tcp", address: "bootstrap:9092"})
	p.setState(connPoolState{})
	vhGuarded(cfg, "ServerName", "readonly")
	vhGuardCheck(true)
	vhReach("c10-transport-tls")
	go p.roundTrip(context.Background(), &pfindcoordinator.Request{Key: "A"})
	vhSettle()
	vhGuardCheck(false)
	vhAssert(cfg.ServerName == "", "the-programs-tls-config-is-not-modified")
}

// C10-H6: the Reader's mutex-protected fields (version, offset, lag, closed) under the synchronised Reader methods:
// ReadMessage / FetchMessage, Offset, Lag, SetOffset, Stats, Close, each with the background reader goroutine alive.
func VH_C10_Reader() {
	vhConcreteClock(true)
	const n = 2
	var set []byte
	for i := 0; i < n; i++ {
		set = append(set, vhEncMessage(int64(i), 1, 0, 1600000000000, nil, vhBytes("value", 2))...)
	}
	meta := append(vhApiVersionsFrame(1, []vhApiRange{{int16(metadata), 0, 1}}), vhMetadataResponse(2, 1, "t", 0, 0, 1)...)
	var s []byte
	s = append(s, vhListOffsetsFrame(1, "t", 0, 0, -1, 0)...)
	s = append(s, vhListOffsetsFrame(2, "t", 0, 0, -1, int64(n))...)
	s = append(s, vhListOffsetsFrame(3, "t", 0, 0, -1, 0)...)
	s = append(s, vhListOffsetsFrame(4, "t", 0, 0, -1, int64(n))...)
	s = append(s, vhApiVersionsFrame(5, []vhApiRange{{int16(fetch), 0, 2}})...)
	s = append(s, vhFetchResponse(6, 2, 0, "t", 0, 0, int64(n), set)...)
	leader := &vhFakeConn{data: s, gate: make(chan struct{}), gateAfter: len(s)}
	conns := []*vhFakeConn{{data: meta}, leader}
	dials := 0
	d := &Dialer{DialFunc: func(c context.Context, network, address string) (net.Conn, error) {
		if dials >= len(conns) {
			return nil, vhErrCoordinator
		}
		fc := conns[dials]
		dials++
		return fc, nil
	}}
	r := NewReader(ReaderConfig{Brokers: []string{"b:9092"}, Topic: "t", Partition: 0, Dialer: d, MinBytes: 1, MaxBytes: 100000, MaxWait: time.Second,
		ReadLagInterval: -1})
	vhGuarded(r, "version", &r.mutex)
	vhGuarded(r, "offset", &r.mutex)
	vhGuarded(r, "lag", &r.mutex)
	vhGuarded(r, "closed", &r.mutex)
	vhWatch(r) // lockset analysis of every field of the Reader, declared or not
	vhGuardCheck(true)
	ctx := context.Background()
	m, err := r.ReadMessage(ctx)
	vhAssert(err == nil && m.Offset == 0, "reader-delivers")
	_ = r.Offset()
	_ = r.Lag()
	_ = r.Stats()
	m, err = r.FetchMessage(ctx)
	vhAssert(err == nil && m.Offset == 1, "reader-delivers-next")
	serr := r.SetOffset(0)
	vhAssert(serr == nil, "set-offset-ok")
	vhSettle()
	_ = r.Offset()
	_ = r.Stats()
	closedCh := make(chan struct{})
	go func() { r.Close(); close(closedCh) }()
	<-closedCh
	_ = r.Offset()
	_ = r.Lag()
	// Close reads Reader.cancel (and waits on Reader.join) without the mutex after it has marked the reader closed:
	// from then on nobody may write the reader's mutable state - in particular not a late subscribe() from the
	// consumer-group goroutine (a generation that arrives while Close runs)
	vhGuarded(r, "cancel", "readonly")
	vhGuarded(r, "version", "readonly")
	r.subscribe(map[string][]PartitionAssignment{"t": {{ID: 0, Offset: 0}}})
	vhGuardCheck(false)
	vhReach("c10-reader")
}

// C10-H7: the Transport's connection pool: connPool.conns (a map: lookups, updates, deletes, iteration) under
// connPool.mutex; connGroup.idleConns / closed and the idle timer of a pooled connection under connGroup.mutex -
// across sendRequest (grab an idle connection), releaseConn (arm the idle timer), the idle timer firing
// (removeConn), a metadata update that removes one broker and adds another, and closing the pool.
func VH_C10_ConnPool() {
	vp := vhNewPool(2, 1)
	p := vp.p
	p.refc = 1
	p.cancel = func() {}
	p.idleTimeout = time.Minute
	p.dialTimeout = time.Second
	p.dial = func(ctx context.Context, network, address string) (net.Conn, error) { return nil, vhErrCoordinator }
	vhGuarded(p, "conns", &p.mutex)
	vhWatch(p)
	var all []*conn
	for _, g := range []*connGroup{p.conns[vp.ids[0]], p.conns[vp.ids[1]], p.ctrl} {
		vhWatch(g)
		vhGuarded(g, "idleConns", &g.mutex)
		vhGuarded(g, "closed", &g.mutex)
		for _, c := range g.idleConns {
			vhGuarded(c, "timer", &g.mutex)
			all = append(all, c)
		}
	}
	vhGuardCheck(true)
	ctx := context.Background()
	req := &pproduce.Request{Topics: []pproduce.RequestTopic{{Topic: "t", Partitions: []pproduce.RequestPartition{{Partition: 0}}}}}
	p.sendRequest(ctx, req, p.grabState())
	leader := p.conns[vp.leaders[0]]
	var used *conn
	for _, c := range all {
		if c.group == leader {
			used = c
		}
	}
	vhAssert(used != nil && len(vp.chans[vp.leaders[0]]) == 1, "request-went-to-the-leaders-connection")
	ok := leader.releaseConn(used) // what conn.run does after a completed exchange
	vhAssert(ok, "connection-released-to-the-idle-stack")
	p.sendRequest(ctx, &meta.Request{}, p.grabState())
	vhFireNext() // the idle timer of the released connection
	vhSettle()
	// the cluster changes: the non-leader broker disappears, a new one appears
	md := &meta.Response{ControllerID: vp.leaders[0]}
	md.Brokers = append(md.Brokers, meta.ResponseBroker{NodeID: vp.leaders[0], Host: "h", Port: 9092})
	newID := vp.ids[0] + vp.ids[1] + 1 // differs from both (ids are >= 0 and distinct)
	md.Brokers = append(md.Brokers, meta.ResponseBroker{NodeID: newID, Host: "n", Port: 9099})
	md.Topics = []meta.ResponseTopic{{Name: "t", Partitions: []meta.ResponsePartition{{PartitionIndex: 0, LeaderID: vp.leaders[0]}}}}
	p.update(ctx, md, nil)
	p.sendRequest(ctx, req, p.grabState()) // no idle connection left: dials (and fails)
	vhSettle()
	p.unref()
	vhGuardCheck(false)
	vhReach("c10-connpool")
}

// C10-H8 (lock hand-off schedule): one goroutine reads messages from a Batch while another asks for its offsets, then
// closes it and seeks on the Conn; the third keeps reading the connection's offset. Declared guards plus the lockset
// analysis over every field of the Batch and of the Conn, with the goroutines really interleaved at every Unlock.
func VH_C10_ConcurrentBatch() {
	vhConcreteClock(true)
	vhHandoff(true)
	f1 := vhApiVersionsFrame(1, []vhApiRange{{int16(fetch), 0, 10}, {int16(listOffsets), 0, 1}})
	set := append(vhEncMessage(0, 1, 0, 1000, nil, []byte("a")), vhEncMessage(1, 1, 0, 1000, nil, []byte("b"))...)
	set = append(set, vhEncMessage(2, 1, 0, 1000, nil, []byte("c"))...)
	var script []byte
	script = append(script, f1...)
	script = append(script, vhFetchResponse(2, 10, 0, "t", 0, 0, 10, set)...)
	script = append(script, vhListOffsetsFrame(3, "t", 0, 0, -1, 0)...)
	script = append(script, vhListOffsetsFrame(4, "t", 0, 0, -1, 9)...)
	fc := &vhFakeConn{data: script}
	c := NewConnWith(fc, ConnConfig{Topic: "t", Partition: 0, ClientID: "vh"})
	c.Seek(0, SeekAbsolute|SeekDontCheck)
	b := c.ReadBatchWith(ReadBatchConfig{MinBytes: 1, MaxBytes: 1000})
	vhGuardConn(c)
	vhGuarded(b, "offset", &b.mutex)
	vhGuarded(b, "err", &b.mutex)
	vhGuarded(b, "conn", &b.mutex)
	vhGuarded(b, "lock", &b.mutex)
	vhGuarded(b, "msgs", &b.mutex)
	vhWatch(c)
	vhWatch(b)
	vhGuardCheck(true)
	fin := 0
	go func() {
		for i := 0; i < 4; i++ {
			if _, err := b.ReadMessage(); err != nil {
				break
			}
		}
		fin++
	}()
	go func() {
		b.Offset()
		b.HighWaterMark()
		b.Err()
		b.Close()
		c.Seek(1, SeekCurrent)
		fin++
	}()
	go func() {
		c.Offset()
		c.Offset()
		fin++
	}()
	go func() {
		// deadline setters racing with the I/O of the other goroutines
		c.SetDeadline(time.Unix(2000000000, 0))
		c.SetReadDeadline(time.Time{})
		c.SetWriteDeadline(time.Unix(2000000001, 0))
		c.SetRequiredAcks(1)
		fin++
	}()
	for i := 0; i < 6; i++ {
		vhRunAll()
	}
	vhGuardCheck(false)
	vhAssert(fin == 4, "every-goroutine-returns")
	c.Close()
	vhReach("c10-concurrent-batch")
}

// C10-H9 (lock hand-off schedule): the synchronised Reader methods from three goroutines at once - reading,
// SetOffset/Offset/Lag/Stats, Close - with the background reader goroutine alive; lockset analysis over every field
// of the Reader plus the declared guards.
func VH_C10_ConcurrentReader() {
	vhConcreteClock(true)
	vhHandoff(true)
	const n = 2
	var set []byte
	for i := 0; i < n; i++ {
		set = append(set, vhEncMessage(int64(i), 1, 0, 1600000000000, nil, []byte{byte('a' + i)})...)
	}
	meta := append(vhApiVersionsFrame(1, []vhApiRange{{int16(metadata), 0, 1}}), vhMetadataResponse(2, 1, "t", 0, 0, 1)...)
	var s []byte
	s = append(s, vhListOffsetsFrame(1, "t", 0, 0, -1, 0)...)
	s = append(s, vhListOffsetsFrame(2, "t", 0, 0, -1, int64(n))...)
	s = append(s, vhListOffsetsFrame(3, "t", 0, 0, -1, 0)...)
	s = append(s, vhListOffsetsFrame(4, "t", 0, 0, -1, int64(n))...)
	s = append(s, vhApiVersionsFrame(5, []vhApiRange{{int16(fetch), 0, 2}})...)
	s = append(s, vhFetchResponse(6, 2, 0, "t", 0, 0, int64(n), set)...)
	mk := func() *vhFakeConn { return &vhFakeConn{data: s, gate: make(chan struct{}), gateAfter: len(s)} }
	conns := []*vhFakeConn{{data: meta}, mk(), {data: meta}, mk()}
	dials := 0
	d := &Dialer{DialFunc: func(c context.Context, network, address string) (net.Conn, error) {
		if dials >= len(conns) {
			return nil, vhErrCoordinator
		}
		fc := conns[dials]
		dials++
		return fc, nil
	}}
	r := NewReader(ReaderConfig{Brokers: []string{"b:9092"}, Topic: "t", Partition: 0, Dialer: d, MinBytes: 1, MaxBytes: 100000, MaxWait: time.Second,
		ReadLagInterval: -1})
	vhGuarded(r, "version", &r.mutex)
	vhGuarded(r, "offset", &r.mutex)
	vhGuarded(r, "lag", &r.mutex)
	vhGuarded(r, "closed", &r.mutex)
	vhWatch(r)
	// Reader.cancel is written under the mutex only while the reader is not closed, and read by Close outside the
	// mutex only after Close has marked it closed under the mutex: ordered by the flag, not by a common lock, which a
	// lockset analysis cannot see. It is stated as a read-only guard from Close on (VH_C10_Reader) instead.
	vhUnwatch(r, "cancel")
	vhGuardCheck(true)
	ctx := context.Background()
	fin := 0
	go func() {
		r.ReadMessage(ctx)
		r.FetchMessage(ctx)
		fin++
	}()
	go func() {
		r.Offset()
		r.SetOffset(1)
		r.Lag()
		r.Stats()
		r.Offset()
		fin++
	}()
	for i := 0; i < 4; i++ {
		vhRunAll()
	}
	go func() {
		r.Close()
		fin++
	}()
	for i := 0; i < 6 && fin < 3; i++ {
		vhRunAll()
		time.Sleep(2 * time.Second)
	}
	vhGuardCheck(false)
	vhAssert(fin == 3, "every-goroutine-returns")
	vhReach("c10-concurrent-reader")
}

// C10-H10 (lock hand-off schedule): the balancers from two goroutines at once (they are documented as safe for
// concurrent use): lockset analysis over RoundRobin and LeastBytes.
func VH_C10_ConcurrentBalancers() {
	vhHandoff(true)
	parts := []int{0, 1, 2}
	rr := &RoundRobin{ChunkSize: 2}
	lb := &LeastBytes{}
	vhGuarded(rr, "counter", &rr.mutex)
	vhGuarded(lb, "counters", &lb.mutex)
	vhWatch(rr)
	vhWatch(lb)
	vhGuardCheck(true)
	fin := 0
	for g := 0; g < 2; g++ {
		go func() {
			rr.Balance(Message{}, parts...)
			lb.Balance(Message{Value: []byte("vv")}, parts...)
			rr.Balance(Message{}, parts...)
			lb.Balance(Message{Value: []byte("v")}, parts...)
			fin++
		}()
	}
	for i := 0; i < 4; i++ {
		vhRunAll()
	}
	vhGuardCheck(false)
	vhAssert(fin == 2, "every-goroutine-returns")
	vhReach("c10-concurrent-balancers")
}

// C10-H11 (lock hand-off schedule): Transport.grabPool from two goroutines and CloseIdleConnections from a third,
// interleaved at every Unlock: Transport.pools under Transport.mutex (declared guard on the map) plus lockset analysis
// over the Transport's fields.
func VH_C10_ConcurrentTransport() {
	vhConcreteClock(true)
	vhHandoff(true)
	t := &Transport{Dial: func(ctx context.Context, network, address string) (net.Conn, error) { return nil, vhErrCoordinator }}
	t.grabPool(TCP("vh:9092")).unref()
	vhGuarded(t, "pools", &t.mutex)
	vhWatch(t)
	vhGuardCheck(true)
	fin := 0
	go func() {
		t.grabPool(TCP("vh:9092")).unref()
		t.grabPool(TCP("other:9092")).unref()
		fin++
	}()
	go func() {
		t.grabPool(TCP("other:9092")).unref()
		t.grabPool(TCP("vh:9092")).unref()
		fin++
	}()
	go func() {
		t.CloseIdleConnections()
		fin++
	}()
	for i := 0; i < 6 && fin < 3; i++ {
		vhRunAll()
	}
	t.CloseIdleConnections()
	vhGuardCheck(false)
	vhAssert(fin == 3, "every-goroutine-returns")
	vhReach("c10-concurrent-transport")
}

// C10-H12 (lock hand-off schedule): a partition writer and its batch queue under two concurrent submitters, the
// linger timer, the sender goroutine and Close: declared guards plus lockset analysis over partitionWriter and
// batchQueue (created by a first write, then watched).
func VH_C10_ConcurrentPartitionWriter() {
	vhConcreteClock(true)
	vhHandoff(true)
	tr := &vhTransport{partitions: 1, budget: 1, fixed: []int{vhAcked, vhAcked, vhAcked, vhAcked, vhAcked, vhAcked, vhAcked, vhAcked}}
	w := &Writer{Addr: TCP("vh:9092"), Topic: "t", MaxAttempts: 1, BatchSize: 2, BatchTimeout: 10 * time.Millisecond, Transport: tr, RequiredAcks: RequireAll}
	ctx := context.Background()
	w.WriteMessages(ctx, Message{Value: []byte{1}}, Message{Value: []byte{2}})
	for _, ptw := range w.writers {
		vhGuarded(ptw, "currBatch", &ptw.mutex)
		vhGuarded(&ptw.queue, "queue", ptw.queue.mutex)
		vhGuarded(&ptw.queue, "closed", ptw.queue.mutex)
		vhWatch(ptw)
	}
	vhWatch(w)
	vhGuardCheck(true)
	fin := 0
	for g := 0; g < 2; g++ {
		g := g
		go func() {
			w.WriteMessages(ctx, Message{Value: []byte{byte(10 + g)}})
			w.WriteMessages(ctx, Message{Value: []byte{byte(20 + g)}}, Message{Value: []byte{byte(30 + g)}})
			fin++
		}()
	}
	for i := 0; i < 8 && fin < 2; i++ {
		vhRunAll()
		time.Sleep(20 * time.Millisecond)
	}
	go func() { w.Close(); fin++ }()
	for i := 0; i < 6 && fin < 3; i++ {
		vhRunAll()
	}
	vhGuardCheck(false)
	vhAssert(fin == 3, "every-goroutine-returns")
	vhReach("c10-concurrent-partition-writer")
}

// C10-H13 (lock hand-off schedule): the connection pool under a sender, a metadata update that replaces a broker and
// the closing of the pool, all at once.
func VH_C10_ConcurrentConnPool() {
	vhHandoff(true)
	vp := vhNewPool(2, 1)
	p := vp.p
	p.refc = 1
	p.cancel = func() {}
	p.idleTimeout = time.Minute
	p.dialTimeout = time.Second
	p.dial = func(ctx context.Context, network, address string) (net.Conn, error) { return nil, vhErrCoordinator }
	vhGuarded(p, "conns", &p.mutex)
	vhWatch(p)
	for _, g := range []*connGroup{p.conns[vp.ids[0]], p.conns[vp.ids[1]], p.ctrl} {
		vhGuarded(g, "idleConns", &g.mutex)
		vhGuarded(g, "closed", &g.mutex)
		vhWatch(g)
	}
	vhGuardCheck(true)
	ctx := context.Background()
	fin := 0
	go func() {
		req := &pproduce.Request{Topics: []pproduce.RequestTopic{{Topic: "t", Partitions: []pproduce.RequestPartition{{Partition: 0}}}}}
		p.sendRequest(ctx, req, p.grabState())
		p.sendRequest(ctx, &meta.Request{}, p.grabState())
		p.sendRequest(ctx, req, p.grabState())
		fin++
	}()
	go func() {
		md := &meta.Response{ControllerID: vp.leaders[0]}
		md.Brokers = append(md.Brokers, meta.ResponseBroker{NodeID: vp.leaders[0], Host: "h", Port: 9092})
		md.Brokers = append(md.Brokers, meta.ResponseBroker{NodeID: vp.ids[0] + vp.ids[1] + 1, Host: "n", Port: 9099})
		md.Topics = []meta.ResponseTopic{{Name: "t", Partitions: []meta.ResponsePartition{{PartitionIndex: 0, LeaderID: vp.leaders[0]}}}}
		p.update(ctx, md, nil)
		fin++
	}()
	go func() {
		p.unref()
		fin++
	}()
	for i := 0; i < 12 && fin < 3; i++ {
		vhRunAll()
		time.Sleep(time.Second)
	}
	vhGuardCheck(false)
	vhAssert(fin == 3, "every-goroutine-returns")
	vhReach("c10-concurrent-connpool")
}
