package kafka

import (
	"io"
)

// C06: a response is only ever delivered to the call that sent the request.
// H1 (sequential): waitResponse from an arbitrary buffered response header; the terminating branches.
func VH_C06_WaitResponse(inflight int) {
	vhConcreteClock(true)
	size := vhInt32("size")
	rid := vhInt32("response_correlation_id")
	id := vhInt32("expected_id")
	avail := vhChoose("bytes_available", 3) // 0: nothing (EOF), 1: 5 bytes (short), 2: full header + payload
	w := &vhW{}
	w.i32(size)
	w.i32(rid)
	w.raw([]byte{1, 2, 3, 4})
	data := w.b
	switch avail {
	case 0:
		data = nil
	case 1:
		data = data[:5]
	}
	fc := &vhFakeConn{data: data}
	c := NewConnWith(fc, ConnConfig{Topic: "t", ClientID: "vh"})
	c.inflight = int32(inflight)
	if inflight > 1 && avail == 2 && id != rid {
		// foreign response with other calls in flight: waitResponse spins until another goroutine consumes it
		// (needs a second thread - outside this harness)
		vhAssume(false)
	}
	_, sz, lock, err := c.waitResponse(&c.rdeadline, id)
	if avail < 2 {
		vhAssert(err != nil, "short-header-is-an-error")
		vhAssert(fc.closed, "peek-error-closes-the-connection")
		vhAssert(lock == nil, "no-lock-handed-over-on-error")
		vhReach("c06-peek-error")
		return
	}
	if id == rid {
		vhAssert(err == nil, "own-response-accepted")
		vhAssume(size >= 4)
		vhAssert(sz == int(size)-4, "size-excludes-the-correlation-id")
		vhAssert(lock == &c.rlock, "read-lock-handed-to-the-caller")
		vhAssert(fc.off-c.rbuf.Buffered() == 8, "header-consumed-exactly")
		vhReach("c06-own-response")
	} else {
		vhAssert(err == io.ErrNoProgress, "foreign-response-with-nobody-else-waiting-is-ErrNoProgress")
		vhAssert(lock == nil && sz == 0, "foreign-response-never-delivered")
		vhAssert(fc.off-c.rbuf.Buffered() == 0, "foreign-response-left-in-the-buffer")
		vhReach("c06-foreign-response")
	}
	vhAssert(c.inflight == int32(inflight)-1, "inflight-decremented-once")
}
