package kafka

import (
	"context"
	"io"
	"net"
	"time"

	pfindcoordinator "github.com/segmentio/kafka-go/protocol/findcoordinator"
)

// C06: a response is only ever delivered to the call that sent the request.
// H1 (sequential): waitResponse from an arbitrary buffered response header; the terminating branches.
func VH_C06_WaitResponse(inflight int) {
	vhConcreteClock(true)
	size := vhInt32("size")
	rid := vhInt32("response_correlation_id")
	id := vhInt32("expected_id")
	avail := vhChoose("bytes_available", 3) // 0: nothing (EOF), 1: 5 bytes (short), 2: full header + payload
	w := &vhW{}
	w.i32(size)
	w.i32(rid)
	w.raw([]byte{1, 2, 3, 4})
	data := w.b
	switch avail {
	case 0:
		data = nil
	case 1:
		data = data[:5]
	}
	fc := &vhFakeConn{data: data}
	c := NewConnWith(fc, ConnConfig{Topic: "t", ClientID: "vh"})
	c.inflight = int32(inflight)
	if inflight > 1 && avail == 2 && id != rid {
		// foreign response with other calls in flight: waitResponse spins until another goroutine consumes it
		// (needs a second thread - outside this harness)
		vhAssume(false)
	}
	_, sz, lock, err := c.waitResponse(&c.rdeadline, id)
	if avail < 2 {
		vhAssert(err != nil, "short-header-is-an-error")
		vhAssert(fc.closed, "peek-error-closes-the-connection")
		vhAssert(lock == nil, "no-lock-handed-over-on-error")
		vhReach("c06-peek-error")
		return
	}
	if id == rid {
		vhAssert(err == nil, "own-response-accepted")
		vhAssume(size >= 4)
		vhAssert(sz == int(size)-4, "size-excludes-the-correlation-id")
		vhAssert(lock == &c.rlock, "read-lock-handed-to-the-caller")
		vhAssert(fc.off-c.rbuf.Buffered() == 8, "header-consumed-exactly")
		vhReach("c06-own-response")
	} else {
		vhAssert(err == io.ErrNoProgress, "foreign-response-with-nobody-else-waiting-is-ErrNoProgress")
		vhAssert(lock == nil && sz == 0, "foreign-response-never-delivered")
		vhAssert(fc.off-c.rbuf.Buffered() == 0, "foreign-response-left-in-the-buffer")
		vhReach("c06-foreign-response")
	}
	vhAssert(c.inflight == int32(inflight)-1, "inflight-decremented-once")
}

// H2: Batch.Read with a buffer that is too small (io.ErrShortBuffer keeps the connection), Close, then another
// operation: the rest of the fetch response must have been drained, the next call gets its own response.
func VH_C06_ShortBufferThenNext(version int) {
	vhConcreteClock(true)
	want := vhInt64("last_offset")
	f1 := vhApiVersionsFrame(1, []vhApiRange{{int16(fetch), 0, int16(version)}, {int16(listOffsets), 0, 1}})
	set := append(vhEncMessage(0, 1, 0, 1000, nil, vhBytes("value", 3)), vhEncMessage(1, 1, 0, 1000, nil, vhBytes("value2", 3))...)
	f2 := vhFetchResponse(2, version, 0, "t", 0, 0, 10, set)
	f3 := vhListOffsetsFrame(3, "t", 0, 0, -1, want)
	fc := &vhFakeConn{data: append(append(append([]byte{}, f1...), f2...), f3...)}
	c := NewConnWith(fc, ConnConfig{Topic: "t", Partition: 0, ClientID: "vh"})
	c.Seek(0, SeekAbsolute|SeekDontCheck)
	b := c.ReadBatchWith(ReadBatchConfig{MinBytes: 1, MaxBytes: 1000})
	small := make([]byte, 1)
	_, rerr := b.Read(small)
	vhAssert(rerr == io.ErrShortBuffer, "short-buffer-reported")
	b.Close()
	vhAssert(!fc.closed, "short-buffer-keeps-the-connection")
	vhAssert(fc.off-c.rbuf.Buffered() == len(f1)+len(f2), "rest-of-the-fetch-response-drained-on-close")
	off, err := c.ReadLastOffset()
	vhAssert(err == nil && off == want, "next-call-gets-its-own-response")
	vhReach("c06-short-buffer")
}

// H3 (level S): an abandoned exchange on a Transport connection. Call A's context ends after its request was
// handed to a connection; call B follows; the broker answers A's request first. B must get its own answer.
func VH_C06_TransportAbandoned(mode int) {
	vhConcreteClock(true)
	dials := 0
	mkConn := func(node int32, gated bool) *vhFakeConn {
		w := &vhW{}
		w.i16(0)
		w.i32(node)
		w.str("h")
		w.i32(9092)
		f1 := vhApiVersionsFrame(1, []vhApiRange{{10, 0, 0}, {3, 0, 1}})
		c := &vhFakeConn{data: append(append([]byte{}, f1...), vhFrameOf(2, w.b)...)}
		if gated {
			// the answer to the first request after the version negotiation stays on its way until released
			c.gate, c.gateAfter = make(chan struct{}), len(f1)
		}
		return c
	}
	conns := []*vhFakeConn{mkConn(100, true), mkConn(200, true)}
	ready := make(event)
	close(ready)
	p := &connPool{
		dial: func(ctx context.Context, network, address string) (net.Conn, error) {
			c := conns[dials]
			dials++
			return c, nil
		},
		dialTimeout: time.Second, idleTimeout: time.Minute, clientID: "vh",
		ready: ready, wake: make(chan event), conns: make(map[int32]*connGroup),
	}
	p.ctrl = p.newConnGroup(&networkAddress{network: "tcp", address: "bootstrap:9092"})
	p.setState(connPoolState{})

	// mode 0: the caller cancels its context; mode 1: the call has a deadline that expires (time passes while the
	// harness waits for the call to return)
	ctxA, cancelA := context.WithCancel(context.Background())
	if mode == 1 {
		ctxA, cancelA = context.WithTimeout(context.Background(), time.Second)
	}
	var resA, resB Response
	var errA, errB error
	doneA, doneB := false, false
	go func() {
		resA, errA = p.roundTrip(ctxA, &pfindcoordinator.Request{Key: "A"})
		doneA = true
	}()
	// A dials connection 1, hands its request to the connection's loop (rendezvous on the unbuffered request
	// channel), the loop writes it and waits for the answer, which is still on its way
	vhRunAll()
	vhRunAll()
	vhRunAll()
	vhAssert(dials == 1 && len(conns[0].written) > 0, "request-A-is-in-flight-on-connection-1")
	vhAssert(!doneA, "call-A-waits-for-its-response")
	if mode == 1 {
		for i := 0; i < 4 && !doneA; i++ {
			time.Sleep(2 * time.Second) // time passes: the deadline of call A expires
		}
		defer cancelA()
	} else {
		cancelA()
	}
	vhRunAll()
	vhRunAll()
	vhAssert(doneA && errA != nil && resA == nil, "abandoned-call-returns-its-context-error")
	go func() {
		resB, errB = p.roundTrip(context.Background(), &pfindcoordinator.Request{Key: "B"})
		doneB = true
	}()
	vhRunAll()
	vhRunAll()
	vhRunAll()
	vhAssert(dials == 2 && len(conns[1].written) > 0 && !doneB, "request-B-is-in-flight-on-connection-2")
	// the broker's answer to the abandoned request arrives late, while B is still waiting for its own answer
	conns[0].release()
	vhRunAll()
	vhRunAll()
	vhAssert(!doneB, "the-late-answer-to-the-abandoned-call-does-not-complete-another-call")
	conns[1].release()
	vhRunAll()
	vhRunAll()
	vhAssert(doneB, "call-B-completes")
	if doneB {
		vhAssert(errB == nil, "call-B-succeeds")
		if errB == nil {
			vhAssert(resB.(*pfindcoordinator.Response).NodeID == 200, "call-B-gets-its-own-response-not-the-abandoned-one")
		}
	}
	vhReach("c06-transport-abandoned")
}

// A read deadline expires in the middle of a response body (the peer stalls, the rest arrives later): the call fails
// and the connection is closed - the late bytes and whatever follows them are never taken for the next call's
// response.
func VH_C06_StalledBody() {
	mine, next := vhInt64("offset_of_the_stalled_response"), vhInt64("offset_of_the_next_response")
	f1 := vhListOffsetsFrame(1, "t", 0, 0, -1, mine)
	f2 := vhListOffsetsFrame(2, "t", 0, 0, -1, next)
	k := 1 + vhChoose("late_bytes", len(f1)-9) // the header (8 bytes) has arrived, at least one body byte is late
	fc := &vhFakeConn{data: append(append([]byte{}, f1...), f2...), stallAt: len(f1) - k}
	c := NewConnWith(fc, ConnConfig{Topic: "t", Partition: 0, ClientID: "vh"})
	_, err := c.ReadLastOffset()
	vhAssert(err != nil, "stalled-response-fails-the-call")
	vhAssert(fc.closed, "connection-closed-after-a-response-was-abandoned-mid-body")
	got, err2 := c.ReadLastOffset()
	vhAssert(err2 != nil, "next-call-on-the-abandoned-connection-fails")
	if err2 == nil {
		vhAssert(got == next, "next-call-never-gets-another-calls-bytes")
	}
	vhReach("c06-stalled-body")
}

// vhPerms3 lists the orders in which the broker may answer up to three requests.
var vhPerms3 = [][]int{{0, 1, 2}, {0, 2, 1}, {1, 0, 2}, {1, 2, 0}, {2, 0, 1}, {2, 1, 0}}

// H6 (level S with lock hand-off, see vhHandoff): n goroutines share one Conn. Every request is in flight before
// the broker answers; the broker answers in an arbitrary order (mode 0), or answers only the last request of its
// order and then drops the connection (mode 1). The request each goroutine sent is identified on the wire by the
// timestamp it asks for, its correlation id is read back from the bytes written, and the response to that id carries
// the goroutine's own (symbolic) offset: a goroutine that returns without error must return exactly that offset.
func VH_C06_ConcurrentConn(n, mode int) {
	vhConcreteClock(true)
	vhHandoff(true)
	fc := &vhFakeConn{gate: make(chan struct{})}
	c := NewConnWith(fc, ConnConfig{Topic: "t", Partition: 0, ClientID: "vh"})
	// the same scenario serves C10: declared guards and the lockset analysis over every field of the Conn, with
	// real interleavings of the callers
	vhGuardConn(c)
	vhWatch(c)
	vhGuardCheck(true)
	want := make([]int64, n)
	got := make([]int64, n)
	errs := make([]error, n)
	done := make([]bool, n)
	for i := 0; i < n; i++ {
		want[i] = vhInt64("offset_of_call_" + string(rune('A'+i)))
	}
	for i := 0; i < n; i++ {
		i := i
		go func() {
			got[i], errs[i] = c.readOffset(int64(1000 + i))
			done[i] = true
		}()
	}
	for k := 0; k < n+2; k++ {
		vhRunAll()
	}
	// the requests on the wire, in the order they were written: correlation id -> calling goroutine
	owner := map[int32]int{}
	ids := make([]int32, n)
	wr := fc.written
	count := 0
	for len(wr) >= 4 {
		sz := int(int32(uint32(wr[0])<<24 | uint32(wr[1])<<16 | uint32(wr[2])<<8 | uint32(wr[3])))
		vhAssert(sz >= 16 && len(wr) >= 4+sz, "request-frames-are-whole")
		fr := wr[4 : 4+sz]
		id := int32(uint32(fr[4])<<24 | uint32(fr[5])<<16 | uint32(fr[6])<<8 | uint32(fr[7]))
		ts := fr[len(fr)-8:]
		who := int(int64(uint64(ts[4])<<24|uint64(ts[5])<<16|uint64(ts[6])<<8|uint64(ts[7]))) - 1000
		vhAssert(who >= 0 && who < n, "request-names-its-caller")
		_, dup := owner[id]
		vhAssert(!dup, "correlation-ids-are-distinct-among-in-flight-requests")
		owner[id] = who
		ids[who] = id
		wr = wr[4+sz:]
		count++
	}
	vhAssert(count == n && len(wr) == 0, "every-request-is-in-flight-before-the-broker-answers")
	for i := 0; i < n; i++ {
		vhAssert(!done[i], "calls-wait-for-their-responses")
	}
	perms := [][]int{{0, 1}, {1, 0}}
	if n == 3 {
		perms = vhPerms3
	}
	perm := perms[vhChoose("answer_order", len(perms))]
	var data []byte
	answered := make([]bool, n)
	for k, who := range perm[:n] {
		if mode == 1 && k != n-1 {
			continue // mode 1: only the request answered last gets its answer, then the connection ends
		}
		data = append(data, vhListOffsetsFrame(ids[who], "t", 0, 0, int64(1000+who), want[who])...)
		answered[who] = true
	}
	fc.data = data
	fc.release()
	for k := 0; k < 3*n+3; k++ {
		vhRunAll()
	}
	for i := 0; i < n; i++ {
		vhAssert(done[i], "every-call-returns")
		vhAssert(errs[i] != nil || got[i] == want[i], "a-call-returns-the-answer-to-its-own-request-or-an-error")
		if answered[i] && mode == 0 {
			vhAssert(errs[i] == nil, "answered-call-succeeds")
		}
		if !answered[i] {
			vhAssert(errs[i] != nil, "unanswered-call-fails")
		}
	}
	if mode == 0 {
		vhAssert(!fc.closed, "connection-kept-after-complete-exchanges")
		vhAssert(c.concurrency() == 0, "no-call-left-in-flight")
	}
	vhReach("c06-concurrent-conn")
}

// H7 (level S): two RoundTrips run concurrently on one pool. Each gets a connection of its own; the broker answers the
// second call first. Each call must return the answer written on its own connection. A third call then reuses an
// idle connection and must get the answer to its own request (correlation id read back from the bytes it wrote).
func VH_C06_TransportConcurrent(order int) {
	vhConcreteClock(true)
	dials := 0
	nodeA, nodeB, nodeC := vhInt32("answer_for_A"), vhInt32("answer_for_B"), vhInt32("answer_for_C")
	coord := func(corr int32, node int32) []byte {
		w := &vhW{}
		w.i16(0)
		w.i32(node)
		w.str("h")
		w.i32(9092)
		return vhFrameOf(corr, w.b)
	}
	mkConn := func(node int32) *vhFakeConn {
		f1 := vhApiVersionsFrame(1, []vhApiRange{{10, 0, 0}, {3, 0, 1}})
		c := &vhFakeConn{data: append(append([]byte{}, f1...), coord(2, node)...)}
		c.gate, c.gateAfter = make(chan struct{}), len(f1)
		return c
	}
	conns := []*vhFakeConn{mkConn(nodeA), mkConn(nodeB)}
	ready := make(event)
	close(ready)
	p := &connPool{
		dial: func(ctx context.Context, network, address string) (net.Conn, error) {
			c := conns[dials]
			dials++
			return c, nil
		},
		dialTimeout: time.Second, idleTimeout: time.Minute, clientID: "vh",
		ready: ready, wake: make(chan event), conns: make(map[int32]*connGroup),
	}
	p.ctrl = p.newConnGroup(&networkAddress{network: "tcp", address: "bootstrap:9092"})
	p.setState(connPoolState{})
	// serves C10 as well: the pool and its control group under concurrent calls (lockset analysis)
	vhWatch(p)
	vhWatch(p.ctrl)
	vhGuarded(p.ctrl, "idleConns", &p.ctrl.mutex)
	vhGuarded(p.ctrl, "closed", &p.ctrl.mutex)
	vhGuardCheck(true)
	ctx := context.Background()
	var res [3]Response
	var errs [3]error
	var done [3]bool
	call := func(i int, key string) {
		res[i], errs[i] = p.roundTrip(ctx, &pfindcoordinator.Request{Key: key})
		done[i] = true
	}
	go call(0, "A")
	vhSettle()
	go call(1, "B")
	vhSettle()
	vhAssert(dials == 2, "each-concurrent-call-has-a-connection-of-its-own")
	if dials != 2 {
		return
	}
	vhAssert(len(conns[0].written) > 0 && len(conns[1].written) > 0, "both-requests-are-in-flight")
	vhAssert(!done[0] && !done[1], "calls-wait-for-their-responses")
	first, second := 1, 0
	if order == 1 {
		first, second = 0, 1
	}
	conns[first].release()
	vhSettle()
	vhAssert(done[first] && !done[second], "an-answer-completes-only-the-call-on-its-connection")
	conns[second].release()
	vhSettle()
	want := []int32{nodeA, nodeB}
	for i := 0; i < 2; i++ {
		vhAssert(done[i] && errs[i] == nil, "concurrent-call-succeeds")
		if done[i] && errs[i] == nil {
			vhAssert(res[i].(*pfindcoordinator.Response).NodeID == want[i], "concurrent-call-gets-the-answer-from-its-own-connection")
		}
	}
	// third call: reuses an idle connection; the broker answers the request it finds on that connection
	w0, w1 := len(conns[0].written), len(conns[1].written)
	for _, fc := range conns {
		// the next answer on either connection is again still on its way
		fc.gate, fc.gateOpen, fc.gateAfter = make(chan struct{}), false, len(fc.data)
	}
	go call(2, "C")
	vhSettle()
	vhAssert(dials == 2, "an-idle-connection-is-reused")
	used := -1
	if len(conns[0].written) > w0 {
		used = 0
	}
	if len(conns[1].written) > w1 {
		vhAssert(used < 0, "request-C-written-once")
		used = 1
	}
	vhAssert(used >= 0, "request-C-written-to-a-pooled-connection")
	if used < 0 {
		return
	}
	reqC := conns[used].written
	if used == 0 {
		reqC = reqC[w0:]
	} else {
		reqC = reqC[w1:]
	}
	vhAssert(len(reqC) >= 12, "request-C-has-a-header")
	corrC := int32(uint32(reqC[8])<<24 | uint32(reqC[9])<<16 | uint32(reqC[10])<<8 | uint32(reqC[11]))
	vhAssert(corrC != 2, "correlation-ids-are-not-reused-on-a-connection")
	conns[used].data = append(conns[used].data, coord(corrC, nodeC)...)
	conns[used].release()
	vhSettle()
	vhAssert(done[2] && errs[2] == nil, "call-on-a-reused-connection-succeeds")
	if done[2] && errs[2] == nil {
		vhAssert(res[2].(*pfindcoordinator.Response).NodeID == nodeC, "call-on-a-reused-connection-gets-its-own-answer")
	}
	vhReach("c06-transport-concurrent")
}

// H8: a Batch holds the read lock until Close and must consume exactly its own fetch response: the response ends
// with a v2 batch whose last record was cut by the broker at the byte limit, at any byte of that record (the
// message-set size announces what is there); the records are read with Batch.Read into a large buffer; the response
// to the next call is pipelined right behind. Nothing of the next response ends up in the caller's buffer, the
// Batch consumes its own frame exactly, and the next call gets its own answer.
func VH_C06_TruncatedTailThenNext(version int) {
	vhConcreteClock(true)
	want := vhInt64("last_offset")
	k0, v0 := vhBytes("key", 1), vhBytes("value", 2)
	k1, v1 := vhBytes("key1", 1), vhBytes("value1", 4)
	recs := []vhRec{{offsetDelta: 0, key: k0, value: v0}, {offsetDelta: 1, key: k1, value: v1}}
	full := vhEncBatchV2(0, 0, 1, 1600000000000, 1600000000000, 2, recs)
	first := vhEncBatchV2(0, 0, 0, 1600000000000, 1600000000000, 1, recs[:1])
	// bytes of the second record that arrive: everything of the batch up to the end of the first record, then
	// `keep` bytes of the second one (0 <= keep < its length)
	recLen := len(full) - len(first)
	keep := vhChoose("bytes_of_the_last_record_delivered", recLen)
	wire := full[:len(first)+keep]
	f1 := vhApiVersionsFrame(1, []vhApiRange{{int16(fetch), 0, int16(version)}, {int16(listOffsets), 0, 1}})
	f2 := vhFetchResponse(2, version, 0, "t", 0, 0, 10, wire)
	f3 := vhListOffsetsFrame(3, "t", 0, 0, -1, want)
	fc := &vhFakeConn{data: append(append(append([]byte{}, f1...), f2...), f3...)}
	c := NewConnWith(fc, ConnConfig{Topic: "t", Partition: 0, ClientID: "vh"})
	c.Seek(0, SeekAbsolute|SeekDontCheck)
	b := c.ReadBatchWith(ReadBatchConfig{MinBytes: 1, MaxBytes: 1000})
	buf := make([]byte, 64)
	n, err := b.Read(buf)
	vhAssert(err == nil && n == 2 && vhBytesEq(buf[:2], v0), "complete-record-is-delivered")
	n2, err2 := b.Read(buf)
	vhAssert(err2 != nil, "truncated-record-is-not-delivered")
	if err2 == nil {
		vhAssert(n2 <= 4 && vhBytesEq(buf[:n2], v1[:n2]), "a-record-that-is-delivered-is-the-stored-one")
	}
	b.Close()
	vhAssert(fc.off-c.rbuf.Buffered() == len(f1)+len(f2), "batch-consumed-exactly-its-own-response")
	off, lerr := c.ReadLastOffset()
	vhAssert(lerr == nil && off == want, "next-call-gets-its-own-response")
	vhReach("c06-truncated-tail-then-next")
}
