package kafka

import "hash/crc32"

// Independent reference partitioners (transcribed from the reference clients, not from balancer.go).

// Java client: org.apache.kafka.common.utils.Utils.murmur2 (32-bit int arithmetic, >>> = logical shift).
func vrefMurmur2Java(data []byte) uint32 {
	length := len(data)
	var seed uint32 = 0x9747b28c
	const m uint32 = 0x5bd1e995
	h := seed ^ uint32(length)
	for i := 0; i < length/4; i++ {
		i4 := i * 4
		k := uint32(data[i4]) | uint32(data[i4+1])<<8 | uint32(data[i4+2])<<16 | uint32(data[i4+3])<<24
		k *= m
		k ^= k >> 24
		k *= m
		h *= m
		h ^= k
	}
	base := length &^ 3
	switch length % 4 {
	case 3:
		h ^= uint32(data[base+2]) << 16
		fallthrough
	case 2:
		h ^= uint32(data[base+1]) << 8
		fallthrough
	case 1:
		h ^= uint32(data[base])
		h *= m
	}
	h ^= h >> 13
	h *= m
	h ^= h >> 15
	return h
}

// Java DefaultPartitioner: Utils.toPositive(Utils.murmur2(keyBytes)) % numPartitions.
func vrefJavaPartition(key []byte, n int) int {
	return int((vrefMurmur2Java(key) & 0x7fffffff) % uint32(n))
}

// FNV-1a 32 (the hash Sarama uses).
func vrefFNV1a(key []byte) uint32 {
	h := uint32(2166136261)
	for _, c := range key {
		h ^= uint32(c)
		h *= 16777619
	}
	return h
}

// Sarama hashPartitioner.Partition.
func vrefSaramaHash(key []byte, n int) int {
	p := int32(vrefFNV1a(key)) % int32(n)
	if p < 0 {
		p = -p
	}
	return int(p)
}

// Sarama NewReferenceHashPartitioner.
func vrefSaramaReferenceHash(key []byte, n int) int {
	return int((int32(vrefFNV1a(key)) & 0x7fffffff) % int32(n))
}

// librdkafka rd_kafka_msg_partitioner_consistent: rd_crc32(key, keylen) % partition_cnt.
func vrefRdkafkaConsistent(key []byte, n int) int {
	return int(crc32.ChecksumIEEE(key) % uint32(n))
}
