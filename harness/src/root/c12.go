package kafka

import (
	"context"
	"net"
	"time"

	pcreatetopics "github.com/segmentio/kafka-go/protocol/createtopics"
	pfetch "github.com/segmentio/kafka-go/protocol/fetch"
	meta "github.com/segmentio/kafka-go/protocol/metadata"
	pendtxn "github.com/segmentio/kafka-go/protocol/endtxn"
	"github.com/segmentio/kafka-go/protocol"
	pfindcoordinator "github.com/segmentio/kafka-go/protocol/findcoordinator"
	plistoffsets "github.com/segmentio/kafka-go/protocol/listoffsets"
	pproduce "github.com/segmentio/kafka-go/protocol/produce"
	psyncgroup "github.com/segmentio/kafka-go/protocol/syncgroup"
)

// C12-H2: routing. A connPool is brought to a state by update() from a symbolic metadata response (B brokers with
// distinct symbolic ids, one topic "t" with P partitions led by symbolic brokers, symbolic controller). Every
// broker's connection group and the control group get one idle connection with a buffered request channel, so
// sendRequest is plain sequential code; the channel the request lands in tells where it was routed.

type vhPool struct {
	p       *connPool
	chans   map[int32]chan connRequest // broker id -> channel of its group's idle connection
	ctrl    chan connRequest
	ids     []int32
	leaders []int32
	ctrlID  int32
}

func vhNewPool(B, P int) *vhPool {
	vhConcreteClock(true) // routing does not depend on the time of day (symbolic time arithmetic is a solver sink)
	ids := make([]int32, B)
	md := &meta.Response{}
	for i := range ids {
		ids[i] = vhInt32("broker_id")
		vhAssume(ids[i] >= 0)
		for j := 0; j < i; j++ {
			vhAssume(ids[i] != ids[j])
		}
		md.Brokers = append(md.Brokers, meta.ResponseBroker{NodeID: ids[i], Host: "h", Port: 9092 + int32(i)})
	}
	ctrlIdx := vhChoose("controller", B)
	md.ControllerID = ids[ctrlIdx]
	leaders := make([]int32, P)
	t := meta.ResponseTopic{Name: "t"}
	for k := P - 1; k >= 0; k-- { // listed in descending order: update() sorts them
		li := vhChoose("leader", B)
		leaders[k] = ids[li]
		t.Partitions = append(t.Partitions, meta.ResponsePartition{PartitionIndex: int32(k), LeaderID: ids[li]})
	}
	md.Topics = []meta.ResponseTopic{t}
	p := &connPool{ready: make(event), wake: make(chan event), conns: make(map[int32]*connGroup)}
	p.ctrl = p.newConnGroup(&networkAddress{network: "tcp", address: "bootstrap:9092"})
	p.update(context.Background(), md, nil)
	vp := &vhPool{p: p, chans: map[int32]chan connRequest{}, ids: ids, leaders: leaders, ctrlID: ids[ctrlIdx]}
	for _, id := range ids {
		ch := make(chan connRequest, 4)
		g := p.conns[id]
		vhAssert(g != nil, "update-creates-a-group-per-broker")
		g.idleConns = []*conn{{reqs: ch, group: g, network: "tcp", address: "x"}}
		vp.chans[id] = ch
	}
	vp.ctrl = make(chan connRequest, 4)
	p.ctrl.idleConns = []*conn{{reqs: vp.ctrl, group: p.ctrl, network: "tcp", address: "bootstrap:9092"}}
	return vp
}

// vhLanded: the request was queued on exactly the channel of broker `want` (or the control channel if want < 0).
func (vp *vhPool) landed(want int32, req Request, what string) {
	for _, id := range vp.ids {
		n := len(vp.chans[id])
		if id == want {
			vhAssert(n == 1, what+"-sent-to-the-designated-broker")
			if n == 1 {
				r := <-vp.chans[id]
				vhAssert(r.req == req, what+"-request-identity")
			}
		} else {
			vhAssert(n == 0, what+"-not-sent-to-another-broker")
		}
	}
	if want < 0 {
		vhAssert(len(vp.ctrl) == 1, what+"-sent-on-the-control-connection")
	} else {
		vhAssert(len(vp.ctrl) == 0, what+"-not-sent-on-the-control-connection")
	}
}

func VH_C12_Routing(kind, B, P int) {
	vp := vhNewPool(B, P)
	state := vp.p.grabState()
	part := vhChoose("partition", P)
	ctx := context.Background()
	switch kind {
	case 0: // produce -> partition leader
		req := &pproduce.Request{Topics: []pproduce.RequestTopic{{Topic: "t", Partitions: []pproduce.RequestPartition{{Partition: int32(part)}}}}}
		vp.p.sendRequest(ctx, req, state)
		vp.landed(vp.leaders[part], req, "produce")
	case 1: // fetch -> partition leader
		req := &pfetch.Request{Topics: []pfetch.RequestTopic{{Topic: "t", Partitions: []pfetch.RequestPartition{{Partition: int32(part)}}}}}
		vp.p.sendRequest(ctx, req, state)
		vp.landed(vp.leaders[part], req, "fetch")
	case 2: // create topics -> controller
		req := &pcreatetopics.Request{}
		vp.p.sendRequest(ctx, req, state)
		vp.landed(vp.ctrlID, req, "createtopics")
	case 3: // metadata -> any broker: the control connection
		req := &meta.Request{}
		vp.p.sendRequest(ctx, req, state)
		vp.landed(-1, req, "metadata")
	case 4: // unknown topic / partition: documented error, nothing sent
		req := &pproduce.Request{Topics: []pproduce.RequestTopic{{Topic: "nope", Partitions: []pproduce.RequestPartition{{Partition: 0}}}}}
		pr := vp.p.sendRequest(ctx, req, state)
		_, err := pr.await(ctx)
		vhAssert(err != nil, "unknown-topic-is-an-error")
		req2 := &pproduce.Request{Topics: []pproduce.RequestTopic{{Topic: "t", Partitions: []pproduce.RequestPartition{{Partition: int32(P)}}}}}
		pr2 := vp.p.sendRequest(ctx, req2, state)
		_, err2 := pr2.await(ctx)
		vhAssert(err2 != nil, "unknown-partition-is-an-error")
		for _, id := range vp.ids {
			vhAssert(len(vp.chans[id]) == 0, "nothing-sent-for-unroutable-request")
		}
		vhAssert(len(vp.ctrl) == 0, "nothing-sent-for-unroutable-request")
	case 7, 8: // fetch / produce naming two partitions: sent to their common leader, refused when the leaders differ
		part2 := vhChoose("second_partition", P)
		var req Request
		if kind == 7 {
			req = &pfetch.Request{Topics: []pfetch.RequestTopic{{Topic: "t", Partitions: []pfetch.RequestPartition{{Partition: int32(part)}, {Partition: int32(part2)}}}}}
		} else {
			req = &pproduce.Request{Topics: []pproduce.RequestTopic{{Topic: "t", Partitions: []pproduce.RequestPartition{{Partition: int32(part)}}}, {Topic: "t", Partitions: []pproduce.RequestPartition{{Partition: int32(part2)}}}}}
		}
		pr := vp.p.sendRequest(ctx, req, state)
		if vp.leaders[part] == vp.leaders[part2] {
			vp.landed(vp.leaders[part], req, "two-partition-request")
		} else {
			sent := len(vp.ctrl)
			for _, id := range vp.ids {
				sent += len(vp.chans[id])
			}
			vhAssert(sent == 0, "nothing-sent-for-a-request-spanning-two-leaders")
			if sent == 0 {
				_, err := pr.await(ctx)
				vhAssert(err != nil, "request-spanning-two-leaders-is-refused")
			}
		}
	case 9: // list offsets for one partition -> its leader
		req := &plistoffsets.Request{ReplicaID: -1, Topics: []plistoffsets.RequestTopic{{Topic: "t", Partitions: []plistoffsets.RequestPartition{{Partition: int32(part), Timestamp: -1}}}}}
		vp.p.sendRequest(ctx, req, state)
		vp.landed(vp.leaders[part], req, "listoffsets")
	case 5, 6: // group / transaction coordinator: looked up with FindCoordinator (right key and key type) on the
		// control connection, then the request goes to the coordinator's broker
		coord := vp.ids[vhChoose("coordinator", B)]
		var lookup *pfindcoordinator.Request
		go func() {
			r := <-vp.ctrl
			lookup, _ = r.req.(*pfindcoordinator.Request)
			r.res.resolve(&pfindcoordinator.Response{NodeID: coord})
		}()
		var req Request
		if kind == 5 {
			req = &psyncgroup.Request{GroupID: "the-group"}
		} else {
			req = &pendtxn.Request{TransactionalID: "the-transaction"}
		}
		vp.p.sendRequest(ctx, req, state)
		vhAssert(lookup != nil, "coordinator-looked-up-with-FindCoordinator-on-the-control-connection")
		if lookup != nil {
			if kind == 5 {
				vhAssert(lookup.Key == "the-group" && lookup.KeyType == int8(CoordinatorKeyTypeConsumer), "group-coordinator-lookup-key-and-type")
			} else {
				vhAssert(lookup.Key == "the-transaction" && lookup.KeyType == int8(CoordinatorKeyTypeTransaction), "transaction-coordinator-lookup-key-and-type")
			}
		}
		vp.landed(coord, req, "coordinator-request")
	}
	vhReach("c12-routing")
}

// leader move: after update() with new metadata the next request follows the new leader
func VH_C12_LeaderMove(B int) {
	vp := vhNewPool(B, 1)
	newLeader := vp.ids[vhChoose("new_leader", B)]
	md := &meta.Response{ControllerID: vp.ctrlID}
	for i, id := range vp.ids {
		md.Brokers = append(md.Brokers, meta.ResponseBroker{NodeID: id, Host: "h", Port: 9092 + int32(i)})
	}
	md.Topics = []meta.ResponseTopic{{Name: "t", Partitions: []meta.ResponsePartition{{PartitionIndex: 0, LeaderID: newLeader}}}}
	vp.p.update(context.Background(), md, nil)
	req := &pproduce.Request{Topics: []pproduce.RequestTopic{{Topic: "t", Partitions: []pproduce.RequestPartition{{Partition: 0}}}}}
	vp.p.sendRequest(context.Background(), req, vp.p.grabState())
	vp.landed(newLeader, req, "after-leader-move")
	vhReach("c12-leader-move")
}

// C12-H3: topic-filtered metadata served from the cache equals what the brokers answered at the last refresh.
func VH_C12_MetadataCache(N, Q int) {
	md := &meta.Response{}
	names := make([]string, N)
	codes := make([]int16, N)
	for i := 0; i < N; i++ {
		names[i] = vhString("topic", 1)
		for j := 0; j < i; j++ {
			vhAssume(names[i] != names[j])
		}
		codes[i] = vhInt16("topic_error")
		md.Topics = append(md.Topics, meta.ResponseTopic{Name: names[i], ErrorCode: codes[i], Partitions: []meta.ResponsePartition{{PartitionIndex: int32(i)}}})
	}
	p := &connPool{ready: make(event), wake: make(chan event), conns: make(map[int32]*connGroup)}
	p.ctrl = p.newConnGroup(&networkAddress{network: "tcp", address: "bootstrap:9092"})
	p.update(context.Background(), md, nil)
	q := make([]string, Q)
	for i := range q {
		q[i] = vhString("query", 1)
	}
	r, err := p.roundTrip(context.Background(), &meta.Request{TopicNames: q})
	vhAssert(err == nil, "cached-metadata-served")
	res := r.(*meta.Response)
	vhAssert(len(res.Topics) == Q, "one-entry-per-requested-topic")
	for i := range q {
		got := res.Topics[i]
		vhAssert(got.Name == q[i], "entry-carries-the-requested-name")
		known := false
		for j := range names {
			if q[i] == names[j] {
				known = true
				vhAssert(vhAll(got.ErrorCode == codes[j], len(got.Partitions) == 1, got.Partitions[0].PartitionIndex == int32(j)), "entry-is-the-brokers-answer")
			}
		}
		if !known {
			vhAssert(got.ErrorCode == int16(UnknownTopicOrPartition), "unknown-topic-reported")
		}
	}
	vhReach("c12-metadata-cache")
}


// broker endpoint change: after update() with metadata in which a broker id moved to another host or port,
// requests for that broker go to a connection group for the new endpoint (the old group's idle connections are
// closed, its queued channel is no longer used).
func VH_C12_BrokerEndpointMove(what int) {
	vp := vhNewPool(2, 1)
	moved := vp.ids[vhChoose("moved_broker", 2)]
	md := &meta.Response{ControllerID: vp.ctrlID}
	for i, id := range vp.ids {
		b := meta.ResponseBroker{NodeID: id, Host: "h", Port: 9092 + int32(i)}
		if id == moved {
			switch what {
			case 0:
				b.Port = 7000
			case 1:
				b.Host = "other"
			case 2:
				b.Rack = "r2"
			}
		}
		md.Brokers = append(md.Brokers, b)
	}
	md.Topics = []meta.ResponseTopic{{Name: "t", Partitions: []meta.ResponsePartition{{PartitionIndex: 0, LeaderID: moved}}}}
	old := vp.p.conns[moved]
	vp.p.update(context.Background(), md, nil)
	g := vp.p.conns[moved]
	vhAssert(g != nil, "moved-broker-still-has-a-group")
	want := "h:7000"
	if what == 1 {
		want = "other:" + vhItoa(vhPortOf(vp, moved))
	}
	if what != 2 {
		vhAssert(g.addr.String() == want, "group-dials-the-new-endpoint")
		vhAssert(g != old, "group-replaced-when-the-endpoint-changes")
		vhAssert(old.closed, "old-group-closed")
	}
	vhReach("c12-endpoint-move")
}

func vhPortOf(vp *vhPool, id int32) int {
	for i, x := range vp.ids {
		if x == id {
			return 9092 + i
		}
	}
	return 0
}

func vhItoa(n int) string {
	if n == 0 {
		return "0"
	}
	var b []byte
	for n > 0 {
		b = append([]byte{byte('0' + n%10)}, b...)
		n /= 10
	}
	return string(b)
}

// Versions are negotiated per connection: two brokers advertise different maxima for Fetch (symbolic, one possibly
// above what the client implements); a fetch for a partition led by each of them is written at
// min(client max, that broker's max). The brokers answer the version negotiation and then close the connection:
// the version is read from the request bytes the client wrote.
func VH_C12_VersionPerBroker() {
	vhConcreteClock(true)
	max1, max2, max1b := vhInt16("broker1_fetch_max"), vhInt16("broker2_fetch_max"), vhInt16("broker1_fetch_max_after_restart")
	vhAssume(vhAll(max1 >= 0, max1 <= 20, max2 >= 0, max2 <= 20, max1b >= 0, max1b <= 20))
	mk := func(max int16) *vhFakeConn {
		return &vhFakeConn{data: vhApiVersionsFrame(1, []vhApiRange{{int16(fetch), 0, max}, {int16(metadata), 0, 8}})}
	}
	// broker 1 is dialed twice: its first connection dies after one exchange, the broker comes back (restarted in
	// place) advertising another range
	conns := map[string][]*vhFakeConn{"h1:9092": {mk(max1), mk(max1b)}, "h2:9093": {mk(max2)}}
	used := map[string]int{}
	ready := make(event)
	p := &connPool{
		dial: func(ctx context.Context, network, address string) (net.Conn, error) {
			k := used[address]
			if k >= len(conns[address]) {
				return nil, vhErrCoordinator
			}
			used[address] = k + 1
			return conns[address][k], nil
		},
		dialTimeout: time.Second, idleTimeout: time.Minute, clientID: "vh",
		ready: ready, wake: make(chan event), conns: make(map[int32]*connGroup),
	}
	p.ctrl = p.newConnGroup(&networkAddress{network: "tcp", address: "bootstrap:9092"})
	md := &meta.Response{ControllerID: 1,
		Brokers: []meta.ResponseBroker{{NodeID: 1, Host: "h1", Port: 9092}, {NodeID: 2, Host: "h2", Port: 9093}},
		Topics: []meta.ResponseTopic{{Name: "t", Partitions: []meta.ResponsePartition{{PartitionIndex: 0, LeaderID: 1}, {PartitionIndex: 1, LeaderID: 2}}}}}
	p.update(context.Background(), md, nil)
	clientMax := int16(11) // protocol/fetch implements v0..v11 at the pinned commit
	steps := []struct {
		part int
		addr string
		nth  int
		adv  int16
	}{{0, "h1:9092", 0, max1}, {1, "h2:9093", 0, max2}, {0, "h1:9092", 1, max1b}}
	for _, st := range steps {
		req := &pfetch.Request{Topics: []pfetch.RequestTopic{{Topic: "t", Partitions: []pfetch.RequestPartition{{Partition: int32(st.part)}}}}}
		done := false
		go func() {
			p.roundTrip(context.Background(), req)
			done = true
		}()
		vhRunAll()
		vhRunAll()
		vhRunAll()
		vhAssert(done, "round-trip-returns")
		vhAssert(used[st.addr] == st.nth+1, "request-goes-to-the-partition-leader-over-a-fresh-connection")
		if used[st.addr] != st.nth+1 {
			continue
		}
		w := conns[st.addr][st.nth].written
		// first frame: the ApiVersions request (every connection negotiates); second frame: the fetch request
		vhAssert(len(w) > 8 && int16(uint16(w[4])<<8|uint16(w[5])) == int16(apiVersions), "every-connection-starts-with-ApiVersions")
		first := 4 + int(vhBE32(w))
		vhAssert(len(w) >= first+8, "fetch-request-written-to-the-partition-leader")
		if len(w) >= first+8 {
			key := int16(uint16(w[first+4])<<8 | uint16(w[first+5]))
			ver := int16(uint16(w[first+6])<<8 | uint16(w[first+7]))
			want := st.adv
			if clientMax < want {
				want = clientMax
			}
			vhAssert(key == int16(fetch), "second-request-is-the-fetch")
			vhAssert(ver == want, "request-version-is-min-of-client-max-and-this-connections-advertised-max")
		}
	}
	vhReach("c12-version-per-broker")
}

// ListOffsets fan-out routing: Request.Split against the cached cluster layout and Broker() of each sub-request.
// Every partition carried by a sub-request is led by the broker the sub-request is routed to; partitions the layout
// does not know are routed to "any broker" (-1) on their own, never together with a known partition.
func VH_C12_ListOffsetsRouting() {
	// brokers 0, 1, 2 (an id of 0 is legal); topic "t" with three partitions led by symbolic brokers
	cluster := protocol.Cluster{Brokers: map[int32]protocol.Broker{}, Topics: map[string]protocol.Topic{}}
	for id := int32(0); id < 3; id++ {
		cluster.Brokers[id] = protocol.Broker{ID: id, Host: "h", Port: 9092 + id}
	}
	leaders := make([]int32, 3)
	topic := protocol.Topic{Name: "t", Partitions: map[int32]protocol.Partition{}}
	for p := 0; p < 3; p++ {
		leaders[p] = int32(vhChoose("leader", 3))
		topic.Partitions[int32(p)] = protocol.Partition{ID: int32(p), Leader: leaders[p]}
	}
	cluster.Topics["t"] = topic
	// the request lists an unknown topic, an unknown partition of "t" and the known partitions, in a chosen order
	entries := []struct {
		topic string
		part  int32
	}{{"unknown", 0}, {"t", 7}, {"t", 0}, {"t", 1}, {"t", 2}}
	firstIdx := vhChoose("first_entry", len(entries))
	entries[0], entries[firstIdx] = entries[firstIdx], entries[0]
	req := &plistoffsets.Request{ReplicaID: -1}
	for _, e := range entries {
		req.Topics = append(req.Topics, plistoffsets.RequestTopic{Topic: e.topic, Partitions: []plistoffsets.RequestPartition{{Partition: e.part, Timestamp: -1}}})
	}
	msgs, _, err := req.Split(cluster)
	vhAssert(err == nil, "split-ok")
	covered := 0
	for _, m := range msgs {
		sub := m.(*plistoffsets.Request)
		b, berr := sub.Broker(cluster)
		vhAssert(berr == nil, "sub-request-routable")
		for _, t := range sub.Topics {
			for _, p := range t.Partitions {
				covered++
				known := t.Topic == "t" && p.Partition >= 0 && p.Partition < 3
				if known {
					vhAssert(b.ID == leaders[p.Partition], "known-partition-is-sent-to-its-leader")
				} else {
					vhAssert(b.ID == -1, "unknown-partition-is-sent-to-any-broker")
				}
			}
		}
	}
	vhAssert(covered == len(entries), "every-requested-partition-is-in-exactly-one-sub-request")
	vhReach("c12-listoffsets-routing")
}

// C12-H7: CreateTopics forces a metadata refresh and waits until every topic the controller reports as created is in
// the cached layout (so that the next request for it can be routed), without waiting for topics that failed. The
// harness plays the pool's discover loop: it receives the refresh requests on p.wake; the first refresh does not
// list the new topics yet (propagation delay), the second does.
func VH_C12_CreateTopicsRefresh(n int) {
	vp := vhNewPool(2, 1)
	names := []string{"new-a", "new-b", "new-c"}[:n]
	codes := make([]int16, n)
	anyOK := false
	for i := range codes {
		if vhBool("created_" + names[i]) {
			anyOK = true
		} else {
			codes[i] = int16(TopicAlreadyExists)
		}
	}
	ctx := context.Background()
	req := &pcreatetopics.Request{}
	for _, nm := range names {
		req.Topics = append(req.Topics, pcreatetopics.RequestTopic{Name: nm, NumPartitions: 1, ReplicationFactor: 1})
	}
	done := false
	var rerr error
	go func() {
		_, rerr = vp.p.roundTrip(ctx, req)
		done = true
	}()
	vhRunAll()
	ch := vp.chans[vp.ctrlID]
	vhAssert(len(ch) == 1, "createtopics-sent-to-the-controller")
	if len(ch) != 1 {
		return
	}
	r := <-ch
	res := &pcreatetopics.Response{}
	for i, nm := range names {
		res.Topics = append(res.Topics, pcreatetopics.ResponseTopic{Name: nm, ErrorCode: codes[i]})
	}
	r.res.resolve(res)
	vhRunAll()
	vhAssert(!done, "create-topics-forces-a-metadata-refresh")
	if done {
		return
	}
	// first refresh: the cluster does not list the new topics yet
	select {
	case notify := <-vp.p.wake:
		notify.trigger()
	default:
		vhFail("create-topics-asks-the-discover-loop-for-a-refresh")
	}
	vhRunAll()
	if !anyOK {
		vhAssert(done && rerr == nil, "topics-that-failed-to-create-are-not-waited-for")
		vhReach("c12-createtopics-none-created")
		return
	}
	vhAssert(!done, "create-topics-waits-until-every-created-topic-is-in-the-cached-layout")
	if done {
		return
	}
	for i := 0; i < 3; i++ {
		time.Sleep(3 * time.Second) // the back-off between refresh attempts passes
	}
	md := &meta.Response{ControllerID: vp.ctrlID}
	for i, id := range vp.ids {
		md.Brokers = append(md.Brokers, meta.ResponseBroker{NodeID: id, Host: "h", Port: 9092 + int32(i)})
	}
	md.Topics = []meta.ResponseTopic{{Name: "t", Partitions: []meta.ResponsePartition{{PartitionIndex: 0, LeaderID: vp.leaders[0]}}}}
	for i, nm := range names {
		if codes[i] == 0 {
			md.Topics = append(md.Topics, meta.ResponseTopic{Name: nm, Partitions: []meta.ResponsePartition{{PartitionIndex: 0, LeaderID: vp.ids[0]}}})
		}
	}
	select {
	case notify := <-vp.p.wake:
		vp.p.update(ctx, md, nil)
		notify.trigger()
	default:
		vhFail("create-topics-keeps-refreshing-until-the-created-topics-are-listed")
	}
	vhRunAll()
	vhAssert(done && rerr == nil, "create-topics-returns-once-the-created-topics-are-listed")
	layout := vp.p.grabState().layout
	for i, nm := range names {
		_, ok := layout.Topics[nm]
		vhAssert(ok == (codes[i] == 0), "cached-layout-lists-exactly-the-created-topics")
	}
	vhReach("c12-createtopics-refresh")
}

// C12-H8: the pool's background refresh (connPool.discover) survives a metadata request that is not answered within
// MetadataTTL: the cached layout is kept, the loop goes on, and the next refresh (a leadership move) is applied so
// that the next request is routed to the new leader. The harness plays the control connection.
func VH_C12_DiscoverSurvivesTimeout() {
	vp := vhNewPool(2, 1)
	p := vp.p
	p.metadataTTL = 2 * time.Second
	ctx, cancel := context.WithCancel(context.Background())
	go p.discover(ctx, p.wake)
	vhSettle()
	vhAssert(len(vp.ctrl) == 1, "refresh-request-sent-on-the-control-connection")
	if len(vp.ctrl) != 1 {
		cancel()
		return
	}
	<-vp.ctrl // the broker never answers this one
	// an idle control connection for the next round
	p.ctrl.idleConns = []*conn{{reqs: vp.ctrl, group: p.ctrl, network: "tcp", address: "bootstrap:9092"}}
	for i := 0; i < 4; i++ {
		time.Sleep(time.Second) // MetadataTTL passes
	}
	vhSettle()
	vhAssert(!vhCoroDone(1), "refresh-loop-survives-an-unanswered-request")
	if len(vp.ctrl) == 0 {
		// the loop waits for its timer or for a forced refresh: force one
		select {
		case p.wake <- make(event):
		case <-time.After(5 * time.Second):
		}
		vhSettle()
	}
	vhAssert(len(vp.ctrl) == 1, "refresh-loop-goes-on-after-an-unanswered-request")
	if len(vp.ctrl) != 1 {
		cancel()
		return
	}
	r := <-vp.ctrl
	newLeader := vp.ids[0]
	if vp.leaders[0] == vp.ids[0] {
		newLeader = vp.ids[1]
	}
	md := &meta.Response{ControllerID: vp.ctrlID}
	for i, id := range vp.ids {
		md.Brokers = append(md.Brokers, meta.ResponseBroker{NodeID: id, Host: "h", Port: 9092 + int32(i)})
	}
	md.Topics = []meta.ResponseTopic{{Name: "t", Partitions: []meta.ResponsePartition{{PartitionIndex: 0, LeaderID: newLeader}}}}
	r.res.resolve(md)
	vhSettle()
	req := &pproduce.Request{Topics: []pproduce.RequestTopic{{Topic: "t", Partitions: []pproduce.RequestPartition{{Partition: 0}}}}}
	p.sendRequest(context.Background(), req, p.grabState())
	vp.landed(newLeader, req, "after-a-timed-out-refresh-and-a-leader-move")
	cancel()
	vhSettle()
	vhReach("c12-discover-survives-timeout")
}
