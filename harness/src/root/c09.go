package kafka

import (
	"context"
	"io"
	"time"
)

// C09: Close, cancellation and use-after-close behave and terminate.
//
// H1 (level S): Writer.Close against WriteMessages. The schedule in which Close runs between the caller's enter()
// and its batchMessages() is forced through the public API: the Balancer (it runs exactly in that window) starts
// Close and lets it run until it blocks / until the writer is marked closed.
type vhClosingBalancer struct {
	w       *Writer
	done    chan struct{}
	started bool
	when    int // call number of Balance at which Close is started
	calls   int
}

func (b *vhClosingBalancer) Balance(msg Message, partitions ...int) int {
	b.calls++
	if !b.started && b.calls == b.when {
		b.started = true
		go func() {
			b.w.Close()
			close(b.done)
		}()
		if vhIsSymbolic() {
			vhRun(vhSpawned()) // run the closer until it blocks (in group.Wait)
		} else {
			for { // natively: wait until Close has marked the writer closed
				b.w.mutex.Lock()
				c := b.w.closed
				b.w.mutex.Unlock()
				if c {
					break
				}
				time.Sleep(time.Millisecond)
			}
		}
	}
	return 0
}

func VH_C09_WriterCloseRace(n, when int) {
	vhConcreteClock(true)
	tr := &vhTransport{partitions: 1, fixed: []int{vhAcked, vhAcked, vhAcked, vhAcked}}
	comp := &vhCompletion{}
	w := &Writer{Addr: TCP("vh:9092"), Topic: "t", MaxAttempts: 1, BatchSize: 1, BatchTimeout: 10 * time.Millisecond, Transport: tr, Completion: comp.fn, RequiredAcks: RequireAll}
	bal := &vhClosingBalancer{w: w, done: make(chan struct{}), when: when}
	w.Balancer = bal
	msgs := make([]Message, n)
	for i := range msgs {
		msgs[i] = Message{Value: []byte{byte(i + 1)}}
	}
	err := w.WriteMessages(context.Background(), msgs...)
	if !bal.started {
		go func() { w.Close(); close(bal.done) }()
	}
	// Close must return in bounded time in every interleaving
	select {
	case <-bal.done:
		vhReach("c09-close-returned")
	case <-time.After(2 * time.Second):
		vhFail("writer-close-returns-in-bounded-time")
	}
	// whatever WriteMessages reported as written was sent and completed before Close returned
	if err == nil {
		seen := 0
		for _, ids := range comp.ids {
			seen += len(ids)
		}
		vhAssert(seen == n, "close-after-every-completion")
	}
	err2 := w.WriteMessages(context.Background(), Message{Value: []byte{9}})
	vhAssert(err2 == io.ErrClosedPipe, "write-after-close-is-ErrClosedPipe")
}
