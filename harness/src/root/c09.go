package kafka

import (
	pfindcoordinator "github.com/segmentio/kafka-go/protocol/findcoordinator"
	"context"
	"errors"
	"io"
	"net"
	"time"
)

// C09: Close, cancellation and use-after-close behave and terminate.
//
// H1 (level S): Writer.Close against WriteMessages. The schedule in which Close runs between the caller's enter()
// and its batchMessages() is forced through the public API: the Balancer (it runs exactly in that window) starts
// Close and lets it run until it blocks / until the writer is marked closed.
type vhClosingBalancer struct {
	w       *Writer
	done    chan struct{}
	started bool
	when    int // call number of Balance at which Close is started
	calls   int
}

func (b *vhClosingBalancer) Balance(msg Message, partitions ...int) int {
	b.calls++
	if !b.started && b.calls == b.when {
		b.started = true
		go func() {
			b.w.Close()
			close(b.done)
		}()
		if vhIsSymbolic() {
			vhRun(vhSpawned()) // run the closer until it blocks (in group.Wait)
		} else {
			for { // natively: wait until Close has marked the writer closed
				b.w.mutex.Lock()
				c := b.w.closed
				b.w.mutex.Unlock()
				if c {
					break
				}
				time.Sleep(time.Millisecond)
			}
		}
	}
	return 0
}

func VH_C09_WriterCloseRace(n, when, prior int) {
	vhConcreteClock(true)
	tr := &vhTransport{partitions: 1, fixed: []int{vhAcked, vhAcked, vhAcked, vhAcked, vhAcked, vhAcked}}
	comp := &vhCompletion{}
	w := &Writer{Addr: TCP("vh:9092"), Topic: "t", MaxAttempts: 1, BatchSize: 1, BatchTimeout: 10 * time.Millisecond, Transport: tr, Completion: comp.fn, RequiredAcks: RequireAll}
	bal := &vhClosingBalancer{w: w, done: make(chan struct{}), when: when + prior}
	w.Balancer = bal
	// the writer may already have been used successfully (its partition writer map exists)
	for i := 0; i < prior; i++ {
		perr := w.WriteMessages(context.Background(), Message{Value: []byte{byte(100 + i)}})
		vhAssert(perr == nil, "prior-write-succeeds")
	}
	comp.ids, comp.errs, comp.calls = nil, nil, 0
	msgs := make([]Message, n)
	for i := range msgs {
		msgs[i] = Message{Value: []byte{byte(i + 1)}}
	}
	err := w.WriteMessages(context.Background(), msgs...)
	if !bal.started {
		go func() { w.Close(); close(bal.done) }()
	}
	// Close must return in bounded time in every interleaving
	select {
	case <-bal.done:
		vhReach("c09-close-returned")
	case <-time.After(2 * time.Second):
		vhFail("writer-close-returns-in-bounded-time")
	}
	// whatever WriteMessages reported as written was sent and completed before Close returned
	if err == nil {
		seen := 0
		for _, ids := range comp.ids {
			seen += len(ids)
		}
		vhAssert(seen == n, "close-after-every-completion")
	}
	err2 := w.WriteMessages(context.Background(), Message{Value: []byte{9}})
	vhAssert(err2 == io.ErrClosedPipe, "write-after-close-is-ErrClosedPipe")
}

// H2: a WriteMessages call blocked in the metadata round trip returns promptly with the context's error when its
// context ends (the fake transport answers only when the context it was given is done).
type vhBlockingTransport struct{ calls int }

func (t *vhBlockingTransport) RoundTrip(ctx context.Context, addr net.Addr, req Request) (Response, error) {
	t.calls++
	<-ctx.Done()
	return nil, ctx.Err()
}

func VH_C09_WriterCancel() {
	vhConcreteClock(true)
	tr := &vhBlockingTransport{}
	w := &Writer{Addr: TCP("vh:9092"), Topic: "t", Transport: tr, RequiredAcks: RequireAll}
	ctx, cancel := context.WithCancel(context.Background())
	var werr error
	done := make(chan struct{})
	go func() {
		werr = w.WriteMessages(ctx, Message{Value: []byte{1}})
		close(done)
	}()
	if vhIsSymbolic() {
		vhRun(vhSpawned())
	} else {
		time.Sleep(20 * time.Millisecond)
	}
	vhAssert(tr.calls == 1, "blocked-in-the-round-trip")
	cancel()
	select {
	case <-done:
	case <-time.After(500 * time.Millisecond):
		vhFail("blocked-write-returns-when-its-context-ends")
	}
	vhAssert(errors.Is(werr, context.Canceled), "returns-the-contexts-error")
	vhReach("c09-cancel")
}

// Reader.Close while a ReadMessage is blocked waiting for data that does not come (the answer to the next fetch is
// held back): Close returns, the blocked call returns io.EOF, the connections are closed, later calls fail.
func VH_C09_ReaderClose(n int) {
	vhConcreteClock(true)
	var set []byte
	vals := make([][]byte, n)
	for i := 0; i < n; i++ {
		vals[i] = vhBytes("value", 2)
		set = append(set, vhEncMessage(int64(i), 1, 0, 1600000000000, nil, vals[i])...)
	}
	meta := append(vhApiVersionsFrame(1, []vhApiRange{{int16(metadata), 0, 1}}), vhMetadataResponse(2, 1, "t", 0, 0, 1)...)
	var s []byte
	s = append(s, vhListOffsetsFrame(1, "t", 0, 0, -1, 0)...)
	s = append(s, vhListOffsetsFrame(2, "t", 0, 0, -1, int64(n))...)
	s = append(s, vhListOffsetsFrame(3, "t", 0, 0, -1, 0)...)
	s = append(s, vhListOffsetsFrame(4, "t", 0, 0, -1, int64(n))...)
	s = append(s, vhApiVersionsFrame(5, []vhApiRange{{int16(fetch), 0, 2}})...)
	s = append(s, vhFetchResponse(6, 2, 0, "t", 0, 0, int64(n), set)...)
	leader := &vhFakeConn{data: s, gate: make(chan struct{}), gateAfter: len(s)} // after the first fetch: silence
	conns := []*vhFakeConn{{data: meta}, leader}
	dials := 0
	d := &Dialer{DialFunc: func(c context.Context, network, address string) (net.Conn, error) {
		if dials >= len(conns) {
			return nil, io.ErrClosedPipe
		}
		fc := conns[dials]
		dials++
		return fc, nil
	}}
	r := NewReader(ReaderConfig{Brokers: []string{"b:9092"}, Topic: "t", Partition: 0, Dialer: d, MinBytes: 1, MaxBytes: 100000, MaxWait: time.Second,
		ReadLagInterval: -1}) // no lag reporter (it would dial a connection of its own)
	ctx := context.Background()
	for i := 0; i < n; i++ {
		m, err := r.ReadMessage(ctx)
		vhAssert(err == nil && m.Offset == int64(i) && vhBytesEq(m.Value, vals[i]), "messages-before-the-silence-are-delivered")
	}
	var err3, cerr error
	done3, closed := false, false
	go func() { _, err3 = r.ReadMessage(ctx); done3 = true }()
	vhSettle()
	vhAssert(!done3, "read-blocks-while-no-data-arrives")
	closedCh := make(chan struct{})
	go func() { cerr = r.Close(); closed = true; close(closedCh) }()
	// the caller waits: time passes (the pending read runs into its deadline), never for ever - a Close that does not
	// return is a deadlock of this harness
	<-closedCh
	vhSettle()
	vhAssert(closed && cerr == nil, "reader-close-returns")
	vhAssert(done3 && errors.Is(err3, io.EOF), "blocked-read-returns-EOF-when-the-reader-is-closed")
	vhAssert(leader.closed, "reader-close-closes-the-connection")
	_, err4 := r.ReadMessage(ctx)
	vhAssert(errors.Is(err4, io.EOF), "read-after-close-fails-with-EOF")
	vhReach("c09-reader-close")
}

// A Reader with a consumer group: Reader.Close returns only after the group was left - LeaveGroup for the current
// member id was sent and answered - and nothing is sent to the coordinator afterwards.
func VH_C09_GroupReaderClose(scenario int) {
	vhConcreteClock(true)
	co := &vhCoordinator{}
	co.joinResp = joinGroupResponse{GenerationID: 3, MemberID: "m1", LeaderID: "someone-else", GroupProtocol: "range"}
	co.syncResp = syncGroupResponseV0{MemberAssignments: groupAssignment{Version: 1, Topics: map[string][]int32{}}.bytes()}
	cfg := ConsumerGroupConfig{ID: "g", Brokers: []string{"vh:9092"}, Topics: []string{"t"}, HeartbeatInterval: time.Second, JoinGroupBackoff: time.Second}
	cfg.connect = func(*Dialer, ...string) (coordinator, error) { return co, nil }
	cg, nerr := NewConsumerGroup(cfg)
	vhAssert(nerr == nil, "group-created")
	stctx, stop := context.WithCancel(context.Background())
	r := &Reader{
		config:   ReaderConfig{GroupID: "g", Topic: "t", MaxAttempts: 3, CommitInterval: 0, Brokers: []string{"vh:9092"}},
		msgs:     make(chan readerMessage, 4),
		done:     make(chan struct{}),
		stctx:    stctx,
		stop:     stop,
		cancel:   func() {},
		stats:    &readerStats{},
		runError: make(chan error),
		commits:  make(chan commitRequest, 4),
	}
	vhWatch(r)
	vhGuardCheck(true)
	go r.run(cg)
	vhSettle()
	vhAssert(co.joins == 1, "reader-joined-the-group")
	if scenario == 1 {
		// a synchronous CommitMessages whose context ends while the OffsetCommit is in flight at a slow broker:
		// the call returns its context error, the commit loop is not left waiting for somebody to take the result
		co.commitGate = make(chan struct{})
		ctx, cancel := context.WithCancel(context.Background())
		var cerr error
		cdone := false
		go func() {
			cerr = r.CommitMessages(ctx, Message{Topic: "t", Partition: 0, Offset: 41})
			cdone = true
		}()
		vhSettle()
		vhAssert(co.commitCalls == 1 && !cdone, "commit-is-in-flight")
		cancel()
		vhSettle()
		vhAssert(cdone && errors.Is(cerr, context.Canceled), "cancelled-commit-returns-its-context-error")
		close(co.commitGate)
		co.commitGate = nil
		vhSettle()
		vhAssert(len(co.commits) == 1 && co.commits[0].offset == 42, "the-in-flight-commit-reached-the-coordinator")
	}
	closedCh := make(chan struct{})
	go func() { r.Close(); close(closedCh) }()
	<-closedCh
	left := false
	for _, c := range co.calls {
		if c == "leaveGroup:m1" {
			left = true
		}
	}
	vhAssert(left, "reader-close-returns-after-LeaveGroup-was-sent")
	n := len(co.calls)
	vhSettle()
	vhSettle()
	vhAssert(len(co.calls) == n, "nothing-is-sent-to-the-coordinator-after-close-returned")
	for i := 1; i <= vhSpawned(); i++ {
		vhAssert(vhCoroDone(i), "no-goroutine-of-the-reader-outlives-close")
	}
	vhReach("c09-group-reader-close")
}

// C09-H6 (level S): a Transport connection whose handshake completes after the call that asked for it has given up
// and after the pool was closed (Transport.CloseIdleConnections, which Writer.Close calls): the connection is closed,
// not parked in a pool nobody will ever empty, and no goroutine is left. late=0: the pool is still open when the
// handshake completes - the connection is kept idle for the next call (and closed with the pool).
func VH_C09_TransportLateConnect(late int) {
	vhConcreteClock(true)
	w := &vhW{}
	w.i16(0)
	w.i32(7)
	w.str("h")
	w.i32(9092)
	f1 := vhApiVersionsFrame(1, []vhApiRange{{10, 0, 0}, {3, 0, 1}})
	fc := &vhFakeConn{data: append(append([]byte{}, f1...), vhFrameOf(2, w.b)...)}
	fc.gate, fc.gateAfter = make(chan struct{}), 0 // the broker is slow to answer the handshake
	if late == 2 {
		// the handshake is answered at once; it is the answer to the call's own request that comes late: after the
		// call gave up. The connection's goroutine must not be left waiting for somebody to take that answer.
		fc.gateAfter = len(f1)
	}
	dials := 0
	ready := make(event)
	close(ready)
	_, pcancel := context.WithCancel(context.Background())
	p := &connPool{
		dial: func(ctx context.Context, network, address string) (net.Conn, error) {
			dials++
			return fc, nil
		},
		dialTimeout: time.Minute, idleTimeout: time.Minute, clientID: "vh",
		ready: ready, wake: make(chan event), conns: make(map[int32]*connGroup),
		cancel: pcancel, refc: 1,
	}
	p.ctrl = p.newConnGroup(&networkAddress{network: "tcp", address: "bootstrap:9092"})
	p.setState(connPoolState{})
	ctx, cancel := context.WithCancel(context.Background())
	var err error
	done := false
	go func() {
		_, err = p.roundTrip(ctx, &pfindcoordinator.Request{Key: "A"})
		done = true
	}()
	vhSettle()
	vhAssert(dials == 1 && len(fc.written) > 0 && !done, "handshake-in-flight")
	cancel()
	vhSettle()
	vhAssert(done && errors.Is(err, context.Canceled), "call-returns-its-context-error")
	if late == 1 {
		p.unref() // the pool is closed while the handshake is still in flight
		vhSettle()
	}
	fc.release()
	vhSettle()
	vhSettle()
	if late == 2 {
		p.unref()
		vhSettle()
		vhAssert(fc.closed, "connection-of-an-abandoned-call-is-closed-with-the-pool")
	} else if late == 1 {
		vhAssert(fc.closed, "connection-that-arrives-after-the-pool-was-closed-is-closed")
	} else {
		vhAssert(!fc.closed, "connection-kept-for-the-next-call")
		p.unref()
		vhSettle()
		vhAssert(fc.closed, "idle-connection-closed-with-the-pool")
	}
	vhSettle()
	for i := 1; i <= vhSpawned(); i++ {
		vhAssert(vhCoroDone(i), "no-goroutine-of-the-transport-outlives-the-pool")
	}
	vhReach("c09-transport-late-connect")
}

// C09-H7 (level S): Reader.Close on an idle partition. The background reader polls: its fetches come back empty.
// Close is called while a fetch is in flight; the broker then answers that fetch (empty again). The reader must
// notice the cancellation at its next loop turn: Close returns without any time having to pass and no further
// fetch request is sent.
func VH_C09_ReaderCloseIdle() {
	vhConcreteClock(true)
	meta := append(vhApiVersionsFrame(1, []vhApiRange{{int16(metadata), 0, 1}}), vhMetadataResponse(2, 1, "t", 0, 0, 1)...)
	var s []byte
	s = append(s, vhListOffsetsFrame(1, "t", 0, 0, -1, 0)...)
	s = append(s, vhListOffsetsFrame(2, "t", 0, 0, -1, 0)...)
	s = append(s, vhListOffsetsFrame(3, "t", 0, 0, -1, 0)...)
	s = append(s, vhListOffsetsFrame(4, "t", 0, 0, -1, 0)...)
	s = append(s, vhApiVersionsFrame(5, []vhApiRange{{int16(fetch), 0, 2}})...)
	s = append(s, vhFetchResponse(6, 2, 0, "t", 0, 0, 0, nil)...)
	end6 := len(s)
	s = append(s, vhFetchResponse(7, 2, 0, "t", 0, 0, 0, nil)...)
	end7 := len(s)
	s = append(s, vhFetchResponse(8, 2, 0, "t", 0, 0, 0, nil)...)
	leader := &vhFakeConn{data: s, gate: make(chan struct{}), gateAfter: end6}
	conns := []*vhFakeConn{{data: meta}, leader}
	dials := 0
	d := &Dialer{DialFunc: func(c context.Context, network, address string) (net.Conn, error) {
		if dials >= len(conns) {
			return nil, io.ErrClosedPipe
		}
		fc := conns[dials]
		dials++
		return fc, nil
	}}
	r := NewReader(ReaderConfig{Brokers: []string{"b:9092"}, Topic: "t", Partition: 0, Dialer: d, MinBytes: 1, MaxBytes: 100000, MaxWait: time.Second,
		ReadLagInterval: -1})
	ctx := context.Background()
	done3 := false
	go func() { r.ReadMessage(ctx); done3 = true }()
	vhSettle()
	vhSettle()
	inFlight := len(leader.written)
	vhAssert(leader.off >= end6 && !done3, "second-fetch-in-flight-on-an-idle-partition")
	closed := false
	go func() { r.Close(); closed = true }()
	vhSettle()
	vhAssert(len(leader.written) == inFlight, "nothing-sent-while-the-fetch-is-in-flight")
	leader.advance(end7) // the broker answers the fetch that was in flight: still no data
	vhSettle()
	vhSettle()
	vhAssert(len(leader.written) == inFlight, "no-fetch-is-sent-after-close-was-called")
	vhAssert(closed, "reader-close-returns-once-the-in-flight-fetch-is-answered")
	vhAssert(done3, "blocked-read-returns-when-the-reader-is-closed")
	vhReach("c09-reader-close-idle")
}

// C09-H8 (lock hand-off schedule): Writer.Close and two WriteMessages calls from three goroutines, interleaved at
// every Unlock. Every call returns; a write returns nil only if its message is in the log, otherwise an error; after
// Close returned nothing is left running and nothing more is sent.
func VH_C09_WriterCloseHandoff(async int) {
	vhConcreteClock(true)
	vhHandoff(true)
	tr := &vhTransport{partitions: 1, budget: 1, fixed: []int{vhAcked, vhAcked, vhAcked, vhAcked, vhAcked, vhAcked}}
	w := &Writer{Addr: TCP("vh:9092"), Topic: "t", MaxAttempts: 1, BatchSize: 1, BatchTimeout: 10 * time.Millisecond, Transport: tr, RequiredAcks: RequireAll, Async: async == 1}
	ctx := context.Background()
	errs := make([]error, 2)
	fin := 0
	for g := 0; g < 2; g++ {
		g := g
		go func() {
			errs[g] = w.WriteMessages(ctx, Message{Value: []byte{byte(1 + g)}})
			fin++
		}()
	}
	closed := false
	go func() { w.Close(); closed = true; fin++ }()
	for i := 0; i < 10 && fin < 3; i++ {
		vhRunAll()
		time.Sleep(20 * time.Millisecond)
	}
	vhAssert(fin == 3 && closed, "close-and-every-write-return")
	inLog := map[int]int{}
	for _, j := range tr.journal {
		if j.applied {
			for _, id := range j.ids {
				inLog[id]++
			}
		}
	}
	for g := 0; g < 2; g++ {
		vhAssert(inLog[1+g] <= 1, "no-duplicate-without-a-lost-acknowledgement")
		if async == 0 && errs[g] == nil {
			vhAssert(inLog[1+g] == 1, "a-write-that-returned-nil-is-in-the-log")
		}
		if errs[g] != nil {
			vhAssert(errors.Is(errs[g], io.ErrClosedPipe), "a-write-refused-by-close-reports-ErrClosedPipe")
		}
	}
	sent := len(tr.journal)
	vhSettle()
	time.Sleep(50 * time.Millisecond)
	vhSettle()
	vhAssert(len(tr.journal) == sent, "nothing-is-sent-after-close-returned")
	for i := 1; i <= vhSpawned(); i++ {
		vhAssert(vhCoroDone(i), "no-goroutine-of-the-writer-outlives-close")
	}
	vhReach("c09-writer-close-handoff")
}
