package kafka

import (
	"bufio"
	"bytes"
	"reflect"
	"time"

	"github.com/segmentio/kafka-go/protocol"
)

// C04, hand-written Conn codec: every request frame that Conn.writeRequest emits announces its own length
// (size pre-computation == bytes written), carries api key / version / correlation id / client id in the header,
// and is byte for byte what the reflection-driven protocol package produces after decoding it (differential
// between the two independent codecs of the repository: ReadRequest(frame) succeeds, consumes the whole frame,
// and WriteRequest of the decoded message gives the same frame back).

type vhLegacyReq struct {
	key  apiKey
	ver  apiVersion
	req  request
	diff bool // also run the differential against package protocol
}

func vhLegacyRequest(kind, shape int) vhLegacyReq {
	// byte fields of these internal request structs are never nil when the library builds them (group metadata,
	// assignments and SASL tokens come from bytes()/user buffers); nil would be written as a null the schema
	// does not allow: empty instead
	fill := func(p interface{}) {
		vhFillAny(reflect.ValueOf(p).Elem(), "req", shape)
		vhNoNilBytes(reflect.ValueOf(p).Elem())
	}
	switch kind {
	case 0:
		r := createTopicsRequest{v: v0}
		fill(&r)
		return vhLegacyReq{createTopics, v0, r, true}
	case 1:
		r := createTopicsRequest{v: v1}
		fill(&r)
		return vhLegacyReq{createTopics, v1, r, true}
	case 2:
		r := createTopicsRequest{v: v2}
		fill(&r)
		return vhLegacyReq{createTopics, v2, r, true}
	case 3:
		r := deleteTopicsRequest{}
		fill(&r)
		return vhLegacyReq{deleteTopics, v0, r, true}
	case 4:
		r := findCoordinatorRequestV0{}
		fill(&r)
		return vhLegacyReq{findCoordinator, v0, r, true}
	case 5:
		r := heartbeatRequestV0{}
		fill(&r)
		return vhLegacyReq{heartbeat, v0, r, true}
	case 6:
		r := joinGroupRequest{}
		fill(&r)
		return vhLegacyReq{joinGroup, v1, r, true}
	case 7:
		r := leaveGroupRequestV0{}
		fill(&r)
		return vhLegacyReq{leaveGroup, v0, r, true}
	case 8:
		r := listGroupsRequestV1{}
		fill(&r)
		return vhLegacyReq{listGroups, v1, r, true}
	case 9:
		r := offsetCommitRequestV2{}
		fill(&r)
		return vhLegacyReq{offsetCommit, v2, r, true}
	case 10:
		r := offsetFetchRequestV1{}
		fill(&r)
		return vhLegacyReq{offsetFetch, v1, r, true}
	case 11:
		r := syncGroupRequestV0{}
		fill(&r)
		return vhLegacyReq{syncGroup, v0, r, true}
	case 12:
		r := topicMetadataRequestV1{}
		fill(&r)
		return vhLegacyReq{metadata, v1, r, true}
	case 13:
		r := topicMetadataRequestV6{}
		fill(&r)
		return vhLegacyReq{metadata, v6, r, true}
	case 14:
		r := saslHandshakeRequestV0{}
		fill(&r)
		return vhLegacyReq{saslHandshake, v0, &r, true}
	case 15:
		r := saslAuthenticateRequestV0{}
		fill(&r)
		return vhLegacyReq{saslAuthenticate, v0, &r, true}
	case 16:
		r := listOffsetRequestV1{}
		fill(&r)
		return vhLegacyReq{listOffsets, v1, r, true}
	case 17:
		r := fetchRequestV2{}
		fill(&r)
		return vhLegacyReq{fetch, v2, r, true}
	}
	panic("unknown legacy request kind")
}

const vhLegacyKinds = 18

func VH_C04_LegacyFrame(kind, shape int) {
	lr := vhLegacyRequest(kind, shape)
	clientID := vhString("clientid", 2)
	corr := vhInt32("corr")
	fc := &vhFakeConn{}
	c := NewConnWith(fc, ConnConfig{ClientID: clientID})
	err := c.writeRequest(lr.key, lr.ver, corr, lr.req)
	vhAssert(err == nil, "legacy-write-ok")
	frame := fc.written
	vhAssert(len(frame) >= 14, "legacy-frame-has-header")
	size := int32(uint32(frame[0])<<24 | uint32(frame[1])<<16 | uint32(frame[2])<<8 | uint32(frame[3]))
	vhAssert(int(size) == len(frame)-4, "legacy-size-prefix-equals-bytes-that-follow")
	vhAssert(int16(uint16(frame[4])<<8|uint16(frame[5])) == int16(lr.key), "legacy-header-api-key")
	vhAssert(int16(uint16(frame[6])<<8|uint16(frame[7])) == int16(lr.ver), "legacy-header-api-version")
	vhAssert(int32(uint32(frame[8])<<24|uint32(frame[9])<<16|uint32(frame[10])<<8|uint32(frame[11])) == corr, "legacy-header-correlation-id")
	vhAssert(int(frame[12])<<8|int(frame[13]) == len(clientID), "legacy-header-client-id-length")
	vhAssert(vhStrEq(string(frame[14:14+len(clientID)]), clientID), "legacy-header-client-id")
	vhReach("c04-legacy-frame")
	if !lr.diff {
		return
	}
	rd := bufio.NewReader(bytes.NewReader(frame))
	ver, gotCorr, gotClient, msg, derr := protocol.ReadRequest(rd)
	vhAssert(derr == nil, "legacy-frame-decodes-with-protocol-package")
	vhAssert(msg != nil && msg.ApiKey() == protocol.ApiKey(lr.key), "legacy-decoded-api-key")
	vhAssert(ver == int16(lr.ver), "legacy-decoded-version")
	vhAssert(gotCorr == corr, "legacy-decoded-correlation-id")
	vhAssert(vhStrEq(gotClient, clientID), "legacy-decoded-client-id")
	vhAssert(rd.Buffered() == 0, "legacy-decode-consumes-exactly-one-frame")
	out := &bytes.Buffer{}
	werr := protocol.WriteRequest(out, ver, gotCorr, gotClient, msg)
	vhAssert(werr == nil, "legacy-reencode-ok")
	if !vhHasEmptyString(reflect.ValueOf(lr.req)) {
		vhAssert(vhBytesEq(out.Bytes(), frame), "legacy-frame-equals-protocol-package-encoding")
	} else {
		// the protocol package has no empty value for nullable strings (it sends null for ""), so re-encoding
		// may turn a length-0 string of the legacy frame into null: compared after one more decode instead
		_, _, _, msg2, derr2 := protocol.ReadRequest(bufio.NewReader(bytes.NewReader(out.Bytes())))
		vhAssert(derr2 == nil && msg2 != nil, "legacy-reencoded-frame-decodes")
		out2 := &bytes.Buffer{}
		vhAssert(protocol.WriteRequest(out2, ver, gotCorr, gotClient, msg2) == nil, "legacy-reencode-twice-ok")
		vhAssert(vhBytesEq(out2.Bytes(), out.Bytes()), "legacy-frame-decodes-to-a-stable-message")
	}
	vhReach("c04-legacy-differential")
}

// The request writers of write.go compute the frame size with hand-written arithmetic (fetch v2/v5/v10,
// list offsets v1, produce v2/v3/v7): size prefix == bytes that follow, header fields, and for the requests without
// record payload the differential against package protocol.
func VH_C04_LegacyWriter(kind, shape int) {
	clientID := vhString("clientid", shape%3)
	topic := vhString("topic", 1+shape%2)
	corr := vhInt32("corr")
	partition := vhInt32("partition")
	offset := vhInt64("offset")
	minBytes, maxBytes := int(vhInt32("min")), int(vhInt32("max"))
	isolation := vhInt8("isolation")
	acks := vhInt16("acks")
	buf := &bytes.Buffer{}
	wb := &writeBuffer{w: bufio.NewWriter(buf)}
	var key apiKey
	var ver apiVersion
	diff := true
	var err error
	mkMsgs := func() []Message {
		n := 1 + shape%2
		msgs := make([]Message, n)
		// record times: the first message sits off a millisecond boundary, the others follow it by a symbolic
		// number of nanoseconds (the batch encodes millisecond deltas as varints: their pre-computed and their
		// written lengths must agree for every distance)
		base := time.Unix(1, 900000)
		for i := range msgs {
			t := base
			if i > 0 {
				t = base.Add(time.Duration(vhIntRange("time_distance_ns", 0, 1<<28)))
			}
			m := Message{Time: t, Value: vhBytes("value", shape%3)}
			if shape >= 1 {
				m.Key = vhBytes("key", shape%2)
			}
			if shape >= 2 {
				m.Headers = []Header{{Key: vhString("hk", 1), Value: vhBytes("hv", shape%3)}}
			}
			msgs[i] = m
		}
		return msgs
	}
	switch kind {
	case 0:
		key, ver = fetch, v2
		err = wb.writeFetchRequestV2(corr, clientID, topic, partition, offset, minBytes, maxBytes, time.Second)
	case 1:
		key, ver = fetch, v5
		err = wb.writeFetchRequestV5(corr, clientID, topic, partition, offset, minBytes, maxBytes, time.Second, isolation)
	case 2:
		key, ver = fetch, v10
		err = wb.writeFetchRequestV10(corr, clientID, topic, partition, offset, minBytes, maxBytes, time.Second, isolation)
	case 3:
		key, ver = listOffsets, v1
		err = wb.writeListOffsetRequestV1(corr, clientID, topic, partition, offset)
	case 4:
		key, ver, diff = produce, v2, false
		err = wb.writeProduceRequestV2(nil, corr, clientID, topic, partition, time.Second, acks, mkMsgs()...)
	case 5, 6:
		diff = false
		var tid *string
		if shape%2 == 1 {
			s := vhString("txid", 1)
			tid = &s
		}
		rb, rerr := newRecordBatch(nil, mkMsgs()...)
		vhAssert(rerr == nil, "record-batch-ok")
		if kind == 5 {
			key, ver = produce, v3
			err = wb.writeProduceRequestV3(corr, clientID, topic, partition, time.Second, acks, tid, rb)
		} else {
			key, ver = produce, v7
			err = wb.writeProduceRequestV7(corr, clientID, topic, partition, time.Second, acks, tid, rb)
		}
	}
	vhAssert(err == nil, "writer-ok")
	wb.Flush()
	frame := buf.Bytes()
	vhAssert(len(frame) >= 14, "writer-frame-has-header")
	size := int32(uint32(frame[0])<<24 | uint32(frame[1])<<16 | uint32(frame[2])<<8 | uint32(frame[3]))
	vhAssert(int(size) == len(frame)-4, "writer-size-prefix-equals-bytes-that-follow")
	vhAssert(int16(uint16(frame[4])<<8|uint16(frame[5])) == int16(key), "writer-header-api-key")
	vhAssert(int16(uint16(frame[6])<<8|uint16(frame[7])) == int16(ver), "writer-header-api-version")
	vhAssert(int32(uint32(frame[8])<<24|uint32(frame[9])<<16|uint32(frame[10])<<8|uint32(frame[11])) == corr, "writer-header-correlation-id")
	vhAssert(int(frame[12])<<8|int(frame[13]) == len(clientID), "writer-header-client-id-length")
	vhAssert(vhStrEq(string(frame[14:14+len(clientID)]), clientID), "writer-header-client-id")
	vhReach("c04-writer-frame")
	if !diff {
		return
	}
	rd := bufio.NewReader(bytes.NewReader(frame))
	gotVer, gotCorr, gotClient, msg, derr := protocol.ReadRequest(rd)
	vhAssert(derr == nil, "writer-frame-decodes-with-protocol-package")
	vhAssert(msg != nil && msg.ApiKey() == protocol.ApiKey(key), "writer-decoded-api-key")
	vhAssert(gotVer == int16(ver), "writer-decoded-version")
	vhAssert(rd.Buffered() == 0, "writer-decode-consumes-exactly-one-frame")
	out := &bytes.Buffer{}
	werr := protocol.WriteRequest(out, gotVer, gotCorr, gotClient, msg)
	vhAssert(werr == nil, "writer-reencode-ok")
	vhAssert(vhBytesEq(out.Bytes(), frame), "writer-frame-equals-protocol-package-encoding")
	vhReach("c04-writer-differential")
}

// vhHasEmptyString: some string field of the (legacy) request value is empty.
func vhHasEmptyString(v reflect.Value) bool {
	switch v.Kind() {
	case reflect.Ptr, reflect.Interface:
		if v.IsNil() {
			return false
		}
		return vhHasEmptyString(v.Elem())
	case reflect.String:
		return v.Len() == 0
	case reflect.Slice:
		if v.Type().Elem().Kind() == reflect.Uint8 {
			return false
		}
		for i := 0; i < v.Len(); i++ {
			if vhHasEmptyString(v.Index(i)) {
				return true
			}
		}
	case reflect.Struct:
		for i := 0; i < v.NumField(); i++ {
			if vhHasEmptyString(v.Field(i)) {
				return true
			}
		}
	}
	return false
}

func vhNoNilBytes(v reflect.Value) {
	switch v.Kind() {
	case reflect.Slice:
		if v.Type().Elem().Kind() == reflect.Uint8 {
			if v.IsNil() && v.CanSet() {
				v.SetBytes([]byte{})
			}
			return
		}
		for i := 0; i < v.Len(); i++ {
			vhNoNilBytes(v.Index(i))
		}
	case reflect.Struct:
		for i := 0; i < v.NumField(); i++ {
			if v.Type().Field(i).PkgPath == "" {
				vhNoNilBytes(v.Field(i))
			}
		}
	}
}

// Version negotiation of the hand-written Conn codec: for every call site's list of implemented versions and an
// arbitrary advertised maximum, the negotiated version is the highest implemented one that does not exceed what
// the broker advertised, and "no match" (-1) when even the lowest implemented version is above it - never a
// version higher than the broker's.
func VH_C04_LegacyNegotiate(site int) {
	sites := [][]apiVersion{{v1, v2}, {v2, v5, v10}, {v1, v6}, {v2, v3, v7}, {v0, v1}, {v0, v1, v2}}
	keys := []apiKey{joinGroup, fetch, metadata, produce, saslHandshake, createTopics}
	supported := sites[site]
	max := vhInt16("broker_max_version")
	vm := apiVersionMap{keys[site]: ApiVersion{ApiKey: int16(keys[site]), MinVersion: 0, MaxVersion: max}}
	got := vm.negotiate(keys[site], supported...)
	want := apiVersion(-1)
	for _, s := range supported {
		if int16(s) <= max && s > want {
			want = s
		}
	}
	vhAssert(got == want, "negotiated-version-is-the-highest-implemented-one-not-above-the-brokers-maximum")
	if got >= 0 {
		vhAssert(int16(got) <= max, "negotiated-version-never-exceeds-what-the-broker-advertised")
	}
	vhReach("c04-legacy-negotiate")
}

// C04 legacy writer, Metadata "all topics": a nil topic list is the null array (length -1) on the wire - an empty
// array means "no topics" to a broker - at both request versions the Conn uses; a non-nil list is written as it is.
func VH_C04_MetadataAllTopics(version int) {
	clientID := vhString("clientid", 1)
	corr := vhInt32("corr")
	n := vhChoose("topics", 3) - 1 // -1: nil (all topics), 0: none, 1: one topic
	var topics []string
	if n >= 0 {
		topics = []string{}
	}
	if n == 1 {
		topics = append(topics, vhString("topic", 2))
	}
	fc := &vhFakeConn{}
	c := NewConnWith(fc, ConnConfig{ClientID: clientID})
	var err error
	if version == 6 {
		err = c.writeRequest(metadata, v6, corr, topicMetadataRequestV6{Topics: topics, AllowAutoTopicCreation: true})
	} else {
		err = c.writeRequest(metadata, v1, corr, topicMetadataRequestV1(topics))
	}
	vhAssert(err == nil, "metadata-request-write-ok")
	frame := fc.written
	body := 14 + len(clientID)
	vhAssert(len(frame) >= body+4, "metadata-request-has-a-body")
	if len(frame) < body+4 {
		return
	}
	size := int32(uint32(frame[0])<<24 | uint32(frame[1])<<16 | uint32(frame[2])<<8 | uint32(frame[3]))
	vhAssert(int(size) == len(frame)-4, "metadata-request-size-prefix")
	count := int32(uint32(frame[body])<<24 | uint32(frame[body+1])<<16 | uint32(frame[body+2])<<8 | uint32(frame[body+3]))
	vhAssert(count == int32(n), "metadata-request-topic-array-length-null-for-all-topics")
	want := body + 4
	if n == 1 {
		want += 2 + len(topics[0])
	}
	if version == 6 {
		vhAssert(len(frame) == want+1 && frame[want] == 1, "metadata-request-allow-auto-topic-creation")
	} else {
		vhAssert(len(frame) == want, "metadata-request-length")
	}
	vhReach("c04-metadata-all-topics")
}
