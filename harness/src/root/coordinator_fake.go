package kafka

import "errors"

// vhCoordinator is a mock group coordinator with a journal; every call's outcome is decided by a script or
// nondeterministically.
type vhCommitSeen struct {
	group      string
	generation int32
	member     string
	topic      string
	partition  int32
	offset     int64
	acked      bool
}

type vhCoordinator struct {
	commits      []vhCommitSeen
	commitCalls  int
	fetchResp    offsetFetchResponseV1
	fetchErr     error
	calls        []string
	closed       bool
	commitFails  func(call int) bool
	commitGate   chan struct{} // when set, an offsetCommit call waits here (a slow broker: the commit is in flight)
	heartbeatErr func(call int) error
	heartbeats   int
	joinResp     joinGroupResponse
	joinErr      error
	syncResp     syncGroupResponseV0
	syncErr      error
	parts        []Partition
	closes       int
	finds        int
	findOutcome  func(call int) (int16, error) // error code / transport error of the n-th findCoordinator call
	filterTopics bool
	partsErr     error
	joins        int
	joinOutcome  func(call int) (joinGroupResponse, error) // overrides joinResp/joinErr when set
	joinMembers  []string                                  // member id carried by each joinGroup request
	heartbeatMembers []string                              // member id carried by each heartbeat request
	groupAddrs   []string                                  // "<request>@<address of the connection it was sent on>" (vhCoordConn)
}

var vhErrCoordinator = errors.New("vh: coordinator failure")

func (c *vhCoordinator) Close() error {
	c.closed = true
	c.closes++
	c.calls = append(c.calls, "close")
	return nil
}
func (c *vhCoordinator) findCoordinator(findCoordinatorRequestV0) (findCoordinatorResponseV0, error) {
	c.calls = append(c.calls, "findCoordinator")
	c.finds++
	if c.findOutcome != nil {
		if code, err := c.findOutcome(c.finds); code != 0 || err != nil {
			return findCoordinatorResponseV0{ErrorCode: code}, err
		}
	}
	return findCoordinatorResponseV0{Coordinator: findCoordinatorResponseCoordinatorV0{NodeID: 1, Host: "h", Port: 9092}}, nil
}
func (c *vhCoordinator) joinGroup(r joinGroupRequest) (joinGroupResponse, error) {
	c.calls = append(c.calls, "joinGroup")
	c.joins++
	c.joinMembers = append(c.joinMembers, r.MemberID)
	if c.joinOutcome != nil {
		return c.joinOutcome(c.joins)
	}
	return c.joinResp, c.joinErr
}
func (c *vhCoordinator) syncGroup(syncGroupRequestV0) (syncGroupResponseV0, error) {
	c.calls = append(c.calls, "syncGroup")
	return c.syncResp, c.syncErr
}
func (c *vhCoordinator) leaveGroup(r leaveGroupRequestV0) (leaveGroupResponseV0, error) {
	c.calls = append(c.calls, "leaveGroup:"+r.MemberID)
	return leaveGroupResponseV0{}, nil
}
func (c *vhCoordinator) heartbeat(r heartbeatRequestV0) (heartbeatResponseV0, error) {
	c.heartbeats++
	c.heartbeatMembers = append(c.heartbeatMembers, r.MemberID)
	c.calls = append(c.calls, "heartbeat")
	if c.heartbeatErr != nil {
		return heartbeatResponseV0{}, c.heartbeatErr(c.heartbeats)
	}
	return heartbeatResponseV0{}, nil
}
func (c *vhCoordinator) offsetFetch(offsetFetchRequestV1) (offsetFetchResponseV1, error) {
	c.calls = append(c.calls, "offsetFetch")
	return c.fetchResp, c.fetchErr
}
func (c *vhCoordinator) offsetCommit(r offsetCommitRequestV2) (offsetCommitResponseV2, error) {
	c.commitCalls++
	c.calls = append(c.calls, "offsetCommit")
	if c.commitGate != nil {
		<-c.commitGate
	}
	fail := c.commitFails != nil && c.commitFails(c.commitCalls)
	for _, t := range r.Topics {
		for _, p := range t.Partitions {
			c.commits = append(c.commits, vhCommitSeen{group: r.GroupID, generation: r.GenerationID, member: r.MemberID, topic: t.Topic, partition: p.Partition, offset: p.Offset, acked: !fail})
		}
	}
	if fail {
		return offsetCommitResponseV2{}, vhErrCoordinator
	}
	return offsetCommitResponseV2{}, nil
}
func (c *vhCoordinator) readPartitions(topics ...string) ([]Partition, error) {
	c.calls = append(c.calls, "readPartitions")
	if c.partsErr != nil {
		return nil, c.partsErr
	}
	if !c.filterTopics {
		return c.parts, nil
	}
	// like a broker: only the partitions of the topics that were asked for
	var out []Partition
	for _, p := range c.parts {
		for _, t := range topics {
			if p.Topic == t {
				out = append(out, p)
				break
			}
		}
	}
	return out, nil
}

// vhCoordConn is one connection to the fake cluster, opened to a given address: group requests are only accepted by
// the coordinator's address (a real broker that is not the coordinator answers NotCoordinatorForGroup); everything
// else goes to the shared vhCoordinator.
type vhCoordConn struct {
	*vhCoordinator
	addr string
}

const vhCoordinatorAddr = "h:9092" // what vhCoordinator.findCoordinator answers

func (c *vhCoordConn) leaveGroup(r leaveGroupRequestV0) (leaveGroupResponseV0, error) {
	c.vhCoordinator.groupAddrs = append(c.vhCoordinator.groupAddrs, "leaveGroup@"+c.addr)
	if c.addr != vhCoordinatorAddr {
		return leaveGroupResponseV0{ErrorCode: int16(NotCoordinatorForGroup)}, nil
	}
	return c.vhCoordinator.leaveGroup(r)
}
func (c *vhCoordConn) joinGroup(r joinGroupRequest) (joinGroupResponse, error) {
	c.vhCoordinator.groupAddrs = append(c.vhCoordinator.groupAddrs, "joinGroup@"+c.addr)
	return c.vhCoordinator.joinGroup(r)
}
func (c *vhCoordConn) heartbeat(r heartbeatRequestV0) (heartbeatResponseV0, error) {
	c.vhCoordinator.groupAddrs = append(c.vhCoordinator.groupAddrs, "heartbeat@"+c.addr)
	return c.vhCoordinator.heartbeat(r)
}
