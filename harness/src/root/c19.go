package kafka

// C19: offset and metadata queries report exactly the brokers' state.

// H1: Seek in every whence mode, against a broker whose partition holds offsets [first, last].
func VH_C19_Seek(whence, dontCheck int) {
	first := vhInt64("first")
	last := vhInt64("last")
	cur := vhInt64("current")
	off := vhInt64("offset")
	vhAssume(vhAll(0 <= first, first <= last, last < 1<<61, 0 <= cur, cur < 1<<61, -(1<<61) < off, off < 1<<61))
	f1 := vhListOffsetsFrame(1, "t", 0, 0, -1, first)
	f2 := vhListOffsetsFrame(2, "t", 0, 0, -1, last)
	fc := &vhFakeConn{data: append(append([]byte{}, f1...), f2...)}
	c := NewConnWith(fc, ConnConfig{Topic: "t", Partition: 0, ClientID: "vh"})
	c.offset = cur
	w := whence
	if dontCheck == 1 {
		w |= SeekDontCheck
	}
	got, err := c.Seek(off, w)

	checked := !(dontCheck == 1 && (whence == SeekAbsolute || whence == SeekCurrent))
	var target int64
	switch whence {
	case SeekStart:
		target = first + off
	case SeekAbsolute:
		target = off
	case SeekEnd:
		target = last - off
	case SeekCurrent:
		target = cur + off
	}
	if !checked {
		vhAssert(err == nil, "seek-dontcheck-never-fails")
		vhAssert(vhAll(got == target, c.offset == target), "seek-dontcheck-position")
		vhAssert(len(fc.written) == 0, "seek-dontcheck-sends-nothing")
		vhReach("c19-seek-unchecked")
		return
	}
	if whence == SeekAbsolute && off == cur {
		// already there: documented shortcut, no bounds check
		vhAssert(vhAll(err == nil, got == cur, c.offset == cur), "seek-absolute-unchanged")
		return
	}
	if target < first || target > last {
		vhAssert(err == OffsetOutOfRange, "seek-out-of-range-is-reported")
		vhAssert(c.offset == cur, "seek-out-of-range-keeps-position")
		vhReach("c19-seek-out-of-range")
	} else {
		vhAssert(err == nil, "seek-in-range-succeeds")
		vhAssert(vhAll(got == target, c.offset == target), "seek-position")
		vhReach("c19-seek-in-range")
	}
}

// H2: ReadOffsets / ReadFirstOffset / ReadLastOffset / ReadOffset(time) return the broker's values, a
// per-partition error is reported as that error.
func VH_C19_ReadOffsets() {
	first := vhInt64("first")
	last := vhInt64("last")
	code := vhInt16("error_on_last")
	f1 := vhListOffsetsFrame(1, "t", 0, 0, -1, first)
	f2 := vhListOffsetsFrame(2, "t", 0, code, -1, last)
	fc := &vhFakeConn{data: append(append([]byte{}, f1...), f2...)}
	c := NewConnWith(fc, ConnConfig{Topic: "t", Partition: 3, ClientID: "vh"})
	a, b, err := c.ReadOffsets()
	if code == 0 {
		vhAssert(vhAll(err == nil, a == first, b == last), "readoffsets-values")
		vhReach("c19-readoffsets-ok")
	} else {
		vhAssert(err == Error(code), "readoffsets-error-is-the-partition-error")
		vhAssert(vhAll(a == 0, b == 0), "readoffsets-no-values-on-error")
		vhReach("c19-readoffsets-error")
	}
	// the requests asked for the partition of the connection with the FirstOffset / LastOffset sentinels
	r1 := vhParseListOffsetsRequest(fc.written)
	vhAssert(vhAll(r1.ok, r1.partition == 3, r1.topic == "t", r1.timestamp == FirstOffset), "readoffsets-first-request")
}

type vhListOffsetsReq struct {
	ok        bool
	corr      int32
	topic     string
	partition int32
	timestamp int64
	next      []byte
}

// vhParseListOffsetsRequest decodes one ListOffsets v1 request frame by hand (protocol guide layout).
func vhParseListOffsetsRequest(b []byte) (r vhListOffsetsReq) {
	if len(b) < 4 {
		return
	}
	size := int(vhBE32(b))
	if len(b) < 4+size {
		return
	}
	body := b[4 : 4+size]
	r.next = b[4+size:]
	p := 0
	i16 := func() int16 { v := int16(uint16(body[p])<<8 | uint16(body[p+1])); p += 2; return v }
	i32 := func() int32 { v := vhBE32(body[p:]); p += 4; return v }
	i64 := func() int64 { hi := int64(vhBE32(body[p:])); lo := int64(uint32(vhBE32(body[p+4:]))); p += 8; return hi<<32 | lo }
	str := func() string { n := int(i16()); s := string(body[p : p+n]); p += n; return s }
	if i16() != 2 || i16() != 1 { // api key ListOffsets, version 1
		return
	}
	r.corr = i32()
	_ = str() // client id
	if i32() != -1 { // replica id
		return
	}
	if i32() != 1 {
		return
	}
	r.topic = str()
	if i32() != 1 {
		return
	}
	r.partition = i32()
	r.timestamp = i64()
	r.ok = p == len(body)
	return
}

func vhBE32(b []byte) int32 {
	return int32(uint32(b[0])<<24 | uint32(b[1])<<16 | uint32(b[2])<<8 | uint32(b[3]))
}
