package kafka

import (
	"bufio"
	"bytes"
	"context"
	"errors"
	"net"
	"time"

	"github.com/segmentio/kafka-go/protocol"
	plistoffsets "github.com/segmentio/kafka-go/protocol/listoffsets"
	pmetadata "github.com/segmentio/kafka-go/protocol/metadata"
	poffsetcommit "github.com/segmentio/kafka-go/protocol/offsetcommit"
	poffsetfetch "github.com/segmentio/kafka-go/protocol/offsetfetch"
)

// C19: offset and metadata queries report exactly the brokers' state.

// H1: Seek in every whence mode, against a broker whose partition holds offsets [first, last].
func VH_C19_Seek(whence, dontCheck int) {
	first := vhInt64("first")
	last := vhInt64("last")
	cur := vhInt64("current")
	off := vhInt64("offset")
	vhAssume(vhAll(0 <= first, first <= last, last < 1<<61, 0 <= cur, cur < 1<<61, -(1<<61) < off, off < 1<<61))
	f1 := vhListOffsetsFrame(1, "t", 0, 0, -1, first)
	f2 := vhListOffsetsFrame(2, "t", 0, 0, -1, last)
	fc := &vhFakeConn{data: append(append([]byte{}, f1...), f2...)}
	c := NewConnWith(fc, ConnConfig{Topic: "t", Partition: 0, ClientID: "vh"})
	c.offset = cur
	w := whence
	if dontCheck == 1 {
		w |= SeekDontCheck
	}
	got, err := c.Seek(off, w)

	checked := !(dontCheck == 1 && (whence == SeekAbsolute || whence == SeekCurrent))
	var target int64
	switch whence {
	case SeekStart:
		target = first + off
	case SeekAbsolute:
		target = off
	case SeekEnd:
		target = last - off
	case SeekCurrent:
		target = cur + off
	}
	if !checked {
		vhAssert(err == nil, "seek-dontcheck-never-fails")
		vhAssert(vhAll(got == target, c.offset == target), "seek-dontcheck-position")
		vhAssert(len(fc.written) == 0, "seek-dontcheck-sends-nothing")
		vhReach("c19-seek-unchecked")
		return
	}
	if whence == SeekAbsolute && off == cur {
		// already there: documented shortcut, no bounds check
		vhAssert(vhAll(err == nil, got == cur, c.offset == cur), "seek-absolute-unchanged")
		return
	}
	if target < first || target > last {
		vhAssert(err == OffsetOutOfRange, "seek-out-of-range-is-reported")
		vhAssert(c.offset == cur, "seek-out-of-range-keeps-position")
		vhReach("c19-seek-out-of-range")
	} else {
		vhAssert(err == nil, "seek-in-range-succeeds")
		vhAssert(vhAll(got == target, c.offset == target), "seek-position")
		vhReach("c19-seek-in-range")
	}
}

// H2: ReadOffsets / ReadFirstOffset / ReadLastOffset / ReadOffset(time) return the broker's values, a
// per-partition error is reported as that error.
func VH_C19_ReadOffsets() {
	first := vhInt64("first")
	last := vhInt64("last")
	code := vhInt16("error_on_last")
	f1 := vhListOffsetsFrame(1, "t", 0, 0, -1, first)
	f2 := vhListOffsetsFrame(2, "t", 0, code, -1, last)
	fc := &vhFakeConn{data: append(append([]byte{}, f1...), f2...)}
	c := NewConnWith(fc, ConnConfig{Topic: "t", Partition: 3, ClientID: "vh"})
	a, b, err := c.ReadOffsets()
	if code == 0 {
		vhAssert(vhAll(err == nil, a == first, b == last), "readoffsets-values")
		vhReach("c19-readoffsets-ok")
	} else {
		vhAssert(err == Error(code), "readoffsets-error-is-the-partition-error")
		vhAssert(vhAll(a == 0, b == 0), "readoffsets-no-values-on-error")
		vhReach("c19-readoffsets-error")
	}
	// the requests asked for the partition of the connection with the FirstOffset / LastOffset sentinels
	r1 := vhParseListOffsetsRequest(fc.written)
	vhAssert(vhAll(r1.ok, r1.partition == 3, r1.topic == "t", r1.timestamp == FirstOffset), "readoffsets-first-request")
}

type vhListOffsetsReq struct {
	ok        bool
	corr      int32
	topic     string
	partition int32
	timestamp int64
	next      []byte
}

// vhParseListOffsetsRequest decodes one ListOffsets v1 request frame by hand (protocol guide layout).
func vhParseListOffsetsRequest(b []byte) (r vhListOffsetsReq) {
	if len(b) < 4 {
		return
	}
	size := int(vhBE32(b))
	if len(b) < 4+size {
		return
	}
	body := b[4 : 4+size]
	r.next = b[4+size:]
	p := 0
	i16 := func() int16 { v := int16(uint16(body[p])<<8 | uint16(body[p+1])); p += 2; return v }
	i32 := func() int32 { v := vhBE32(body[p:]); p += 4; return v }
	i64 := func() int64 { hi := int64(vhBE32(body[p:])); lo := int64(uint32(vhBE32(body[p+4:]))); p += 8; return hi<<32 | lo }
	str := func() string { n := int(i16()); s := string(body[p : p+n]); p += n; return s }
	if i16() != 2 || i16() != 1 { // api key ListOffsets, version 1
		return
	}
	r.corr = i32()
	_ = str() // client id
	if i32() != -1 { // replica id
		return
	}
	if i32() != 1 {
		return
	}
	r.topic = str()
	if i32() != 1 {
		return
	}
	r.partition = i32()
	r.timestamp = i64()
	r.ok = p == len(body)
	return
}

func vhBE32(b []byte) int32 {
	return int32(uint32(b[0])<<24 | uint32(b[1])<<16 | uint32(b[2])<<8 | uint32(b[3]))
}

// H4: Client.ListOffsets mapping. The fake transport is the cluster: per (topic, partition) it holds symbolic
// first/last offsets, one timestamped offset, and an error code on one chosen partition.
type vhOffsetsCluster struct {
	first, last, timed map[string][]int64
	errTopic           string
	errPartition       int
	errCode            int16
	timeMs             int64
}

func (c *vhOffsetsCluster) RoundTrip(ctx context.Context, addr net.Addr, req Request) (Response, error) {
	r := req.(*plistoffsets.Request)
	res := &plistoffsets.Response{}
	for _, t := range r.Topics {
		rt := plistoffsets.ResponseTopic{Topic: t.Topic}
		for _, p := range t.Partitions {
			rp := plistoffsets.ResponsePartition{Partition: p.Partition, Timestamp: p.Timestamp}
			switch p.Timestamp {
			case FirstOffset:
				rp.Offset = c.first[t.Topic][p.Partition]
			case LastOffset:
				rp.Offset = c.last[t.Topic][p.Partition]
			default:
				rp.Offset = c.timed[t.Topic][p.Partition]
			}
			if t.Topic == c.errTopic && int(p.Partition) == c.errPartition {
				rp.ErrorCode = c.errCode
			}
			rt.Partitions = append(rt.Partitions, rp)
		}
		res.Topics = append(res.Topics, rt)
	}
	return res, nil
}

func VH_C19_ClientListOffsets(T, P int) {
	vhConcreteClock(true)
	cl := &vhOffsetsCluster{first: map[string][]int64{}, last: map[string][]int64{}, timed: map[string][]int64{}, timeMs: 5000}
	req := &ListOffsetsRequest{Topics: map[string][]OffsetRequest{}}
	for t := 0; t < T; t++ {
		name := vhTopicName(t)
		for p := 0; p < P; p++ {
			cl.first[name] = append(cl.first[name], vhInt64("first"))
			cl.last[name] = append(cl.last[name], vhInt64("last"))
			cl.timed[name] = append(cl.timed[name], vhInt64("timed"))
			req.Topics[name] = append(req.Topics[name], FirstOffsetOf(p), LastOffsetOf(p))
		}
	}
	// one partition is additionally asked for a time-based offset, one partition carries an error
	tt, tp := vhChoose("timed_topic", T), vhChoose("timed_partition", P)
	req.Topics[vhTopicName(tt)] = append(req.Topics[vhTopicName(tt)], TimeOffsetOf(tp, time.Unix(5, 0)))
	cl.errTopic, cl.errPartition, cl.errCode = vhTopicName(vhChoose("err_topic", T)), vhChoose("err_partition", P), vhInt16("err_code")
	vhAssume(cl.errCode != 0)
	c := &Client{Addr: TCP("vh:9092"), Transport: cl}
	res, err := c.ListOffsets(context.Background(), req)
	vhAssert(err == nil, "listoffsets-roundtrip-ok")
	for t := 0; t < T; t++ {
		name := vhTopicName(t)
		vhAssert(len(res.Topics[name]) == P, "one-entry-per-requested-partition")
		for p := 0; p < P; p++ {
			var po *PartitionOffsets
			for i := range res.Topics[name] {
				if res.Topics[name][i].Partition == p {
					po = &res.Topics[name][i]
				}
			}
			vhAssert(po != nil, "partition-present")
			if po == nil {
				continue
			}
			vhAssert(vhAll(po.FirstOffset == cl.first[name][p], po.LastOffset == cl.last[name][p]), "first-and-last-offsets-are-the-brokers")
			if t == tt && p == tp {
				vhAssert(len(po.Offsets) == 1, "timed-offset-reported-on-its-partition")
				ts, ok := po.Offsets[cl.timed[name][p]]
				vhAssert(ok && ts.Equal(time.Unix(5, 0)), "timed-offset-value")
			} else {
				vhAssert(len(po.Offsets) == 0, "no-timed-offset-on-other-partitions")
			}
			if name == cl.errTopic && p == cl.errPartition {
				vhAssert(po.Error != nil && errors.Is(po.Error, Error(cl.errCode)), "error-reported-on-its-partition")
			} else {
				vhAssert(po.Error == nil, "error-does-not-leak-to-other-partitions")
			}
		}
	}
	vhReach("c19-client-listoffsets")
}

// ---- Client.Metadata / OffsetFetch / OffsetCommit: the answer of the broker (a protocol message with symbolic
// values, returned by a fake RoundTripper that also records the request) is mapped field by field ----

type vhScriptedBroker struct {
	answer Response
	asked  Request
}

func (b *vhScriptedBroker) RoundTrip(ctx context.Context, addr net.Addr, req Request) (Response, error) {
	b.asked = req
	return b.answer, nil
}

func VH_C19_ClientMetadata(B, P int) {
	res := &pmetadata.Response{ControllerID: vhInt32("controller"), ClusterID: "c"}
	for i := 0; i < B; i++ {
		res.Brokers = append(res.Brokers, pmetadata.ResponseBroker{NodeID: vhInt32("broker_id"), Host: vhString("host", 1), Port: vhInt32("port"), Rack: vhString("rack", 1)})
	}
	for i := 0; i < B; i++ {
		for j := i + 1; j < B; j++ {
			vhAssume(res.Brokers[i].NodeID != res.Brokers[j].NodeID)
		}
	}
	topic := pmetadata.ResponseTopic{Name: "t", ErrorCode: vhInt16("topic_error"), IsInternal: vhBool("internal")}
	leaders := make([]int, P)
	errPartition, errCode := vhChoose("err_partition", P), vhInt16("err_code")
	vhAssume(errCode != 0)
	for p := 0; p < P; p++ {
		leaders[p] = vhChoose("leader", B)
		rp := pmetadata.ResponsePartition{PartitionIndex: int32(p), LeaderID: res.Brokers[leaders[p]].NodeID}
		// replicas: every broker, rotated by p; in-sync: the leader only
		for k := 0; k < B; k++ {
			rp.ReplicaNodes = append(rp.ReplicaNodes, res.Brokers[(p+k)%B].NodeID)
		}
		rp.IsrNodes = []int32{res.Brokers[leaders[p]].NodeID}
		if p == errPartition {
			rp.ErrorCode = errCode
		}
		topic.Partitions = append(topic.Partitions, rp)
	}
	res.Topics = []pmetadata.ResponseTopic{topic}
	br := &vhScriptedBroker{answer: res}
	c := &Client{Addr: TCP("vh:9092"), Transport: br}
	got, err := c.Metadata(context.Background(), &MetadataRequest{Topics: []string{"t"}})
	vhAssert(err == nil && got != nil, "metadata-roundtrip-ok")
	asked, _ := br.asked.(*pmetadata.Request)
	vhAssert(asked != nil && len(asked.TopicNames) == 1 && asked.TopicNames[0] == "t", "metadata-request-names-the-topics")
	same := func(b Broker, i int) bool {
		w := res.Brokers[i]
		return vhAll(b.ID == int(w.NodeID), b.Port == int(w.Port), vhStrEq(b.Host, w.Host), vhStrEq(b.Rack, w.Rack))
	}
	vhAssert(len(got.Brokers) == B, "metadata-broker-count")
	for i := 0; i < B && i < len(got.Brokers); i++ {
		vhAssert(same(got.Brokers[i], i), "metadata-brokers-are-the-clusters")
		if res.Brokers[i].NodeID == res.ControllerID {
			vhAssert(same(got.Controller, i), "metadata-controller-is-the-broker-with-the-controller-id")
		}
	}
	vhAssert(len(got.Topics) == 1 && len(got.Topics[0].Partitions) == P, "metadata-topic-and-partition-count")
	gt := got.Topics[0]
	vhAssert(vhAll(gt.Name == "t", gt.Internal == topic.IsInternal), "metadata-topic-fields")
	if topic.ErrorCode == 0 {
		vhAssert(gt.Error == nil, "metadata-no-topic-error")
	} else {
		vhAssert(gt.Error != nil && errors.Is(gt.Error, Error(topic.ErrorCode)), "metadata-topic-error-is-the-brokers")
	}
	for p := 0; p < P && p < len(gt.Partitions); p++ {
		gp := gt.Partitions[p]
		vhAssert(vhAll(gp.Topic == "t", gp.ID == p), "metadata-partition-identity")
		vhAssert(same(gp.Leader, leaders[p]), "metadata-leader-is-the-broker-with-the-leader-id")
		vhAssert(len(gp.Replicas) == B && len(gp.Isr) == 1, "metadata-replica-and-isr-count")
		for k := 0; k < B && k < len(gp.Replicas); k++ {
			vhAssert(same(gp.Replicas[k], (p+k)%B), "metadata-replicas-in-order")
		}
		if len(gp.Isr) == 1 {
			vhAssert(same(gp.Isr[0], leaders[p]), "metadata-isr")
		}
		if p == errPartition {
			vhAssert(gp.Error != nil && errors.Is(gp.Error, Error(errCode)), "metadata-partition-error-on-its-partition")
		} else {
			vhAssert(gp.Error == nil, "metadata-partition-error-does-not-leak")
		}
	}
	vhReach("c19-client-metadata")
}

func VH_C19_ClientOffsetFetch(T, P int) {
	res := &poffsetfetch.Response{ErrorCode: vhInt16("group_error")}
	req := &OffsetFetchRequest{GroupID: "g", Topics: map[string][]int{}}
	committed := map[string][]int64{}
	errTopic, errPartition, errCode := vhChoose("err_topic", T), vhChoose("err_partition", P), vhInt16("err_code")
	vhAssume(errCode != 0)
	for t := 0; t < T; t++ {
		name := vhTopicName(t)
		rt := poffsetfetch.ResponseTopic{Name: name}
		for p := 0; p < P; p++ {
			off := vhInt64("committed")
			committed[name] = append(committed[name], off)
			rp := poffsetfetch.ResponsePartition{PartitionIndex: int32(p), CommittedOffset: off, Metadata: vhString("meta", 1)}
			if t == errTopic && p == errPartition {
				rp.ErrorCode = errCode
			}
			rt.Partitions = append(rt.Partitions, rp)
			req.Topics[name] = append(req.Topics[name], p)
		}
		res.Topics = append(res.Topics, rt)
	}
	br := &vhScriptedBroker{answer: res}
	c := &Client{Addr: TCP("vh:9092"), Transport: br}
	got, err := c.OffsetFetch(context.Background(), req)
	vhAssert(err == nil && got != nil, "offsetfetch-roundtrip-ok")
	asked, _ := br.asked.(*poffsetfetch.Request)
	vhAssert(asked != nil && asked.GroupID == "g" && len(asked.Topics) == T, "offsetfetch-request-names-group-and-topics")
	for _, at := range asked.Topics {
		vhAssert(len(at.PartitionIndexes) == P, "offsetfetch-request-lists-the-partitions")
		for i, idx := range at.PartitionIndexes {
			vhAssert(int(idx) == i, "offsetfetch-request-partition-indexes")
		}
	}
	if res.ErrorCode == 0 {
		vhAssert(got.Error == nil, "offsetfetch-no-group-error")
	} else {
		vhAssert(got.Error != nil && errors.Is(got.Error, Error(res.ErrorCode)), "offsetfetch-group-error-is-the-brokers")
	}
	for t := 0; t < T; t++ {
		name := vhTopicName(t)
		vhAssert(len(got.Topics[name]) == P, "offsetfetch-one-entry-per-partition")
		for p := 0; p < P && p < len(got.Topics[name]); p++ {
			gp := got.Topics[name][p]
			vhAssert(vhAll(gp.Partition == p, gp.CommittedOffset == committed[name][p], vhStrEq(gp.Metadata, res.Topics[t].Partitions[p].Metadata)), "offsetfetch-committed-offset-is-the-brokers")
			if t == errTopic && p == errPartition {
				vhAssert(gp.Error != nil && errors.Is(gp.Error, Error(errCode)), "offsetfetch-error-on-its-partition")
			} else {
				vhAssert(gp.Error == nil, "offsetfetch-error-does-not-leak")
			}
		}
	}
	vhReach("c19-client-offsetfetch")
}

func VH_C19_ClientOffsetCommit(T, P int) {
	vhConcreteClock(true)
	res := &poffsetcommit.Response{}
	req := &OffsetCommitRequest{GroupID: "g", GenerationID: int(vhInt32("generation")), MemberID: "m", Topics: map[string][]OffsetCommit{}}
	offsets := map[string][]int64{}
	errTopic, errPartition, errCode := vhChoose("err_topic", T), vhChoose("err_partition", P), vhInt16("err_code")
	vhAssume(errCode != 0)
	for t := 0; t < T; t++ {
		name := vhTopicName(t)
		rt := poffsetcommit.ResponseTopic{Name: name}
		for p := 0; p < P; p++ {
			off := vhInt64("offset")
			offsets[name] = append(offsets[name], off)
			req.Topics[name] = append(req.Topics[name], OffsetCommit{Partition: p, Offset: off, Metadata: "x"})
			rp := poffsetcommit.ResponsePartition{PartitionIndex: int32(p)}
			if t == errTopic && p == errPartition {
				rp.ErrorCode = errCode
			}
			rt.Partitions = append(rt.Partitions, rp)
		}
		res.Topics = append(res.Topics, rt)
	}
	br := &vhScriptedBroker{answer: res}
	c := &Client{Addr: TCP("vh:9092"), Transport: br}
	got, err := c.OffsetCommit(context.Background(), req)
	vhAssert(err == nil && got != nil, "offsetcommit-roundtrip-ok")
	asked, _ := br.asked.(*poffsetcommit.Request)
	vhAssert(asked != nil && asked.GroupID == "g" && asked.MemberID == "m" && int(asked.GenerationID) == req.GenerationID && len(asked.Topics) == T, "offsetcommit-request-identity")
	for _, at := range asked.Topics {
		vhAssert(len(at.Partitions) == P, "offsetcommit-request-lists-the-partitions")
		for i, ap := range at.Partitions {
			vhAssert(vhAll(int(ap.PartitionIndex) == i, ap.CommittedOffset == offsets[at.Name][i], ap.CommittedMetadata == "x"), "offsetcommit-request-carries-the-offsets")
		}
	}
	for t := 0; t < T; t++ {
		name := vhTopicName(t)
		vhAssert(len(got.Topics[name]) == P, "offsetcommit-one-entry-per-partition")
		for p := 0; p < P && p < len(got.Topics[name]); p++ {
			gp := got.Topics[name][p]
			vhAssert(gp.Partition == p, "offsetcommit-partition-identity")
			if t == errTopic && p == errPartition {
				vhAssert(gp.Error != nil && errors.Is(gp.Error, Error(errCode)), "offsetcommit-error-on-its-partition")
			} else {
				vhAssert(gp.Error == nil, "offsetcommit-error-does-not-leak")
			}
		}
	}
	vhReach("c19-client-offsetcommit")
}

// ListOffsets fan-out: Request.Split produces one sub-request per topic/partition; Response.Merge puts the
// answers back together. One sub-request fails at transport level (unreachable leader), anywhere.
func VH_C19_ListOffsetsSplitMerge(T, P int) {
	req := &plistoffsets.Request{ReplicaID: -1}
	type key struct {
		t string
		p int32
	}
	asked := map[key]int64{}
	for t := 0; t < T; t++ {
		rt := plistoffsets.RequestTopic{Topic: vhTopicName(t)}
		for p := 0; p < P; p++ {
			ts := vhInt64("timestamp")
			rt.Partitions = append(rt.Partitions, plistoffsets.RequestPartition{Partition: int32(p), Timestamp: ts})
			asked[key{rt.Topic, int32(p)}] = ts
		}
		req.Topics = append(req.Topics, rt)
	}
	msgs, merger, err := req.Split(protocol.Cluster{})
	vhAssert(err == nil && len(msgs) == T*P, "one-sub-request-per-topic-partition")
	failing := vhChoose("unreachable_leader", len(msgs))
	results := make([]interface{}, len(msgs))
	offsets := map[key]int64{}
	for i, m := range msgs {
		sub := m.(*plistoffsets.Request)
		vhAssert(len(sub.Topics) == 1 && len(sub.Topics[0].Partitions) == 1, "sub-request-names-exactly-one-partition")
		k := key{sub.Topics[0].Topic, sub.Topics[0].Partitions[0].Partition}
		vhAssert(sub.Topics[0].Partitions[0].Timestamp == asked[k], "sub-request-carries-the-requested-timestamp")
		if i == failing {
			results[i] = vhErrCoordinator
			offsets[k] = -1
			continue
		}
		off := vhInt64("offset")
		offsets[k] = off
		results[i] = &plistoffsets.Response{Topics: []plistoffsets.ResponseTopic{{Topic: k.t, Partitions: []plistoffsets.ResponsePartition{{Partition: k.p, Timestamp: -1, Offset: off}}}}}
	}
	fk := func() key {
		sub := msgs[failing].(*plistoffsets.Request)
		return key{sub.Topics[0].Topic, sub.Topics[0].Partitions[0].Partition}
	}()
	out, merr := merger.Merge(msgs, results)
	vhAssert(merr == nil && out != nil, "merge-succeeds-when-some-sub-requests-succeeded")
	res := out.(*plistoffsets.Response)
	vhAssert(len(res.Topics) == T, "every-topic-present-in-the-merged-response")
	for t := 0; t < T && t < len(res.Topics); t++ {
		rt := res.Topics[t]
		vhAssert(rt.Topic == vhTopicName(t), "topics-sorted-by-name")
		vhAssert(len(rt.Partitions) == P, "every-partition-present-in-the-merged-response")
		for p := 0; p < P && p < len(rt.Partitions); p++ {
			rp := rt.Partitions[p]
			k := key{rt.Topic, int32(p)}
			vhAssert(rp.Partition == int32(p), "partitions-sorted")
			if k == fk {
				vhAssert(rp.ErrorCode != 0, "failure-reported-on-its-partition")
			} else {
				vhAssert(vhAll(rp.ErrorCode == 0, rp.Offset == offsets[k], rp.Timestamp == asked[k]), "other-partitions-report-their-own-offset-and-requested-timestamp")
			}
		}
	}
	vhReach("c19-listoffsets-split-merge")
}

// Client.ConsumerOffsets: metadata then offset fetch; the result maps every partition of the topic to the group's
// committed offset as the coordinator reports it; the offset fetch asks for exactly the partitions of the topic.
type vhOffsetsBroker struct {
	partitions []int32
	committed  map[int32]int64
	askedGroup string
	askedParts []int32
}

func (b *vhOffsetsBroker) RoundTrip(ctx context.Context, addr net.Addr, req Request) (Response, error) {
	switch r := req.(type) {
	case *pmetadata.Request:
		t := pmetadata.ResponseTopic{Name: r.TopicNames[0]}
		for _, p := range b.partitions {
			t.Partitions = append(t.Partitions, pmetadata.ResponsePartition{PartitionIndex: p})
		}
		return &pmetadata.Response{Topics: []pmetadata.ResponseTopic{t}}, nil
	case *poffsetfetch.Request:
		b.askedGroup = r.GroupID
		rt := poffsetfetch.ResponseTopic{Name: r.Topics[0].Name}
		for _, p := range r.Topics[0].PartitionIndexes {
			b.askedParts = append(b.askedParts, p)
			rt.Partitions = append(rt.Partitions, poffsetfetch.ResponsePartition{PartitionIndex: p, CommittedOffset: b.committed[p]})
		}
		return &poffsetfetch.Response{Topics: []poffsetfetch.ResponseTopic{rt}}, nil
	}
	return nil, vhErrCoordinator
}

func VH_C19_ConsumerOffsets(P int) {
	br := &vhOffsetsBroker{committed: map[int32]int64{}}
	for p := 0; p < P; p++ {
		id := int32(p) * 2 // partition ids need not be dense
		br.partitions = append(br.partitions, id)
		br.committed[id] = vhInt64("committed")
	}
	c := &Client{Addr: TCP("vh:9092"), Transport: br}
	got, err := c.ConsumerOffsets(context.Background(), TopicAndGroup{Topic: "t", GroupId: "g"})
	vhAssert(err == nil, "consumer-offsets-ok")
	vhAssert(br.askedGroup == "g" && len(br.askedParts) == P, "offset-fetch-asks-for-the-group-and-every-partition-of-the-topic")
	vhAssert(len(got) == P, "one-entry-per-partition")
	for _, id := range br.partitions {
		off, ok := got[int(id)]
		vhAssert(ok && off == br.committed[id], "consumer-offset-is-the-coordinators-committed-offset")
	}
	vhReach("c19-consumer-offsets")
}

// Conn.ReadPartitions without a topic - called with no argument or with an empty, non-nil list - asks the broker for
// every topic (null array on the wire; a zero-length array would mean "no topic") and returns the cluster's
// partitions; with a topic bound to the connection it asks for that topic.
func VH_C19_ReadPartitionsRequest(version, variant int) {
	leader := vhInt32("leader")
	f1 := vhApiVersionsFrame(1, []vhApiRange{{int16(metadata), 0, int16(version)}})
	f2 := vhMetadataResponse(2, version, "t", 0, 0, leader)
	fc := &vhFakeConn{data: append(append([]byte{}, f1...), f2...)}
	cfg := ConnConfig{ClientID: "vh"}
	if variant == 2 {
		cfg.Topic = "t"
	}
	c := NewConnWith(fc, cfg)
	var parts []Partition
	var err error
	if variant == 1 {
		parts, err = c.ReadPartitions([]string{}...)
	} else {
		parts, err = c.ReadPartitions()
	}
	vhAssert(err == nil && len(parts) == 1, "read-partitions-returns-the-clusters-partitions")
	if len(parts) == 1 {
		vhAssert(vhAll(parts[0].Topic == "t", parts[0].ID == 0, parts[0].Leader.ID == int(leader), len(parts[0].Replicas) == 1, len(parts[0].Isr) == 1), "partition-values-are-the-brokers")
	}
	// second request on the wire: metadata; after the header (size 4, key 2, version 2, corr 4, client id 2+2) the
	// topics array
	w := fc.written
	first := 4 + int(vhBE32(w))
	body := w[first+4+2+2+4+2+2:]
	n := vhBE32(body)
	if variant == 2 {
		vhAssert(n == 1, "bound-topic-is-asked-for")
	} else {
		vhAssert(n == -1, "all-topics-are-asked-for-with-a-null-array")
	}
	vhReach("c19-read-partitions-request")
}

// C19 wire level: an OffsetFetch response hand-encoded from the protocol guide (versions 0-5: the group-level
// error_code exists from v2, throttle_time_ms from v3, committed_leader_epoch in v5) is decoded by
// protocol.ReadResponse into exactly the broker's values - in particular a group-level error that comes with no
// topics, as brokers send it, is not lost at any version that carries it.
func VH_C19_OffsetFetchWire(version int) {
	groupErr := vhInt16("group_error")
	committed := vhInt64("committed_offset")
	partErr := vhInt16("partition_error")
	epoch := vhInt32("leader_epoch")
	withTopic := vhBool("response_lists_a_topic")
	w := &vhW{}
	if version >= 3 {
		w.i32(0)
	}
	if withTopic {
		w.i32(1)
		w.str("t")
		w.i32(1)
		w.i32(0)
		w.i64(committed)
		if version >= 5 {
			w.i32(epoch)
		}
		w.str("m")
		w.i16(partErr)
	} else {
		w.i32(0)
	}
	if version >= 2 {
		w.i16(groupErr)
	}
	frame := vhFrameOf(9, w.b)
	rd := bufio.NewReader(bytes.NewReader(append(append([]byte{}, frame...), 0xAA)))
	id, msg, err := protocol.ReadResponse(rd, protocol.OffsetFetch, int16(version))
	vhAssert(err == nil && id == 9, "offsetfetch-wire-read-ok")
	vhAssert(rd.Buffered() == 1, "offsetfetch-wire-consumes-exactly-one-frame")
	res, ok := msg.(*poffsetfetch.Response)
	vhAssert(ok, "offsetfetch-wire-type")
	if !ok {
		return
	}
	if version >= 2 {
		vhAssert(res.ErrorCode == groupErr, "offsetfetch-wire-group-error-is-the-brokers")
	}
	if withTopic {
		vhAssert(len(res.Topics) == 1 && len(res.Topics[0].Partitions) == 1, "offsetfetch-wire-one-partition")
		if len(res.Topics) == 1 && len(res.Topics[0].Partitions) == 1 {
			p := res.Topics[0].Partitions[0]
			vhAssert(vhAll(res.Topics[0].Name == "t", p.PartitionIndex == 0, p.CommittedOffset == committed, p.Metadata == "m", p.ErrorCode == partErr), "offsetfetch-wire-partition-is-the-brokers")
			if version >= 5 {
				vhAssert(p.ComittedLeaderEpoch == epoch, "offsetfetch-wire-leader-epoch")
			}
		}
	} else {
		vhAssert(len(res.Topics) == 0, "offsetfetch-wire-no-topics")
	}
	vhReach("c19-offsetfetch-wire")
}

// C19: a ListOffsets query over partitions led by two brokers of which one never answers before the caller's
// deadline: the answer received from the other leader is reported (its offset exactly), the silent leader's partition
// gets an error of its own - the whole query is not turned into a failure and no offset is invented.
func VH_C19_JoinedAwait(order int) {
	vhConcreteClock(true)
	cluster := protocol.Cluster{Brokers: map[int32]protocol.Broker{}, Topics: map[string]protocol.Topic{}}
	for id := int32(1); id <= 2; id++ {
		cluster.Brokers[id] = protocol.Broker{ID: id, Host: "h", Port: 9092 + id}
	}
	cluster.Topics["t"] = protocol.Topic{Name: "t", Partitions: map[int32]protocol.Partition{0: {ID: 0, Leader: 1}, 1: {ID: 1, Leader: 2}}}
	req := &plistoffsets.Request{ReplicaID: -1, Topics: []plistoffsets.RequestTopic{{Topic: "t", Partitions: []plistoffsets.RequestPartition{{Partition: 0, Timestamp: -1}, {Partition: 1, Timestamp: -1}}}}}
	msgs, merger, err := req.Split(cluster)
	vhAssert(err == nil && len(msgs) == 2, "split-in-two")
	if err != nil || len(msgs) != 2 {
		return
	}
	offset := vhInt64("offset_reported_by_the_answering_leader")
	promises := make([]promise, 2)
	requests := make([]Request, 2)
	answered := int32(order) // the partition whose leader answers
	answeredFirst := false
	for i, m := range msgs {
		sub := m.(*plistoffsets.Request)
		requests[i] = sub
		a := make(async, 1)
		promises[i] = a
		if sub.Topics[0].Partitions[0].Partition == answered {
			a.resolve(&plistoffsets.Response{Topics: []plistoffsets.ResponseTopic{{Topic: "t", Partitions: []plistoffsets.ResponsePartition{{Partition: answered, Timestamp: -1, Offset: offset}}}}})
			answeredFirst = i == 0
		}
	}
	ctx, cancel := context.WithTimeout(context.Background(), time.Second)
	defer cancel()
	res, aerr := join(promises, requests, merger).await(ctx)
	// The answer that is collected while the caller's context is still alive (the sub-request awaited first) must be
	// reported. Once the context has ended, an answer that is ready competes with the context in a select: both
	// outcomes are legitimate there, and so is failing the whole query when nothing was collected - but an offset
	// that is reported without an error is always the leader's.
	if answeredFirst {
		vhAssert(aerr == nil && res != nil, "an-answer-collected-before-the-deadline-is-reported")
	}
	if aerr != nil || res == nil {
		vhReach("c19-joined-await")
		return
	}
	out := res.(*plistoffsets.Response)
	seen := 0
	for _, t := range out.Topics {
		for _, p := range t.Partitions {
			seen++
			if p.Partition == answered {
				vhAssert(p.ErrorCode != 0 || p.Offset == offset, "answered-partition-reports-the-leaders-offset-or-an-error")
				if answeredFirst {
					vhAssert(p.ErrorCode == 0 && p.Offset == offset, "answered-partition-reports-the-leaders-offset")
				}
			} else {
				vhAssert(p.ErrorCode != 0, "silent-leaders-partition-reports-an-error")
			}
		}
	}
	vhAssert(seen == 2, "every-requested-partition-is-reported")
	vhReach("c19-joined-await")
}
