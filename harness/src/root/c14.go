package kafka

// C14: group balancers assign every partition to exactly one subscriber, evenly.
//
// Members have symbolic, pairwise distinct 1-byte ids (so the sort inside findMembersByTopic explores every
// relative order, the order being carried by the values); subscriptions are symbolic booleans; partition ids are
// concrete (the balancers never inspect them) so positions in the listing are known; counts are per work item.

func vhMembers(M, T int, allSubscribed bool) ([]GroupMember, [][]bool) {
	members := make([]GroupMember, M)
	subs := make([][]bool, M)
	for i := range members {
		members[i].ID = vhString("member", 1)
		for j := 0; j < i; j++ {
			vhAssume(members[i].ID != members[j].ID)
		}
		subs[i] = make([]bool, T)
		for t := 0; t < T; t++ {
			s := true
			if !allSubscribed {
				s = vhBool("subscribed")
			}
			subs[i][t] = s
			if s {
				members[i].Topics = append(members[i].Topics, vhTopicName(t))
			}
		}
	}
	return members, subs
}

func vhTopicName(t int) string { return string([]byte{byte('A' + t)}) }

func vhPartitions(T, P int) []Partition {
	var parts []Partition
	for t := 0; t < T; t++ {
		for k := 0; k < P; k++ {
			parts = append(parts, Partition{Topic: vhTopicName(t), ID: 100*t + k})
		}
	}
	return parts
}

func vhContains(l []int, x int) bool {
	for _, e := range l {
		if e == x {
			return true
		}
	}
	return false
}

// vhCheckPartition: the common part of the property for one topic: exactly-once, only subscribers, evenness.
func vhCheckTopic(asg GroupMemberAssignments, members []GroupMember, subs [][]bool, t, P int, what string) {
	topic := vhTopicName(t)
	nsub := 0
	for i := range members {
		if subs[i][t] {
			nsub++
		}
	}
	minLoad, maxLoad := 1<<30, -1
	for k := 0; k < P; k++ {
		owners := 0
		for i := range members {
			if vhContains(asg[members[i].ID][topic], 100*t+k) {
				owners++
				vhAssert(subs[i][t], what+"-owner-subscribes-to-topic")
			}
		}
		if nsub > 0 {
			vhAssert(owners == 1, what+"-partition-assigned-exactly-once")
		} else {
			vhAssert(owners == 0, what+"-unsubscribed-topic-not-assigned")
		}
	}
	for i := range members {
		l := asg[members[i].ID][topic]
		if !subs[i][t] {
			vhAssert(len(l) == 0, what+"-nothing-for-non-subscriber")
			continue
		}
		for _, e := range l {
			vhAssert(e >= 100*t && e < 100*t+P, what+"-only-partitions-of-the-topic")
		}
		if len(l) < minLoad {
			minLoad = len(l)
		}
		if len(l) > maxLoad {
			maxLoad = len(l)
		}
	}
	if nsub > 0 {
		vhAssert(maxLoad-minLoad <= 1, what+"-loads-differ-by-at-most-one")
	}
}

func vhReverse(ms []GroupMember) []GroupMember {
	r := make([]GroupMember, len(ms))
	for i := range ms {
		r[len(ms)-1-i] = ms[i]
	}
	return r
}

func vhSameLists(a, b []int) bool {
	if len(a) != len(b) {
		return false
	}
	for i := range a {
		if a[i] != b[i] {
			return false
		}
	}
	return true
}

// kind 0 = Range, 1 = RoundRobin
func VH_C14_RangeRoundRobin(kind, M, P, T int) {
	members, subs := vhMembers(M, T, false)
	parts := vhPartitions(T, P)
	var bal GroupBalancer = RangeGroupBalancer{}
	what := "range"
	if kind == 1 {
		bal = RoundRobinGroupBalancer{}
		what = "roundrobin"
	}
	asg := bal.AssignGroups(members, parts)
	for t := 0; t < T; t++ {
		vhCheckTopic(asg, members, subs, t, P, what)
	}
	// order independence: the same members listed in reverse order get the same assignment
	asg2 := bal.AssignGroups(vhReverse(members), parts)
	for i := range members {
		for t := 0; t < T; t++ {
			vhAssert(vhSameLists(asg[members[i].ID][vhTopicName(t)], asg2[members[i].ID][vhTopicName(t)]), what+"-independent-of-listing-order")
		}
	}
	// shape of each member's share, relative to the order of the member ids
	for t := 0; t < T; t++ {
		topic := vhTopicName(t)
		nsub := 0
		for i := range members {
			if subs[i][t] {
				nsub++
			}
		}
		for i := range members {
			li := asg[members[i].ID][topic]
			if kind == 0 {
				// contiguous run of the listed partitions
				for x := 1; x < len(li); x++ {
					vhAssert(li[x] == li[x-1]+1, "range-contiguous-run")
				}
			} else {
				// every k-th element
				for x := 1; x < len(li); x++ {
					vhAssert(li[x] == li[x-1]+nsub, "roundrobin-every-kth")
				}
			}
			for j := range members {
				lj := asg[members[j].ID][topic]
				if i == j || len(li) == 0 || len(lj) == 0 {
					continue
				}
				// the member with the smaller id gets the earlier partitions
				vhAssert(vhImplies(members[i].ID < members[j].ID, li[0] < lj[0]), what+"-ordered-by-member-id")
			}
		}
	}
	vhReach("c14-" + what)
}

func VH_C14_RackAffinity(M, P, R int) {
	vhMapOrderAll(true)
	members, subs := vhMembers(M, 1, true)
	memberRack := make([]int, M)
	for i := range members {
		memberRack[i] = vhChoose("member_rack", R)
		members[i].UserData = []byte{byte('a' + memberRack[i])}
	}
	parts := vhPartitions(1, P)
	partRack := make([]int, P)
	for k := range parts {
		partRack[k] = vhChoose("leader_rack", R)
		parts[k].Leader.Rack = string([]byte{byte('a' + partRack[k])})
	}
	asg := RackAffinityGroupBalancer{}.AssignGroups(members, parts)
	vhCheckTopic(asg, members, subs, 0, P, "rackaffinity")
	// rack placement: for every rack r, at least min(#partitions led in r, #members in r * floor(P/M)) of the
	// topic's partitions are placed on members of the same rack
	for r := 0; r < R; r++ {
		led, mem, local := 0, 0, 0
		for k := range parts {
			if partRack[k] == r {
				led++
			}
		}
		for i := range members {
			if memberRack[i] != r {
				continue
			}
			mem++
			for _, e := range asg[members[i].ID]["A"] {
				if partRack[e] == r {
					local++
				}
			}
		}
		want := mem * (P / M)
		if led < want {
			want = led
		}
		vhAssert(local >= want, "rackaffinity-in-rack-placement")
	}
	vhReach("c14-rackaffinity")
}

// The leader's side of a rebalance: ConsumerGroup.assignTopicPartitions decodes the members' subscriptions from
// the join response, reads the partitions of every subscribed topic from the broker (which answers only for the
// topics it is asked about) and runs the negotiated balancer. Members subscribe to different topics; the leader
// itself consumes only the first topic.
// vhGroupRecorder is a GroupBalancer that records the members it is given and assigns nothing.
type vhGroupRecorder struct{ members []GroupMember }

func (b *vhGroupRecorder) ProtocolName() string { return "vh-recorder" }
func (b *vhGroupRecorder) UserData() ([]byte, error) { return nil, nil }
func (b *vhGroupRecorder) AssignGroups(members []GroupMember, partitions []Partition) GroupMemberAssignments {
	b.members = append(b.members, members...)
	return GroupMemberAssignments{}
}

// what the leader hands to the negotiated balancer: every member with its id, its topics and the user data it sent
// (the rack, for the rack-affinity balancer) - whatever the version of the subscription that carried them
func VH_C14_LeaderMembers() {
	rec := &vhGroupRecorder{}
	co := &vhCoordinator{filterTopics: true}
	co.parts = []Partition{{Topic: "t1", ID: 0}}
	cg := &ConsumerGroup{config: ConsumerGroupConfig{ID: "g", Topics: []string{"t1"}, GroupBalancers: []GroupBalancer{rec}}}
	join := joinGroupResponse{GroupProtocol: "vh-recorder", LeaderID: "leader", MemberID: "leader"}
	ids := []string{"leader", "m2"}
	data := make([][]byte, len(ids))
	for i, id := range ids {
		data[i] = vhBytes("user_data_of_"+id, 2)
		version := int16(vhChoose("subscription_version_of_"+id, 2))
		join.Members = append(join.Members, joinGroupResponseMember{MemberID: id, MemberMetadata: groupMetadata{Version: version, Topics: []string{"t1"}, UserData: data[i]}.bytes()})
	}
	_, err := cg.assignTopicPartitions(co, join)
	vhAssert(err == nil, "leader-assignment-ok")
	vhAssert(len(rec.members) == len(ids), "balancer-is-given-every-member")
	for i := range ids {
		if i >= len(rec.members) {
			break
		}
		m := rec.members[i]
		vhAssert(m.ID == ids[i] && len(m.Topics) == 1 && m.Topics[0] == "t1", "balancer-is-given-the-members-id-and-topics")
		vhAssert(vhBytesEq(m.UserData, data[i]), "balancer-is-given-the-user-data-the-member-sent")
	}
	vhReach("c14-leader-members")
}

func VH_C14_LeaderAssignment(kind int) {
	protocolName := []string{"range", "roundrobin"}[kind]
	co := &vhCoordinator{filterTopics: true}
	all := []string{"t1", "t2", "t3"}
	for _, t := range all {
		for p := 0; p < 2; p++ {
			co.parts = append(co.parts, Partition{Topic: t, ID: p})
		}
	}
	cg := &ConsumerGroup{config: ConsumerGroupConfig{ID: "g", Topics: []string{"t1"}, GroupBalancers: []GroupBalancer{RangeGroupBalancer{}, RoundRobinGroupBalancer{}}}}
	// every member subscribes to one of these lists (any combination, so that a topic may be named first by a
	// member that lists it after a topic already seen, in either order)
	options := [][]string{{"t1"}, {"t2"}, {"t1", "t2"}, {"t2", "t1"}, {"t1", "t2", "t3"}, {"t3", "t1"}, {"t2", "t3"}}
	subs := map[string][]string{}
	join := joinGroupResponse{GroupProtocol: protocolName, LeaderID: "leader", MemberID: "leader"}
	for _, id := range []string{"leader", "m2", "m3"} {
		subs[id] = options[vhChoose("subscription_of_"+id, len(options))]
		join.Members = append(join.Members, joinGroupResponseMember{MemberID: id, MemberMetadata: groupMetadata{Version: 1, Topics: subs[id]}.bytes()})
	}
	as, err := cg.assignTopicPartitions(co, join)
	vhAssert(err == nil, "leader-assignment-ok")
	for _, t := range all {
		wanted := false
		for _, l := range subs {
			for _, s := range l {
				if s == t {
					wanted = true
				}
			}
		}
		for p := 0; p < 2; p++ {
			owners := 0
			for member, topics := range as {
				for _, q := range topics[t] {
					if q == p {
						owners++
						subscribed := false
						for _, s := range subs[member] {
							if s == t {
								subscribed = true
							}
						}
						vhAssert(subscribed, "leader-assigns-partitions-only-to-subscribers")
					}
				}
			}
			if wanted {
				vhAssert(owners == 1, "every-partition-of-every-subscribed-topic-has-exactly-one-owner")
			} else {
				vhAssert(owners == 0, "partitions-of-a-topic-nobody-subscribed-to-are-not-assigned")
			}
		}
	}
	vhReach("c14-leader-assignment")
}

// Listings as brokers may return them: partition ids sparse and out of order, the partitions of two topics
// interleaved. Every member subscribes to both topics. kind 0 Range, 1 RoundRobin, 2 RackAffinity (no racks).
func VH_C14_SparseListing(kind, M int) {
	members, _ := vhMembers(M, 2, false)
	for i := range members {
		members[i].Topics = []string{"A", "B"}
	}
	listing := []Partition{{Topic: "A", ID: 6}, {Topic: "B", ID: 1}, {Topic: "A", ID: 0}, {Topic: "B", ID: 3}, {Topic: "A", ID: 4}, {Topic: "A", ID: 2}, {Topic: "B", ID: 9}}
	perTopic := map[string][]int{"A": {6, 0, 4, 2}, "B": {1, 3, 9}} // in listing order
	var bal GroupBalancer
	what := ""
	switch kind {
	case 0:
		bal, what = RangeGroupBalancer{}, "sparse-range"
	case 1:
		bal, what = RoundRobinGroupBalancer{}, "sparse-roundrobin"
	default:
		vhMapOrderAll(true)
		bal, what = RackAffinityGroupBalancer{}, "sparse-rackaffinity"
	}
	asg := bal.AssignGroups(members, listing)
	for _, topic := range []string{"A", "B"} {
		ids := perTopic[topic]
		minLoad, maxLoad := 1<<30, -1
		for _, id := range ids {
			owners := 0
			for i := range members {
				if vhContains(asg[members[i].ID][topic], id) {
					owners++
				}
			}
			vhAssert(owners == 1, what+"-every-listed-partition-assigned-exactly-once")
		}
		for i := range members {
			l := asg[members[i].ID][topic]
			for _, e := range l {
				vhAssert(vhContains(ids, e), what+"-only-listed-partitions-are-handed-out")
			}
			if len(l) < minLoad {
				minLoad = len(l)
			}
			if len(l) > maxLoad {
				maxLoad = len(l)
			}
			// shape relative to the listing order
			pos := func(id int) int {
				for k, x := range ids {
					if x == id {
						return k
					}
				}
				return -1
			}
			for x := 1; x < len(l); x++ {
				switch kind {
				case 0:
					vhAssert(pos(l[x]) == pos(l[x-1])+1, "sparse-range-contiguous-run-of-the-listing")
				case 1:
					vhAssert(pos(l[x]) == pos(l[x-1])+M, "sparse-roundrobin-every-kth-of-the-listing")
				}
			}
		}
		vhAssert(maxLoad-minLoad <= 1, what+"-loads-differ-by-at-most-one")
	}
	vhReach("c14-sparse-listing")
}
