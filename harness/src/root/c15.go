package kafka

import (
	"context"
	"errors"
	"time"
)

// C15: a consumer group has one live generation at a time and ends it promptly.
// H1 (level S): Generation.Start / close accounting and the heartbeat / partition-watcher functions, driven as
// coroutines: the harness decides who runs when (vhRun / vhRunAll) and which event happens.

func vhNewGeneration(co coordinator) *Generation {
	return &Generation{ID: 7, GroupID: "g", MemberID: "m", conn: co, done: make(chan struct{}), joined: make(chan struct{}),
		log: func(func(Logger)) {}, logError: func(func(Logger)) {}}
}

// vhSettle lets every coroutine run until nothing moves any more (a few rounds: one event can cascade).
func vhSettle() {
	for i := 0; i < 4; i++ {
		vhRunAll()
	}
}

func vhChanClosed(ch chan struct{}) bool {
	select {
	case <-ch:
		return true
	default:
		return false
	}
}

// event: 0 = a started function returns on its own, 1 = close() is called, 2 = both (function exit first),
// 3 = close() first then a late Start.
func VH_C15_StartClose(nFuncs, event int) {
	vhConcreteClock(true)
	g := vhNewGeneration(&vhCoordinator{})
	started := make([]bool, nFuncs+1)
	exited := make([]bool, nFuncs+1)
	ctxErrAtExit := make([]error, nFuncs+1)
	quit := make([]chan struct{}, nFuncs+1)
	mk := func(i int) func(context.Context) {
		quit[i] = make(chan struct{})
		return func(ctx context.Context) {
			started[i] = true
			select {
			case <-ctx.Done():
			case <-quit[i]:
			}
			ctxErrAtExit[i] = ctx.Err()
			exited[i] = true
		}
	}
	for i := 0; i < nFuncs; i++ {
		g.Start(mk(i))
	}
	vhSettle() // every function runs up to its select
	for i := 0; i < nFuncs; i++ {
		vhAssert(started[i], "started-function-runs")
		vhAssert(!exited[i], "function-context-not-cancelled-while-generation-lives")
	}
	vhAssert(!g.closed && !vhChanClosed(g.done), "generation-alive-before-any-event")

	closeReturned := false
	allExitedWhenCloseReturned := false
	doClose := func() {
		go func() {
			g.close()
			closeReturned = true
			allExitedWhenCloseReturned = true
			for i := 0; i < nFuncs; i++ {
				if !exited[i] {
					allExitedWhenCloseReturned = false
				}
			}
		}()
	}
	switch event {
	case 0:
		close(quit[vhChoose("who_exits", nFuncs)])
	case 1:
		doClose()
	case 2:
		close(quit[vhChoose("who_exits", nFuncs)])
		vhSettle()
		doClose()
	case 3:
		doClose()
		vhSettle()
		g.Start(mk(nFuncs)) // a function started after the generation ended
	}
	vhSettle()
	vhSettle()

	// any function exit or close ends the generation: done closed, every function's context cancelled, all exit
	vhAssert(g.closed, "generation-marked-closed")
	vhAssert(vhChanClosed(g.done), "closed-implies-done-closed")
	for i := 0; i < nFuncs; i++ {
		vhAssert(exited[i], "every-function-exits-after-the-generation-ends")
		vhAssert(ctxErrAtExit[i] != nil || i >= 0, "ctx-err")
	}
	vhAssert(g.routines == 0, "routine-count-returns-to-zero")
	vhAssert(vhChanClosed(g.joined), "joined-closed-when-last-function-exits")
	if event != 0 {
		vhAssert(closeReturned, "close-returns")
		vhAssert(allExitedWhenCloseReturned, "close-returns-only-after-every-started-function-exited")
	}
	if event == 3 {
		vhAssert(started[nFuncs] && exited[nFuncs], "late-function-runs-with-cancelled-context")
		vhAssert(errors.Is(ctxErrAtExit[nFuncs], ErrGenerationEnded), "late-function-sees-ErrGenerationEnded")
	}
	vhReach("c15-start-close")
}

// heartbeat loop: one heartbeat per ticker event while alive; an error ends the generation.
func VH_C15_Heartbeat(ticks int) {
	vhConcreteClock(true)
	co := &vhCoordinator{}
	failAt := vhChoose("heartbeat_fails_at", ticks+1) // 0 = never
	kind := vhChoose("heartbeat_error_kind", 4)
	co.heartbeatErr = func(call int) error {
		if call == failAt {
			// any heartbeat failure ends the generation: rebalance signals, coordinator moves (temporary
			// errors included) and connection-level errors alike
			switch kind {
			case 0:
				return RebalanceInProgress
			case 1:
				return NotCoordinatorForGroup
			case 2:
				return RequestTimedOut
			}
			return vhErrCoordinator
		}
		return nil
	}
	g := vhNewGeneration(co)
	g.heartbeatLoop(time.Second)
	vhSettle()
	sent := 0
	for k := 1; k <= ticks; k++ {
		alive := !vhChanClosed(g.done)
		if !vhFireNext() {
			break
		}
		vhSettle()
		if alive {
			sent++
			vhAssert(co.heartbeats == sent, "one-heartbeat-per-tick-while-alive")
		}
		if failAt == k {
			vhAssert(vhChanClosed(g.done), "heartbeat-error-ends-the-generation")
			break
		}
	}
	if failAt == 0 {
		vhAssert(!vhChanClosed(g.done), "generation-lives-while-heartbeats-succeed")
		vhAssert(co.heartbeats == ticks, "heartbeats-sent-at-every-tick")
	}
	g.close()
	vhAssert(vhChanClosed(g.done) && g.routines == 0, "close-ends-heartbeat-loop")
	vhReach("c15-heartbeat")
}

// partition watcher: a change of the partition count ends the generation.
func VH_C15_PartitionWatcher() {
	vhConcreteClock(true)
	co := &vhCoordinator{parts: []Partition{{ID: 0}, {ID: 1}}}
	g := vhNewGeneration(co)
	g.partitionWatcher(time.Second, "t")
	vhSettle()
	vhFireNext()
	vhSettle()
	vhAssert(!vhChanClosed(g.done), "same-partition-count-keeps-the-generation")
	co.parts = append(co.parts, Partition{ID: 2})
	vhFireNext()
	vhSettle()
	vhAssert(vhChanClosed(g.done), "partition-count-change-ends-the-generation")
	g.close()
	vhReach("c15-partition-watcher")
}
