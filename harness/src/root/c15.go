package kafka

import (
	"context"
	"errors"
	"time"
)

// C15: a consumer group has one live generation at a time and ends it promptly.
// H1 (level S): Generation.Start / close accounting and the heartbeat / partition-watcher functions, driven as
// coroutines: the harness decides who runs when (vhRun / vhRunAll) and which event happens.

func vhNewGeneration(co coordinator) *Generation {
	return &Generation{ID: 7, GroupID: "g", MemberID: "m", conn: co, done: make(chan struct{}), joined: make(chan struct{}),
		log: func(func(Logger)) {}, logError: func(func(Logger)) {}}
}

// vhSettle lets every coroutine run until nothing moves any more (a few rounds: one event can cascade).
func vhSettle() {
	for i := 0; i < 4; i++ {
		vhRunAll()
	}
}

func vhChanClosed(ch chan struct{}) bool {
	select {
	case <-ch:
		return true
	default:
		return false
	}
}

// event: 0 = a started function returns on its own, 1 = close() is called, 2 = both (function exit first),
// 3 = close() first then a late Start.
func VH_C15_StartClose(nFuncs, event int) {
	vhConcreteClock(true)
	g := vhNewGeneration(&vhCoordinator{})
	started := make([]bool, nFuncs+1)
	exited := make([]bool, nFuncs+1)
	ctxErrAtExit := make([]error, nFuncs+1)
	quit := make([]chan struct{}, nFuncs+1)
	mk := func(i int) func(context.Context) {
		quit[i] = make(chan struct{})
		return func(ctx context.Context) {
			started[i] = true
			select {
			case <-ctx.Done():
			case <-quit[i]:
			}
			ctxErrAtExit[i] = ctx.Err()
			exited[i] = true
		}
	}
	for i := 0; i < nFuncs; i++ {
		g.Start(mk(i))
	}
	vhSettle() // every function runs up to its select
	for i := 0; i < nFuncs; i++ {
		vhAssert(started[i], "started-function-runs")
		vhAssert(!exited[i], "function-context-not-cancelled-while-generation-lives")
	}
	vhAssert(!g.closed && !vhChanClosed(g.done), "generation-alive-before-any-event")

	closeReturned := false
	allExitedWhenCloseReturned := false
	doClose := func() {
		go func() {
			g.close()
			closeReturned = true
			allExitedWhenCloseReturned = true
			for i := 0; i < nFuncs; i++ {
				if !exited[i] {
					allExitedWhenCloseReturned = false
				}
			}
		}()
	}
	switch event {
	case 0:
		close(quit[vhChoose("who_exits", nFuncs)])
	case 1:
		doClose()
	case 2:
		close(quit[vhChoose("who_exits", nFuncs)])
		vhSettle()
		doClose()
	case 3:
		doClose()
		vhSettle()
		g.Start(mk(nFuncs)) // a function started after the generation ended
	}
	vhSettle()
	vhSettle()

	// any function exit or close ends the generation: done closed, every function's context cancelled, all exit
	vhAssert(g.closed, "generation-marked-closed")
	vhAssert(vhChanClosed(g.done), "closed-implies-done-closed")
	for i := 0; i < nFuncs; i++ {
		vhAssert(exited[i], "every-function-exits-after-the-generation-ends")
		vhAssert(ctxErrAtExit[i] != nil || i >= 0, "ctx-err")
	}
	vhAssert(g.routines == 0, "routine-count-returns-to-zero")
	vhAssert(vhChanClosed(g.joined), "joined-closed-when-last-function-exits")
	if event != 0 {
		vhAssert(closeReturned, "close-returns")
		vhAssert(allExitedWhenCloseReturned, "close-returns-only-after-every-started-function-exited")
	}
	if event == 3 {
		vhAssert(started[nFuncs] && exited[nFuncs], "late-function-runs-with-cancelled-context")
		vhAssert(errors.Is(ctxErrAtExit[nFuncs], ErrGenerationEnded), "late-function-sees-ErrGenerationEnded")
	}
	vhReach("c15-start-close")
}

// heartbeat loop: one heartbeat per ticker event while alive; an error ends the generation.
func VH_C15_Heartbeat(ticks int) {
	vhConcreteClock(true)
	co := &vhCoordinator{}
	failAt := vhChoose("heartbeat_fails_at", ticks+1) // 0 = never
	kind := vhChoose("heartbeat_error_kind", 4)
	co.heartbeatErr = func(call int) error {
		if call == failAt {
			// any heartbeat failure ends the generation: rebalance signals, coordinator moves (temporary
			// errors included) and connection-level errors alike
			switch kind {
			case 0:
				return RebalanceInProgress
			case 1:
				return NotCoordinatorForGroup
			case 2:
				return RequestTimedOut
			}
			return vhErrCoordinator
		}
		return nil
	}
	g := vhNewGeneration(co)
	g.heartbeatLoop(time.Second)
	vhSettle()
	sent := 0
	for k := 1; k <= ticks; k++ {
		alive := !vhChanClosed(g.done)
		if !vhFireNext() {
			break
		}
		vhSettle()
		if alive {
			sent++
			vhAssert(co.heartbeats == sent, "one-heartbeat-per-tick-while-alive")
		}
		if failAt == k {
			vhAssert(vhChanClosed(g.done), "heartbeat-error-ends-the-generation")
			break
		}
	}
	if failAt == 0 {
		vhAssert(!vhChanClosed(g.done), "generation-lives-while-heartbeats-succeed")
		vhAssert(co.heartbeats == ticks, "heartbeats-sent-at-every-tick")
	}
	g.close()
	vhAssert(vhChanClosed(g.done) && g.routines == 0, "close-ends-heartbeat-loop")
	vhReach("c15-heartbeat")
}

// partition watcher: a change of the partition count ends the generation.
// event: 0 the topic grows, 1 the topic is deleted (UnknownTopicOrPartition = zero partitions), 2 another broker
// error (the watcher keeps going), 3 the connection to the coordinator is lost
func VH_C15_PartitionWatcher(event int) {
	vhConcreteClock(true)
	co := &vhCoordinator{parts: []Partition{{ID: 0}, {ID: 1}}}
	g := vhNewGeneration(co)
	g.partitionWatcher(time.Second, "t")
	vhSettle()
	vhFireNext()
	vhSettle()
	vhAssert(!vhChanClosed(g.done), "same-partition-count-keeps-the-generation")
	switch event {
	case 0:
		co.parts = append(co.parts, Partition{ID: 2})
	case 1:
		co.partsErr = UnknownTopicOrPartition
	case 2:
		co.partsErr = Error(vhInt16("other_error_code"))
		vhAssume(vhAll(co.partsErr.(Error) > 0, co.partsErr.(Error) != UnknownTopicOrPartition))
	case 3:
		co.partsErr = vhErrCoordinator
	}
	vhFireNext()
	vhSettle()
	if event == 2 {
		vhAssert(!vhChanClosed(g.done), "a-broker-error-other-than-unknown-topic-keeps-the-generation")
		co.partsErr = nil
		co.parts = co.parts[:1] // then the topic shrinks: detected at the next tick
		vhFireNext()
		vhSettle()
	}
	vhAssert(vhChanClosed(g.done), "partition-count-change-or-lost-connection-ends-the-generation")
	g.close()
	vhReach("c15-partition-watcher")
}

// ConsumerGroup.run / nextGeneration against a scripted coordinator (injected through config.connect), serial
// schedule. firstJoin: outcome of the first joinGroup call (0 ok, 1 RebalanceInProgress, 2 another Kafka error with
// a symbolic code, 3 transport error). event: how the first generation ends (0 heartbeat failure, 1 a started
// function returns, 2 the group is closed).
func VH_C15_GroupRun(firstJoin, event int) {
	vhConcreteClock(true)
	co := &vhCoordinator{}
	gen1, gen2 := vhInt32("generation1"), vhInt32("generation2")
	code := vhInt16("join_error_code")
	vhAssume(vhAll(code > 0, code != int16(RebalanceInProgress)))
	committed := vhInt64("committed_offset")
	vhAssume(committed >= -1)
	okJoins := 0
	// the coordinator may answer a re-join with a member id other than the one presented
	id2 := "m1"
	if vhBool("coordinator_assigns_a_new_member_id_on_rejoin") {
		id2 = "m2"
	}
	co.joinOutcome = func(call int) (joinGroupResponse, error) {
		if call == 1 {
			switch firstJoin {
			case 1:
				return joinGroupResponse{ErrorCode: int16(RebalanceInProgress)}, nil
			case 2:
				return joinGroupResponse{ErrorCode: code}, nil
			case 3:
				return joinGroupResponse{}, vhErrCoordinator
			}
		}
		okJoins++
		id, member := gen1, "m1"
		if okJoins > 1 {
			id, member = gen2, id2
		}
		return joinGroupResponse{GenerationID: id, MemberID: member, LeaderID: "someone-else", GroupProtocol: "range"}, nil
	}
	co.syncResp = syncGroupResponseV0{MemberAssignments: groupAssignment{Version: 1, Topics: map[string][]int32{"t": {0}}}.bytes()}
	co.fetchResp = offsetFetchResponseV1{Responses: []offsetFetchResponseV1Response{{Topic: "t", PartitionResponses: []offsetFetchResponseV1PartitionResponse{{Partition: 0, Offset: committed}}}}}
	heartbeatFails := false
	co.heartbeatErr = func(call int) error {
		if heartbeatFails {
			return vhErrCoordinator
		}
		return nil
	}
	cfg := ConsumerGroupConfig{ID: "g", Brokers: []string{"vh:9092"}, Topics: []string{"t"}, HeartbeatInterval: time.Second,
		JoinGroupBackoff: 5 * time.Second, StartOffset: FirstOffset}
	opened := 0
	cfg.connect = func(_ *Dialer, brokers ...string) (coordinator, error) {
		opened++
		return &vhCoordConn{vhCoordinator: co, addr: brokers[0]}, nil
	}
	if firstJoin >= 4 {
		// the first coordinator lookup fails (4: error code, 5: transport error): reported by Next, retried after
		// the back-off, and the bootstrap connection is closed all the same
		co.findOutcome = func(call int) (int16, error) {
			if call == 1 {
				if firstJoin == 4 {
					return int16(GroupCoordinatorNotAvailable), nil
				}
				return 0, vhErrCoordinator
			}
			return 0, nil
		}
	}
	cg, nerr := NewConsumerGroup(cfg)
	vhAssert(nerr == nil, "group-created")
	ctx := context.Background()

	if event == 3 {
		// the group is closed after it has joined and built a generation that nobody received through Next: that
		// generation ends too (no heartbeat after Close, one LeaveGroup, no goroutine of the group left)
		vhSettle()
		vhAssert(co.joins == 1, "group-joins-without-waiting-for-next")
		closed := false
		go func() { cg.Close(); closed = true }()
		vhSettle()
		vhSettle()
		vhAssert(closed, "close-returns-when-no-function-was-started")
		before := co.heartbeats
		for i := 0; i < 3; i++ {
			if !vhFireNext() {
				break
			}
			vhSettle()
		}
		vhAssert(co.heartbeats == before, "no-heartbeat-after-close")
		leaves := 0
		for _, c := range co.calls {
			if c == "leaveGroup:m1" {
				leaves++
			}
		}
		vhAssert(leaves == 1, "close-sends-one-LeaveGroup-for-the-member")
		for i := 1; i <= vhSpawned(); i++ {
			vhAssert(vhCoroDone(i), "no-goroutine-of-the-group-outlives-close")
		}
		vhAssert(opened == co.closes, "every-coordinator-connection-opened-is-closed-once-the-group-is-closed")
		vhReach("c15-group-closed-before-next")
		return
	}

	g, err := cg.Next(ctx)
	if firstJoin != 0 {
		vhAssert(g == nil && err != nil, "failed-join-is-reported-by-next")
		switch firstJoin {
		case 1:
			vhAssert(errors.Is(err, RebalanceInProgress), "join-error-is-the-coordinators")
		case 2:
			vhAssert(errors.Is(err, Error(code)), "join-error-is-the-coordinators")
		case 3:
			vhAssert(errors.Is(err, vhErrCoordinator), "join-error-is-the-transports")
		case 4:
			vhAssert(errors.Is(err, GroupCoordinatorNotAvailable), "lookup-error-is-the-coordinators")
		case 5:
			vhAssert(errors.Is(err, vhErrCoordinator), "lookup-error-is-the-transports")
		}
		vhSettle()
		if firstJoin >= 4 {
			vhAssert(co.joins == 0 && co.finds == 1, "failed-lookup-is-not-retried-before-the-back-off")
			vhAssert(opened == co.closes, "connection-of-a-failed-lookup-is-closed")
			vhAssert(vhTimers() > 0, "back-off-timer-armed")
		} else if firstJoin != 1 {
			vhAssert(co.joins == 1, "failed-join-is-not-retried-before-the-back-off")
			vhAssert(vhTimers() > 0, "back-off-timer-armed")
		}
		g, err = cg.Next(ctx) // the caller blocks: time passes, the back-off elapses, the join is retried
	}
	vhAssert(g != nil && err == nil, "next-returns-a-generation-after-a-successful-join")
	if g == nil {
		return
	}
	vhAssert(vhAll(g.ID == gen1, g.MemberID == "m1", g.GroupID == "g"), "generation-identity-is-the-coordinators")
	as := g.Assignments["t"]
	vhAssert(len(as) == 1 && as[0].ID == 0, "assignment-is-the-synced-one")
	if len(as) == 1 {
		if committed >= 0 {
			vhAssert(as[0].Offset == committed, "assignment-starts-at-the-committed-offset")
		} else {
			vhAssert(as[0].Offset == FirstOffset, "assignment-starts-at-StartOffset-without-a-commit")
		}
	}

	// a started function that notices the cancellation and then takes its time to return
	cancelled, exited := false, false
	release := make(chan struct{})
	g.Start(func(c context.Context) {
		<-c.Done()
		cancelled = true
		<-release
		exited = true
	})
	quit := make(chan struct{})
	g.Start(func(c context.Context) {
		select {
		case <-c.Done():
		case <-quit:
		}
	})
	vhSettle()
	vhAssert(!cancelled, "context-not-cancelled-while-the-generation-lives")
	closeReturned := false
	switch event {
	case 0:
		heartbeatFails = true
		vhFireNext() // the heartbeat ticker
	case 1:
		close(quit)
	case 2:
		go func() { cg.Close(); closeReturned = true }()
	}
	vhSettle()
	vhAssert(cancelled, "function-context-cancelled-as-soon-as-the-generation-ends")
	var g2 *Generation
	var err2 error
	nextReturned := false
	go func() { g2, err2 = cg.Next(ctx); nextReturned = true }()
	vhSettle()
	vhAssert(!(nextReturned && g2 != nil), "next-returns-no-generation-while-a-function-of-the-previous-one-runs")
	vhAssert(!closeReturned, "close-waits-for-the-started-functions")
	close(release)
	vhSettle()
	vhSettle()
	vhAssert(exited, "function-returns")
	if event == 2 {
		vhAssert(closeReturned, "close-returns-after-the-functions-returned")
		vhAssert(nextReturned && g2 == nil && errors.Is(err2, ErrGroupClosed), "next-on-a-closed-group-reports-ErrGroupClosed")
		left := false
		for _, c := range co.calls {
			if c == "leaveGroup:m1" {
				left = true
			}
		}
		vhAssert(left, "close-sends-LeaveGroup-for-the-current-member-id")
	} else {
		vhAssert(nextReturned && g2 != nil && err2 == nil, "a-new-generation-follows")
		if g2 != nil {
			vhAssert(vhAll(g2.ID == gen2, g2.MemberID == id2), "second-generation-identity")
		}
		vhAssert(len(co.joinMembers) >= 2 && co.joinMembers[len(co.joinMembers)-1] == "m1", "member-id-is-kept-across-generations")
		closed2 := make(chan struct{})
		go func() { cg.Close(); close(closed2) }()
		<-closed2
		left2 := false
		for _, c := range co.calls {
			if c == "leaveGroup:"+id2 {
				left2 = true
			}
		}
		vhAssert(left2, "close-sends-LeaveGroup-for-the-member-id-of-the-current-generation")
	}
	vhSettle()
	vhAssert(opened == co.closes, "every-coordinator-connection-opened-is-closed-once-the-group-is-closed")
	for _, a := range co.groupAddrs {
		vhAssert(a == "leaveGroup@"+vhCoordinatorAddr || a == "joinGroup@"+vhCoordinatorAddr || a == "heartbeat@"+vhCoordinatorAddr, "group-requests-go-to-the-coordinator-found-with-FindCoordinator")
	}
	vhReach("c15-group-run")
}
