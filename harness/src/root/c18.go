package kafka

import (
	"context"
	"errors"
	"net"
	"time"

	"github.com/segmentio/kafka-go/sasl"
	"github.com/segmentio/kafka-go/sasl/plain"
)

// C18: with SASL configured, nothing is sent before authentication succeeds.
// Dialer.connect over a scripted connection. The broker side: ApiVersions (advertising SaslHandshake v0 or v1),
// the handshake answer with a symbolic error code, the authentication answer (framed for v1, raw for v0) with a
// symbolic error code, optionally the connection ends after any of the frames.

// vhStubMechanism stands in for multi-step mechanisms (SCRAM): every step's outcome is nondeterministic.
type vhStubMechanism struct {
	steps  int
	failed bool // the state machine reported an error at some step
}

func (m *vhStubMechanism) Name() string { return "SCRAM-SHA-256" }
func (m *vhStubMechanism) Start(ctx context.Context) (sasl.StateMachine, []byte, error) {
	if vhChoose("start_fails", 2) == 1 {
		m.failed = true
		return nil, nil, errors.New("vh: mechanism cannot start")
	}
	return m, []byte("client-first"), nil
}
func (m *vhStubMechanism) Next(ctx context.Context, challenge []byte) (bool, []byte, error) {
	m.steps++
	switch vhChoose("step_outcome", 4) {
	case 3:
		// some state machines (xdg-go SCRAM) report "done" together with the error of the last step
		m.failed = true
		return true, nil, errors.New("vh: server signature invalid")
	case 0:
		return true, nil, nil
	case 1:
		if m.steps >= 2 {
			return true, nil, nil
		}
		return false, []byte("client-next"), nil
	}
	m.failed = true
	return false, nil, errors.New("vh: bad server proof")
}

type vhRequestSeen struct {
	apiKey int16
	body   []byte
}

// vhSplitRequests parses the journal of written bytes into Kafka request frames (size, api key, version, ...).
func vhSplitRequests(b []byte) (reqs []vhRequestSeen, rest []byte) {
	for len(b) >= 4 {
		n := int(vhBE32(b))
		if n < 8 || len(b) < 4+n {
			break
		}
		reqs = append(reqs, vhRequestSeen{apiKey: int16(uint16(b[4])<<8 | uint16(b[5])), body: b[4 : 4+n]})
		b = b[4+n:]
	}
	return reqs, b
}

func VH_C18_Dialer(handshakeVersion, mech int) {
	hsCode := vhInt16("handshake_error")
	authCode := vhInt16("authenticate_error")
	user := vhString("user", 2)
	pass := vhString("pass", 2)

	f1 := vhApiVersionsFrame(1, []vhApiRange{{17, 0, int16(handshakeVersion)}, {36, 0, 0}})
	w := &vhW{}
	w.i16(hsCode)
	w.i32(1)
	w.str("PLAIN")
	f2 := vhFrameOf(2, w.b)
	var f3 []byte
	if handshakeVersion == 1 {
		a := &vhW{}
		a.i16(authCode)
		a.nullStr()
		a.bytes([]byte("ok"))
		f3 = vhFrameOf(3, a.b)
	} else {
		a := &vhW{}
		a.bytes([]byte("ok")) // raw exchange: length-prefixed opaque bytes
		f3 = a.b
	}
	frames := [][]byte{f1, f2, f3, f3}
	keep := vhChoose("frames_before_close", 5) // the broker closes the connection after this many frames
	var script []byte
	for i := 0; i < keep && i < len(frames); i++ {
		script = append(script, frames[i]...)
	}
	fc := &vhFakeConn{data: script}
	var m sasl.Mechanism = plain.Mechanism{Username: user, Password: pass}
	stub := &vhStubMechanism{}
	if mech == 1 {
		m = stub
	}
	d := &Dialer{
		SASLMechanism: m,
		DialFunc:      func(ctx context.Context, network, address string) (net.Conn, error) { return fc, nil },
	}
	conn, err := d.connect(context.Background(), "tcp", "broker:9092", ConnConfig{ClientID: "vh"})

	// 1. everything written consists of ApiVersions / SaslHandshake / SaslAuthenticate requests, or, after a v0
	//    handshake, raw length-prefixed authentication bytes
	reqs, rest := vhSplitRequests(fc.written)
	sawHandshake := false
	for _, r := range reqs {
		if handshakeVersion == 0 && sawHandshake {
			break // raw blobs follow; they are checked below
		}
		vhAssert(vhAny(r.apiKey == 18, r.apiKey == 17, r.apiKey == 36), "only-auth-requests-before-verdict")
		if r.apiKey == 17 {
			sawHandshake = true
		}
		if r.apiKey == 36 && mech == 0 {
			// SaslAuthenticate v0 body: header(api key, version, corr, client id) then bytes
			body := r.body
			p := 2 + 2 + 4
			p += 2 + int(int16(uint16(body[p])<<8|uint16(body[p+1])))
			n := int(vhBE32(body[p:]))
			tok := body[p+4 : p+4+n]
			want := append(append(append([]byte{0}, user...), 0), pass...)
			vhAssert(vhBytesEq(tok, want), "plain-initial-response")
		}
	}
	_ = rest

	// 2. success exactly when every step succeeded
	if err == nil {
		vhAssert(conn != nil, "success-returns-conn")
		vhAssert(!fc.closed, "success-keeps-conn-open")
		vhAssert(hsCode == 0, "success-implies-handshake-accepted")
		if handshakeVersion == 1 {
			vhAssert(authCode == 0, "success-implies-authenticate-accepted")
		}
		vhAssert(keep >= 3, "success-implies-broker-answered-every-step")
		vhAssert(!stub.failed, "success-implies-the-mechanism-reported-no-error")
		vhReach("c18-success")
	} else {
		vhAssert(conn == nil, "failure-returns-no-conn")
		vhAssert(fc.closed, "failure-closes-the-connection")
		vhReach("c18-failure")
	}
	// 3. and conversely (PLAIN): all answers good => success
	if mech == 0 && hsCode == 0 && keep >= 3 && (handshakeVersion == 0 || authCode == 0) {
		vhAssert(err == nil, "good-exchange-succeeds")
	}
}

// Transport connections: connGroup.connect negotiates versions, then authenticates before the connection's
// request loop is started. Raw exchange after a v0 handshake, framed SaslAuthenticate after a v1 handshake.
func VH_C18_Transport(handshakeVersion int) {
	vhManual(true)
	vhConcreteClock(true)
	hsCode := vhInt16("handshake_error")
	authCode := vhInt16("authenticate_error")
	user := vhString("user", 2)
	pass := vhString("pass", 2)
	f1 := vhApiVersionsFrame(1, []vhApiRange{{17, 0, int16(handshakeVersion)}, {36, 0, 0}, {3, 0, 1}})
	w := &vhW{}
	w.i16(hsCode)
	w.i32(1)
	w.str("PLAIN")
	f2 := vhFrameOf(2, w.b)
	var f3 []byte
	if handshakeVersion == 1 {
		a := &vhW{}
		a.i16(authCode)
		a.nullStr()
		a.bytes([]byte("ok"))
		f3 = vhFrameOf(3, a.b)
	} else {
		a := &vhW{}
		a.bytes([]byte("ok"))
		f3 = a.b
	}
	frames := [][]byte{f1, f2, f3}
	keep := vhChoose("frames_before_close", 4)
	var script []byte
	for i := 0; i < keep; i++ {
		script = append(script, frames[i]...)
	}
	fc := &vhFakeConn{data: script}
	p := &connPool{
		dial:        func(ctx context.Context, network, address string) (net.Conn, error) { return fc, nil },
		dialTimeout: time.Second,
		clientID:    "vh",
		sasl:        plain.Mechanism{Username: user, Password: pass},
		conns:       make(map[int32]*connGroup),
	}
	addr := &networkAddress{network: "tcp", address: "broker:9092"}
	g := p.newConnGroup(addr)
	c, err := g.connect(context.Background(), addr)

	reqs, rest := vhSplitRequests(fc.written)
	token := append(append(append([]byte{0}, user...), 0), pass...)
	nFramed := 0
	for _, r := range reqs {
		if r.apiKey == 18 || r.apiKey == 17 || r.apiKey == 36 {
			nFramed++
			continue
		}
		if handshakeVersion == 0 && nFramed >= 2 {
			break
		}
		vhFail("only-auth-requests-before-verdict")
	}
	if handshakeVersion == 1 && hsCode == 0 && keep >= 2 {
		// after a v1 handshake the authentication bytes travel in a SaslAuthenticate request (api key 36)
		vhAssert(len(reqs) == 3 && reqs[2].apiKey == 36, "framed-authenticate-after-v1-handshake")
		vhAssert(len(rest) == 0, "no-raw-bytes-after-v1-handshake")
	}
	if handshakeVersion == 0 && hsCode == 0 && keep >= 2 {
		// after a v0 handshake: raw length-prefixed token
		vhAssert(len(reqs) >= 2, "handshake-sent")
		raw := fc.written[len(fc.written)-4-len(token):]
		vhAssert(int(vhBE32(raw)) == len(token) && vhBytesEq(raw[4:], token), "raw-token-after-v0-handshake")
	}
	if err == nil {
		vhAssert(c != nil && !fc.closed, "success-returns-open-conn")
		vhAssert(hsCode == 0, "success-implies-handshake-accepted")
		if handshakeVersion == 1 {
			vhAssert(authCode == 0, "success-implies-authenticate-accepted")
		}
		vhAssert(keep == 3, "success-implies-broker-answered-every-step")
		vhAssert(vhSpawned() == 1, "request-loop-started-only-after-authentication")
		vhReach("c18-transport-success")
	} else {
		vhAssert(c == nil, "failure-returns-no-conn")
		vhAssert(fc.closed, "failure-closes-the-connection")
		vhAssert(vhSpawned() == 0, "no-request-loop-for-unauthenticated-connection")
		vhReach("c18-transport-failure")
	}
	if hsCode == 0 && keep == 3 && (handshakeVersion == 0 || authCode == 0) {
		vhAssert(err == nil, "good-exchange-succeeds")
	}
}
