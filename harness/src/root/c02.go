package kafka

import (
	"context"
	"io"
	"net"
	"time"

	"github.com/segmentio/kafka-go/compress"
)

// C02: the Reader/Conn path delivers exactly the partition's records from its position, in order.
// H1: one fetch = one inductive step. Conn.offset = o (symbolic); the broker's answer is built by the reference
// encoder from a symbolic partition-log fragment; the harness drains the batch and closes it.

func VH_C02_FetchV2Batches(version, nb, segments int) {
	vhConcreteClock(true)
	o := vhInt64("position")
	first := vhInt64("log_fragment_start")
	vhAssume(vhAll(first >= 0, first < 1<<40, o >= first, o <= first+2))
	wire, stored, next, firstEnd := vhLogV2(nb, first)
	// a broker answers a fetch at position o with the batch that contains o (it may start below o) and the
	// batches after it - never with batches that lie entirely below o
	vhAssume(o <= firstEnd)
	hwm := next + 10
	f1 := vhApiVersionsFrame(1, []vhApiRange{{int16(fetch), 0, int16(version)}, {int16(listOffsets), 0, 1}})
	f2 := vhFetchResponse(2, version, 0, "t", 0, 0, hwm, wire)
	fc := &vhFakeConn{data: append(append([]byte{}, f1...), f2...)}
	if segments == 1 {
		// the fetch response arrives in two TCP segments, cut at any byte of the record data
		fc.segment = len(f1) + len(f2) - len(wire) + vhChoose("segment_cut", len(wire))
	}
	c := NewConnWith(fc, ConnConfig{Topic: "t", Partition: 0, ClientID: "vh"})
	_, serr := c.Seek(o, SeekAbsolute|SeekDontCheck)
	vhAssert(serr == nil, "seek-ok")
	b := c.ReadBatchWith(ReadBatchConfig{MinBytes: 1, MaxBytes: 100000})
	var got []Message
	var lastErr error
	for i := 0; i < len(stored)+2; i++ {
		m, err := b.ReadMessage()
		if err != nil {
			lastErr = err
			break
		}
		got = append(got, m)
	}
	cerr := b.Close()
	vhAssert(lastErr == io.EOF, "batch-ends-with-EOF-after-the-last-record")
	vhAssert(cerr == nil, "close-ok")
	// expected: the stored records with offset >= o, in order
	var want []vhStored
	for _, s := range stored {
		if s.offset >= o {
			want = append(want, s)
		}
	}
	vhAssert(len(got) == len(want), "delivers-exactly-the-stored-records-at-or-after-the-position")
	for i := range want {
		if i >= len(got) {
			break
		}
		g := got[i]
		vhAssert(g.Offset == want[i].offset, "offsets-in-order-each-once")
		vhAssert(vhAll(vhBytesEq(g.Key, want[i].key), vhBytesEq(g.Value, want[i].value)), "stored-key-and-value")
		vhAssert(g.Time.Unix()*1000+int64(g.Time.Nanosecond())/1000000 == want[i].ts, "millisecond-timestamp")
		vhAssert(vhAll(g.Topic == "t", g.Partition == 0), "topic-and-partition")
	}
	// the connection's next position: past everything delivered, nothing stored skipped, not beyond the fragment
	no, _ := c.Offset()
	if len(want) > 0 {
		vhAssert(no > want[len(want)-1].offset, "position-moves-past-the-last-delivered-record")
	}
	vhAssert(no >= o, "position-never-moves-backwards")
	vhAssert(no <= next, "position-does-not-skip-stored-records-beyond-the-fragment")
	// progress: the response was complete, so the next fetch starts right after its last batch - staying on an
	// offset that compaction removed would fetch the same batches again for ever
	vhAssert(no == next, "position-moves-past-the-last-complete-batch")
	vhReach("c02-fetch-v2")
}

// older message formats (0 and 1), uncompressed: nm messages at increasing symbolic offsets
func VH_C02_FetchMessageSet(version, magic, nm int) {
	vhConcreteClock(true)
	o := vhInt64("position")
	first := vhInt64("log_fragment_start")
	vhAssume(vhAll(first >= 0, first < 1<<40, o >= first, o <= first+2))
	var wire []byte
	var stored []vhStored
	off := first
	for i := 0; i < nm; i++ {
		off += int64(vhChoose("gap", 2)) // compaction may leave gaps between messages
		ts := int64(1600000000000 + 1000*i)
		k := vhBytes("key", 1)
		v := vhBytes("value", 2)
		m := int8(magic)
		if magic == 3 {
			// a log written across the upgrade to format 1 and back: formats alternate 1,0,1,... inside one set
			m = int8(1 - i%2)
		}
		wire = append(wire, vhEncMessage(off, m, 0, ts, k, v)...)
		if m == 0 {
			ts = 0 // format 0 carries no timestamp: the message's time is the zero time
		}
		stored = append(stored, vhStored{offset: off, ts: ts, key: k, value: v})
		off++
	}
	f1 := vhApiVersionsFrame(1, []vhApiRange{{int16(fetch), 0, int16(version)}, {int16(listOffsets), 0, 1}})
	f2 := vhFetchResponse(2, version, 0, "t", 0, 0, off+10, wire)
	fc := &vhFakeConn{data: append(append([]byte{}, f1...), f2...)}
	c := NewConnWith(fc, ConnConfig{Topic: "t", Partition: 0, ClientID: "vh"})
	c.Seek(o, SeekAbsolute|SeekDontCheck)
	b := c.ReadBatchWith(ReadBatchConfig{MinBytes: 1, MaxBytes: 100000})
	var got []Message
	var lastErr error
	for i := 0; i < nm+2; i++ {
		m, err := b.ReadMessage()
		if err != nil {
			lastErr = err
			break
		}
		got = append(got, m)
	}
	cerr := b.Close()
	vhAssert(lastErr == io.EOF && cerr == nil, "message-set-ends-with-EOF")
	var want []vhStored
	for _, s := range stored {
		if s.offset >= o {
			want = append(want, s)
		}
	}
	vhAssert(len(got) == len(want), "delivers-exactly-the-stored-messages-at-or-after-the-position")
	for i := range want {
		if i >= len(got) {
			break
		}
		vhAssert(vhAll(got[i].Offset == want[i].offset, vhBytesEq(got[i].Key, want[i].key), vhBytesEq(got[i].Value, want[i].value)), "message-content-in-order")
		if want[i].ts != 0 {
			vhAssert(got[i].Time.Unix()*1000+int64(got[i].Time.Nanosecond())/1000000 == want[i].ts, "message-timestamp")
		} else {
			vhAssert(got[i].Time.IsZero(), "format-0-message-has-the-zero-time")
		}
	}
	no, _ := c.Offset()
	if len(want) > 0 {
		vhAssert(no == want[len(want)-1].offset+1, "position-is-last-delivered-plus-one")
	}
	vhReach("c02-fetch-messageset")
}

// H2 (level S): the background fetcher (*reader).run across a connection loss. The first leader connection
// delivers a fetch response that is cut inside the value of record number `cutAt` (after cutAt complete records);
// the reader must reconnect and resume exactly after the last delivered record: every record once, in order.
func VH_C02_ReaderReconnect(cutAt, mode int) {
	vhConcreteClock(true)
	const total = 4
	recs := make([][]byte, total)
	var set1, set2 []byte
	for i := 0; i < total; i++ {
		recs[i] = vhBytes("value", 2)
		m := vhEncMessage(int64(i), 1, 0, 1600000000000, nil, recs[i])
		set1 = append(set1, m...)
		if i >= cutAt {
			set2 = append(set2, m...)
		}
	}
	// size of the prefix of set1 that is delivered before the connection dies: cutAt whole messages plus all
	// but the last byte of the next one
	msgLen := len(vhEncMessage(0, 1, 0, 0, nil, []byte{0, 0}))
	keep := cutAt*msgLen + msgLen - 1

	meta := func(corr int32) []byte {
		return append(vhApiVersionsFrame(corr, []vhApiRange{{int16(metadata), 0, 1}}), vhMetadataResponse(corr+1, 1, "t", 0, 0, 1)...)
	}
	leader := func(fetchBody []byte, truncateTo int) []byte {
		var s []byte
		s = append(s, vhListOffsetsFrame(1, "t", 0, 0, -1, 0)...)     // readOffsets: first
		s = append(s, vhListOffsetsFrame(2, "t", 0, 0, -1, total)...) // readOffsets: last
		s = append(s, vhListOffsetsFrame(3, "t", 0, 0, -1, 0)...)     // Seek bounds check: first
		s = append(s, vhListOffsetsFrame(4, "t", 0, 0, -1, total)...) // Seek bounds check: last
		s = append(s, vhApiVersionsFrame(5, []vhApiRange{{int16(fetch), 0, 2}})...)
		f := vhFetchResponse(6, 2, 0, "t", 0, 0, total, fetchBody)
		if truncateTo >= 0 {
			f = f[:len(f)-len(fetchBody)+truncateTo]
		}
		return append(s, f...)
	}
	first := leader(set1, keep)
	if mode == 1 {
		// the connection dies between two fetches: the first response is complete and holds cutAt whole messages
		// (the partition has more), the next fetch request is answered by nothing at all
		first = leader(set1[:cutAt*msgLen], -1)
	}
	conns := []*vhFakeConn{
		{data: meta(1)}, {data: first},
		{data: meta(1)}, {data: leader(set2, -1)},
	}
	ctx, cancel := context.WithCancel(context.Background())
	dials := 0
	d := &Dialer{DialFunc: func(c context.Context, network, address string) (net.Conn, error) {
		if dials >= len(conns) {
			cancel() // the scenario is over
			return nil, io.ErrClosedPipe
		}
		fc := conns[dials]
		dials++
		return fc, nil
	}}
	msgs := make(chan readerMessage, 16)
	r := &reader{dialer: d, brokers: []string{"b:9092"}, topic: "t", partition: 0, minBytes: 1, maxBytes: 100000,
		maxWait: time.Second, readBatchTimeout: time.Second, backoffDelayMin: time.Millisecond, backoffDelayMax: 2 * time.Millisecond,
		version: 1, msgs: msgs, stats: &readerStats{}, maxAttempts: 1}
	r.run(ctx, 0)

	var got []readerMessage
	for len(msgs) > 0 {
		m := <-msgs
		if m.error == nil {
			got = append(got, m)
		}
	}
	vhAssert(len(got) == total, "every-record-delivered-exactly-once-across-the-reconnect")
	for i := 0; i < total && i < len(got); i++ {
		vhAssert(got[i].message.Offset == int64(i), "records-in-offset-order-without-duplicates")
		vhAssert(vhBytesEq(got[i].message.Value, recs[i]), "record-values")
	}
	// the second leader connection was asked for the offset right after the last delivered record
	if dials >= 4 {
		off, ok := vhFetchOffsetOfLastRequest(conns[3].written)
		vhAssert(ok, "fetch-request-parsed")
		vhAssert(off == int64(cutAt), "resumes-at-last-delivered-plus-one")
	}
	vhReach("c02-reader-reconnect")
}

// vhFetchOffsetOfLastRequest parses the first Fetch (v2) request written on a connection.
func vhFetchOffsetOfLastRequest(w []byte) (int64, bool) {
	var last []byte
	for len(w) >= 4 {
		n := int(vhBE32(w))
		if len(w) < 4+n {
			break
		}
		if n >= 2 && w[4] == 0 && w[5] == 1 { // the first Fetch request on the connection
			last = w[4 : 4+n]
			break
		}
		w = w[4+n:]
	}
	if last == nil {
		return 0, false
	}
	r := &vhRd{b: last}
	if r.i16() != 1 || r.i16() != 2 {
		return 0, false
	}
	r.i32()
	r.str()
	r.i32()
	r.i32()
	r.i32()
	if r.i32() != 1 {
		return 0, false
	}
	r.str()
	if r.i32() != 1 {
		return 0, false
	}
	r.i32()
	return r.i64(), true
}

// Compressed record sets on the Conn path. The third-party codecs are not interpreted: a stand-in stream codec
// (vhBlockCodec, c17.go: one block per record/message) is installed in compress.Codecs for the path, so that the
// library's own logic around a decompressor is executed: the nested reader stack, relative inner offsets of
// compressed v1 message sets (wrapper offset = offset of the last inner message), skipping of records below the
// requested position (a compressed batch is always returned whole), byte accounting.
//   kind 0: one compressed v2 batch of nrec records
//   kind 1: a magic-1 wrapper message holding nrec inner messages with relative offsets (optionally one gap)
//   kind 2: a magic-0 wrapper message holding nrec inner messages with absolute offsets
func VH_C02_FetchCompressed(version, kind, nrec int) {
	vhConcreteClock(true)
	compress.Codecs[1] = vhBlockCodec{}
	first := vhInt64("log_fragment_start")
	vhAssume(vhAll(first >= 0, first < 1<<40))
	var stored []vhStored
	var wire []byte
	const ts = int64(1600000000000)
	switch kind {
	case 0:
		var payload []byte
		for i := 0; i < nrec; i++ {
			k, v := vhBytes("key", 1), vhBytes("value", 2)
			e := vhEncRecord(vhRec{offsetDelta: int64(i), key: k, value: v})
			payload = append(append(payload, byte(len(e))), e...)
			stored = append(stored, vhStored{offset: first + int64(i), ts: ts, key: k, value: v})
		}
		wire = vhEncBatchV2Raw(first, 1, int32(nrec-1), ts, ts, int32(nrec), payload)
	default:
		// kind 3: like 1 with null keys, kind 4: like 1 with a tombstone (null value) on every other message
		nullKeys, tombstones := kind == 3, kind == 4
		if kind >= 3 {
			kind = 1
		}
		magic := int8(1)
		if kind == 2 {
			magic = 0
		}
		var payload []byte
		rel := int64(0)
		for i := 0; i < nrec; i++ {
			if i > 0 {
				rel += 1 + int64(vhChoose("gap", 2)) // compaction may leave a gap inside the set
			}
			k, v := vhBytes("key", 1), vhBytes("value", 2)
			if nullKeys {
				k = nil
			}
			if tombstones && i%2 == 0 {
				v = nil
			}
			inner := rel
			if kind == 2 {
				inner = first + rel // magic 0: inner offsets are absolute
			}
			e := vhEncMessage(inner, magic, 0, ts, k, v)
			payload = append(append(payload, byte(len(e))), e...)
			sts := ts
			if magic == 0 {
				sts = 0
			}
			stored = append(stored, vhStored{offset: first + rel, ts: sts, key: k, value: v})
		}
		wire = vhEncMessage(first+rel, magic, 1, ts, nil, payload)
	}
	last := stored[len(stored)-1].offset
	o := vhInt64("position")
	vhAssume(vhAll(o >= first, o <= last))
	f1 := vhApiVersionsFrame(1, []vhApiRange{{int16(fetch), 0, int16(version)}, {int16(listOffsets), 0, 1}})
	f2 := vhFetchResponse(2, version, 0, "t", 0, 0, last+10, wire)
	fc := &vhFakeConn{data: append(append([]byte{}, f1...), f2...)}
	c := NewConnWith(fc, ConnConfig{Topic: "t", Partition: 0, ClientID: "vh"})
	_, serr := c.Seek(o, SeekAbsolute|SeekDontCheck)
	vhAssert(serr == nil, "seek-ok")
	b := c.ReadBatchWith(ReadBatchConfig{MinBytes: 1, MaxBytes: 100000})
	var got []Message
	var lastErr error
	for i := 0; i < nrec+2; i++ {
		m, err := b.ReadMessage()
		if err != nil {
			lastErr = err
			break
		}
		got = append(got, m)
	}
	cerr := b.Close()
	vhAssert(lastErr == io.EOF, "compressed-batch-ends-with-EOF-after-the-last-record")
	vhAssert(cerr == nil, "compressed-close-ok")
	var want []vhStored
	for _, s := range stored {
		if s.offset >= o {
			want = append(want, s)
		}
	}
	vhAssert(len(got) == len(want), "compressed-delivers-exactly-the-stored-records-at-or-after-the-position")
	for i := range want {
		if i >= len(got) {
			break
		}
		g := got[i]
		vhAssert(g.Offset == want[i].offset, "compressed-absolute-offsets-in-order")
		vhAssert(vhAll(vhBytesEq(g.Key, want[i].key), vhBytesEq(g.Value, want[i].value)), "compressed-key-and-value")
		vhAssert(vhAll((g.Key == nil) == (want[i].key == nil), (g.Value == nil) == (want[i].value == nil)), "compressed-null-key-and-value-stay-null")
		if kind != 2 {
			vhAssert(g.Time.Unix()*1000+int64(g.Time.Nanosecond())/1000000 == want[i].ts, "compressed-timestamp")
		}
	}
	no, _ := c.Offset()
	vhAssert(no == last+1, "compressed-position-moves-past-the-last-record")
	vhAssert(!fc.closed, "connection-kept-after-a-complete-response")
	vhReach("c02-fetch-compressed")
}

// Wide deltas and nulls: one v2 batch whose records sit 70 and 200 offsets (100 and 5000 ms) after the first, so
// that the record fields are multi-byte varints, with a null key on the second and a null value (tombstone) on
// the third record; the start position is anywhere inside the batch (records below it are skipped) and the
// response arrives in two TCP segments cut at any byte of the record data (segments=1).
func VH_C02_FetchV2Wide(version, segments int) {
	vhConcreteClock(true)
	first := vhInt64("log_fragment_start")
	vhAssume(vhAll(first >= 0, first < 1<<40))
	const ts = int64(1600000000000)
	k0, v0 := vhBytes("key", 1), vhBytes("value", 2)
	v1 := vhBytes("value", 2)
	k2 := vhBytes("key", 1)
	recs := []vhRec{
		{offsetDelta: 0, tsDelta: 0, key: k0, value: v0},
		{offsetDelta: 70, tsDelta: 100, key: nil, value: v1},
		{offsetDelta: 200, tsDelta: 5000, key: k2, value: nil},
	}
	stored := []vhStored{
		{offset: first, ts: ts, key: k0, value: v0},
		{offset: first + 70, ts: ts + 100, key: nil, value: v1},
		{offset: first + 200, ts: ts + 5000, key: k2, value: nil},
	}
	wire := vhEncBatchV2(first, 0, 200, ts, ts+5000, 3, recs)
	o := first + int64(vhChoose("position_in_batch", 4))*70 // first, +70, +140 (a compacted offset), +210 -> capped
	if o > first+200 {
		o = first + 200
	}
	f1 := vhApiVersionsFrame(1, []vhApiRange{{int16(fetch), 0, int16(version)}, {int16(listOffsets), 0, 1}})
	f2 := vhFetchResponse(2, version, 0, "t", 0, 0, first+300, wire)
	fc := &vhFakeConn{data: append(append([]byte{}, f1...), f2...)}
	if segments == 1 {
		fc.segment = len(f1) + len(f2) - len(wire) + 61 + vhChoose("segment_cut", len(wire)-61)
	}
	c := NewConnWith(fc, ConnConfig{Topic: "t", Partition: 0, ClientID: "vh"})
	_, serr := c.Seek(o, SeekAbsolute|SeekDontCheck)
	vhAssert(serr == nil, "seek-ok")
	b := c.ReadBatchWith(ReadBatchConfig{MinBytes: 1, MaxBytes: 100000})
	var got []Message
	var lastErr error
	for i := 0; i < 5; i++ {
		m, err := b.ReadMessage()
		if err != nil {
			lastErr = err
			break
		}
		got = append(got, m)
	}
	cerr := b.Close()
	vhAssert(lastErr == io.EOF && cerr == nil, "wide-batch-ends-with-EOF")
	var want []vhStored
	for _, s := range stored {
		if s.offset >= o {
			want = append(want, s)
		}
	}
	vhAssert(len(got) == len(want), "wide-delivers-exactly-the-stored-records-at-or-after-the-position")
	for i := range want {
		if i >= len(got) {
			break
		}
		g := got[i]
		vhAssert(g.Offset == want[i].offset, "wide-offsets")
		vhAssert(g.Time.Unix()*1000+int64(g.Time.Nanosecond())/1000000 == want[i].ts, "wide-timestamps")
		vhAssert((g.Key == nil) == (want[i].key == nil), "null-key-is-delivered-as-nil-key")
		vhAssert((g.Value == nil) == (want[i].value == nil), "null-value-is-delivered-as-nil-value")
		vhAssert(vhAll(vhBytesEq(g.Key, want[i].key), vhBytesEq(g.Value, want[i].value)), "wide-key-and-value")
	}
	no, _ := c.Offset()
	vhAssert(no == first+201, "wide-position-moves-past-the-batch")
	vhReach("c02-fetch-v2-wide")
}

// H1c: a fetch response truncated by the broker at the byte limit: one complete v2 batch followed by a second batch
// cut at any byte (header included), the message-set size announcing exactly what is there. The records delivered
// are a prefix of the stored ones (every record of the complete batch included), the position afterwards is past
// the last record delivered and never past a stored record that was not delivered - also when the deadline of the
// fetch has passed by the time the cut is reached (late=1: the batch then ends with a time-out instead of EOF).
func VH_C02_FetchV2Truncated(version, late, shape1 int) {
	vhConcreteClock(true)
	vhLogV2FirstShape = shape1
	first := vhInt64("log_fragment_start")
	vhAssume(vhAll(first >= 0, first < 1<<40))
	o := first
	wire1, stored1, next1, _ := vhLogV2(1, first)
	vhLogV2FirstShape = -1
	wire2, stored2, next2, _ := vhLogV2(1, next1)
	cut := vhChoose("bytes_of_the_second_batch_delivered", len(wire2))
	wire := append(append([]byte{}, wire1...), wire2[:cut]...)
	stored := append(append([]vhStored{}, stored1...), stored2...)
	f1 := vhApiVersionsFrame(1, []vhApiRange{{int16(fetch), 0, int16(version)}, {int16(listOffsets), 0, 1}})
	f2 := vhFetchResponse(2, version, 0, "t", 0, 0, next2+10, wire)
	fc := &vhFakeConn{data: append(append([]byte{}, f1...), f2...)}
	c := NewConnWith(fc, ConnConfig{Topic: "t", Partition: 0, ClientID: "vh"})
	_, serr := c.Seek(o, SeekAbsolute|SeekDontCheck)
	vhAssert(serr == nil, "seek-ok")
	c.SetReadDeadline(time.Now().Add(200 * time.Millisecond))
	b := c.ReadBatchWith(ReadBatchConfig{MinBytes: 1, MaxBytes: 100000})
	var got []Message
	var lastErr error
	for i := 0; i < len(stored)+2; i++ {
		m, err := b.ReadMessage()
		if err != nil {
			lastErr = err
			break
		}
		got = append(got, m)
		if late == 1 && len(got) == len(stored1) {
			time.Sleep(400 * time.Millisecond) // the consumer is slow: the fetch deadline passes
		}
	}
	b.Close()
	vhAssert(lastErr != nil, "batch-ends")
	vhAssert(len(got) >= len(stored1), "every-record-of-the-complete-batch-is-delivered")
	vhAssert(len(got) <= len(stored), "nothing-but-stored-records")
	for i := range got {
		if i >= len(stored) {
			break
		}
		vhAssert(got[i].Offset == stored[i].offset, "offsets-in-order-each-once")
		vhAssert(vhAll(vhBytesEq(got[i].Key, stored[i].key), vhBytesEq(got[i].Value, stored[i].value)), "stored-key-and-value")
	}
	no, _ := c.Offset()
	if len(got) > 0 {
		vhAssert(no > got[len(got)-1].Offset, "position-moves-past-the-last-delivered-record")
	}
	vhAssert(no >= o, "position-never-moves-backwards")
	if len(got) < len(stored) {
		vhAssert(no <= stored[len(got)].offset, "position-does-not-skip-a-stored-record-that-was-not-delivered")
	} else {
		vhAssert(no <= next2, "position-does-not-skip-stored-records-beyond-the-fragment")
	}
	vhReach("c02-fetch-v2-truncated")
}

// H6: the Reader's position. After each delivered message Offset() is that message's offset + 1, SetOffset to an
// offset already read rewinds (the records are delivered again from there, by a new connection), SetOffset to the
// current position is a no-op that does not lose or repeat a record.
func VH_C02_ReaderPosition(rewind int) {
	vhConcreteClock(true)
	const n = 2
	var set []byte
	vals := make([][]byte, n)
	for i := 0; i < n; i++ {
		vals[i] = vhBytes("value", 2)
		set = append(set, vhEncMessage(int64(i), 1, 0, 1600000000000, nil, vals[i])...)
	}
	meta := append(vhApiVersionsFrame(1, []vhApiRange{{int16(metadata), 0, 1}}), vhMetadataResponse(2, 1, "t", 0, 0, 1)...)
	var s []byte
	s = append(s, vhListOffsetsFrame(1, "t", 0, 0, -1, 0)...)
	s = append(s, vhListOffsetsFrame(2, "t", 0, 0, -1, int64(n))...)
	s = append(s, vhListOffsetsFrame(3, "t", 0, 0, -1, 0)...)
	s = append(s, vhListOffsetsFrame(4, "t", 0, 0, -1, int64(n))...)
	s = append(s, vhApiVersionsFrame(5, []vhApiRange{{int16(fetch), 0, 2}})...)
	s = append(s, vhFetchResponse(6, 2, 0, "t", 0, 0, int64(n), set)...)
	mk := func() *vhFakeConn { return &vhFakeConn{data: s, gate: make(chan struct{}), gateAfter: len(s)} }
	conns := []*vhFakeConn{{data: meta}, mk(), {data: meta}, mk()}
	dials := 0
	d := &Dialer{DialFunc: func(c context.Context, network, address string) (net.Conn, error) {
		if dials >= len(conns) {
			return nil, io.ErrClosedPipe
		}
		fc := conns[dials]
		dials++
		return fc, nil
	}}
	r := NewReader(ReaderConfig{Brokers: []string{"b:9092"}, Topic: "t", Partition: 0, Dialer: d, MinBytes: 1, MaxBytes: 100000, MaxWait: time.Second,
		ReadLagInterval: -1})
	ctx := context.Background()
	m, err := r.ReadMessage(ctx)
	vhAssert(err == nil && m.Offset == 0 && vhBytesEq(m.Value, vals[0]), "first-record-delivered")
	vhAssert(r.Offset() == 1, "position-follows-the-delivered-record")
	if rewind == 1 {
		vhAssert(r.SetOffset(0) == nil, "set-offset-ok")
		vhAssert(r.Offset() == 0, "set-offset-moves-the-position")
		m, err = r.ReadMessage(ctx)
		vhAssert(err == nil && m.Offset == 0 && vhBytesEq(m.Value, vals[0]), "rewound-reader-delivers-from-the-requested-offset")
		vhAssert(r.Offset() == 1, "position-follows-the-delivered-record")
	} else {
		vhAssert(r.SetOffset(1) == nil, "set-offset-to-the-current-position-ok")
	}
	m, err = r.ReadMessage(ctx)
	vhAssert(err == nil && m.Offset == 1 && vhBytesEq(m.Value, vals[1]), "next-record-delivered-once")
	vhAssert(r.Offset() == 2, "position-follows-the-delivered-record")
	closedCh := make(chan struct{})
	go func() { r.Close(); close(closedCh) }()
	<-closedCh
	vhReach("c02-reader-position")
}
