package kafka

import (
	"io"
)

// C02: the Reader/Conn path delivers exactly the partition's records from its position, in order.
// H1: one fetch = one inductive step. Conn.offset = o (symbolic); the broker's answer is built by the reference
// encoder from a symbolic partition-log fragment; the harness drains the batch and closes it.

func VH_C02_FetchV2Batches(version, nb, segments int) {
	vhConcreteClock(true)
	o := vhInt64("position")
	first := vhInt64("log_fragment_start")
	vhAssume(vhAll(first >= 0, first < 1<<40, o >= first, o <= first+2))
	wire, stored, next, firstEnd := vhLogV2(nb, first)
	// a broker answers a fetch at position o with the batch that contains o (it may start below o) and the
	// batches after it - never with batches that lie entirely below o
	vhAssume(o <= firstEnd)
	hwm := next + 10
	f1 := vhApiVersionsFrame(1, []vhApiRange{{int16(fetch), 0, int16(version)}, {int16(listOffsets), 0, 1}})
	f2 := vhFetchResponse(2, version, 0, "t", 0, 0, hwm, wire)
	fc := &vhFakeConn{data: append(append([]byte{}, f1...), f2...)}
	if segments == 1 {
		// the fetch response arrives in two TCP segments, cut at any byte of the record data
		fc.segment = len(f1) + len(f2) - len(wire) + vhChoose("segment_cut", len(wire))
	}
	c := NewConnWith(fc, ConnConfig{Topic: "t", Partition: 0, ClientID: "vh"})
	_, serr := c.Seek(o, SeekAbsolute|SeekDontCheck)
	vhAssert(serr == nil, "seek-ok")
	b := c.ReadBatchWith(ReadBatchConfig{MinBytes: 1, MaxBytes: 100000})
	var got []Message
	var lastErr error
	for i := 0; i < len(stored)+2; i++ {
		m, err := b.ReadMessage()
		if err != nil {
			lastErr = err
			break
		}
		got = append(got, m)
	}
	cerr := b.Close()
	vhAssert(lastErr == io.EOF, "batch-ends-with-EOF-after-the-last-record")
	vhAssert(cerr == nil, "close-ok")
	// expected: the stored records with offset >= o, in order
	var want []vhStored
	for _, s := range stored {
		if s.offset >= o {
			want = append(want, s)
		}
	}
	vhAssert(len(got) == len(want), "delivers-exactly-the-stored-records-at-or-after-the-position")
	for i := range want {
		if i >= len(got) {
			break
		}
		g := got[i]
		vhAssert(g.Offset == want[i].offset, "offsets-in-order-each-once")
		vhAssert(vhAll(vhBytesEq(g.Key, want[i].key), vhBytesEq(g.Value, want[i].value)), "stored-key-and-value")
		vhAssert(g.Time.Unix()*1000+int64(g.Time.Nanosecond())/1000000 == want[i].ts, "millisecond-timestamp")
		vhAssert(vhAll(g.Topic == "t", g.Partition == 0), "topic-and-partition")
	}
	// the connection's next position: past everything delivered, nothing stored skipped, not beyond the fragment
	no, _ := c.Offset()
	if len(want) > 0 {
		vhAssert(no > want[len(want)-1].offset, "position-moves-past-the-last-delivered-record")
	}
	vhAssert(no >= o, "position-never-moves-backwards")
	vhAssert(no <= next, "position-does-not-skip-stored-records-beyond-the-fragment")
	// progress: the response was complete, so the next fetch starts right after its last batch - staying on an
	// offset that compaction removed would fetch the same batches again for ever
	vhAssert(no == next, "position-moves-past-the-last-complete-batch")
	vhReach("c02-fetch-v2")
}

// older message formats (0 and 1), uncompressed: nm messages at increasing symbolic offsets
func VH_C02_FetchMessageSet(version, magic, nm int) {
	vhConcreteClock(true)
	o := vhInt64("position")
	first := vhInt64("log_fragment_start")
	vhAssume(vhAll(first >= 0, first < 1<<40, o >= first, o <= first+2))
	var wire []byte
	var stored []vhStored
	off := first
	for i := 0; i < nm; i++ {
		off += int64(vhChoose("gap", 2)) // compaction may leave gaps between messages
		ts := int64(1600000000000 + 1000*i)
		k := vhBytes("key", 1)
		v := vhBytes("value", 2)
		wire = append(wire, vhEncMessage(off, int8(magic), 0, ts, k, v)...)
		if magic == 0 {
			ts = 0
		}
		stored = append(stored, vhStored{offset: off, ts: ts, key: k, value: v})
		off++
	}
	f1 := vhApiVersionsFrame(1, []vhApiRange{{int16(fetch), 0, int16(version)}, {int16(listOffsets), 0, 1}})
	f2 := vhFetchResponse(2, version, 0, "t", 0, 0, off+10, wire)
	fc := &vhFakeConn{data: append(append([]byte{}, f1...), f2...)}
	c := NewConnWith(fc, ConnConfig{Topic: "t", Partition: 0, ClientID: "vh"})
	c.Seek(o, SeekAbsolute|SeekDontCheck)
	b := c.ReadBatchWith(ReadBatchConfig{MinBytes: 1, MaxBytes: 100000})
	var got []Message
	var lastErr error
	for i := 0; i < nm+2; i++ {
		m, err := b.ReadMessage()
		if err != nil {
			lastErr = err
			break
		}
		got = append(got, m)
	}
	cerr := b.Close()
	vhAssert(lastErr == io.EOF && cerr == nil, "message-set-ends-with-EOF")
	var want []vhStored
	for _, s := range stored {
		if s.offset >= o {
			want = append(want, s)
		}
	}
	vhAssert(len(got) == len(want), "delivers-exactly-the-stored-messages-at-or-after-the-position")
	for i := range want {
		if i >= len(got) {
			break
		}
		vhAssert(vhAll(got[i].Offset == want[i].offset, vhBytesEq(got[i].Key, want[i].key), vhBytesEq(got[i].Value, want[i].value)), "message-content-in-order")
		if magic == 1 {
			vhAssert(got[i].Time.Unix()*1000+int64(got[i].Time.Nanosecond())/1000000 == want[i].ts, "message-timestamp")
		}
	}
	no, _ := c.Offset()
	if len(want) > 0 {
		vhAssert(no == want[len(want)-1].offset+1, "position-is-last-delivered-plus-one")
	}
	vhReach("c02-fetch-messageset")
}
