package kafka

import (
	"context"
	"errors"
	"io"
	"net"
	"syscall"

	meta "github.com/segmentio/kafka-go/protocol/metadata"
	pproduce "github.com/segmentio/kafka-go/protocol/produce"
)

// vhTransport is a RoundTripper standing for the cluster: it answers metadata requests with `partitions`
// partitions per topic and decides the fate of every produce request with a nondeterministic outcome.
// It keeps the ground truth: a journal of produce requests with what happened to each.
type vhProduced struct {
	topic     string
	partition int32
	ids       []int // message ids (first byte of the value)
	applied   bool  // the records were appended to the log
	acked     bool  // the client received an acknowledgement
	outcome   int
	code      int16
	acks      int16
}

const (
	vhAcked       = 0 // applied, acknowledged
	vhAckLost     = 1 // applied, the response is lost: transient network error reaches the client
	vhKafkaError  = 2 // rejected with an error code in the response
	vhNetError    = 3 // not applied, transient network error (connection reset before the request was processed)
	vhOtherError  = 4 // not applied, a permanent local error
	vhNumOutcomes = 5
)

type vhTransport struct {
	partitions int
	journal    []vhProduced
	maxCalls   int
	usedSymbolicCode bool
	budget     int // number of produce requests whose outcome is nondeterministic (0 = all)
	fixed      []int // optional scripted outcomes (by produce call index); beyond it outcomes are chosen
	partsByTopic map[string]int // optional: partitions per topic (default: `partitions`)
}

func (t *vhTransport) RoundTrip(ctx context.Context, addr net.Addr, req Request) (Response, error) {
	switch r := req.(type) {
	case *meta.Request:
		res := &meta.Response{}
		for _, name := range r.TopicNames {
			rt := meta.ResponseTopic{Name: name}
			np := t.partitions
			if n, ok := t.partsByTopic[name]; ok {
				np = n
			}
			for p := 0; p < np; p++ {
				rt.Partitions = append(rt.Partitions, meta.ResponsePartition{PartitionIndex: int32(p)})
			}
			res.Topics = append(res.Topics, rt)
		}
		return res, nil
	case *pproduce.Request:
		rec := vhProduced{topic: r.Topics[0].Topic, partition: r.Topics[0].Partitions[0].Partition, acks: r.Acks}
		vhAssert(vhAll(len(r.Topics) == 1, len(r.Topics[0].Partitions) == 1), "produce-request-has-one-topic-partition")
		rr := r.Topics[0].Partitions[0].RecordSet.Records
		for {
			x, err := rr.ReadRecord()
			if err != nil {
				break
			}
			b := make([]byte, 1)
			x.Value.Read(b)
			rec.ids = append(rec.ids, int(b[0]))
		}
		n := len(t.journal)
		if n < len(t.fixed) {
			rec.outcome = t.fixed[n]
		} else if t.budget > 0 && n >= t.budget {
			rec.outcome = vhAcked // the fault budget is spent: the remaining requests are acknowledged
		} else {
			rec.outcome = vhChoose("produce_outcome", vhNumOutcomes)
		}
		var res Response
		var err error
		switch rec.outcome {
		case vhAcked:
			rec.applied, rec.acked = true, true
			res = vhProduceResp(rec.topic, rec.partition, 0, int64(100*n))
		case vhAckLost:
			rec.applied = true
			err = io.ErrUnexpectedEOF
		case vhKafkaError:
			if !t.usedSymbolicCode {
				// one fully symbolic error code per run (its classification forks ~30 ways) ...
				t.usedSymbolicCode = true
				rec.code = vhInt16("produce_error_code")
				vhAssume(rec.code != 0)
			} else if vhChoose("produce_error_kind", 2) == 0 {
				rec.code = 6 // ... further ones: NotLeaderForPartition (temporary)
			} else {
				rec.code = 10 // or MessageSizeTooLarge (permanent)
			}
			res = vhProduceResp(rec.topic, rec.partition, rec.code, -1)
		case vhNetError:
			err = syscall.ECONNRESET
		default:
			err = errors.New("vh: permanent failure")
		}
		t.journal = append(t.journal, rec)
		return res, err
	}
	return nil, errors.New("vh: unexpected request")
}

func vhProduceResp(topic string, partition int32, code int16, base int64) *pproduce.Response {
	return &pproduce.Response{Topics: []pproduce.ResponseTopic{{Topic: topic, Partitions: []pproduce.ResponsePartition{{Partition: partition, ErrorCode: code, BaseOffset: base}}}}}
}

// vhRetriableCode: the library documents Error.Temporary() as the classification of retriable broker errors;
// the harness uses it, and additionally pins down a core of well-known codes independently (Kafka error table).
func vhRetriableCode(c int16) bool { return Error(c).Temporary() }

func vhCoreRetriable(c int16) bool {
	switch c {
	case 3, 5, 6, 7, 13, 19, 20:
		return true
	}
	return false
}

func vhCorePermanent(c int16) bool {
	switch c {
	case 1, 10, 17, 18, 21, 29, 31, 87:
		return true
	}
	return false
}
