package kafka

import (
	"errors"
	"time"
)

// C11: a Conn stays usable after broker-reported errors and is never reused misaligned.
// A single-goroutine Conn over vhFakeConn numbers its requests 1,2,3,...; request 1 is ApiVersions (lazy
// negotiation). The broker side is a script of hand-encoded response frames (shared/wire.go).

type vhApiRange struct{ key, min, max int16 }

func vhApiVersionsFrame(corr int32, ranges []vhApiRange) []byte {
	w := &vhW{}
	w.i16(0) // error code
	w.i32(int32(len(ranges)))
	for _, r := range ranges {
		w.i16(r.key)
		w.i16(r.min)
		w.i16(r.max)
	}
	return vhFrameOf(corr, w.b)
}

// the broker advertises exactly `v` as the highest version of `key` and v1 of ListOffsets, v1 of Metadata
func vhAdvertise(corr int32, key apiKey, v int16) []byte {
	return vhApiVersionsFrame(corr, []vhApiRange{
		{int16(key), 0, v},
		{int16(listOffsets), 0, 1},
	})
}

func vhListOffsetsFrame(corr int32, topic string, partition int32, code int16, ts, offset int64) []byte {
	w := &vhW{}
	w.i32(1)
	w.str(topic)
	w.i32(1)
	w.i32(partition)
	w.i16(code)
	w.i64(ts)
	w.i64(offset)
	return vhFrameOf(corr, w.b)
}

func vhIsKafkaError(err error) bool {
	var ke Error
	return errors.As(err, &ke)
}

// vhAfterOp states the property for the state of the connection after one operation returned `err`,
// given that the broker's frames so far add up to `sent` bytes.
func vhAfterOp(c *Conn, fc *vhFakeConn, err error, sent int, what string) {
	consumed := fc.off - c.rbuf.Buffered()
	if err == nil || vhIsKafkaError(err) {
		vhAssert(!fc.closed, what+"-conn-kept-after-broker-reported-error")
		vhAssert(consumed == sent, what+"-aligned-on-frame-boundary")
	} else {
		vhAssert(fc.closed, what+"-conn-closed-after-other-error")
	}
}

// vhFollowUp: the next operation behaves as on a fresh connection (it returns the values of its own frame).
func vhFollowUp(c *Conn, fc *vhFakeConn, wantOffset int64, what string) {
	if fc.closed {
		_, err := c.ReadLastOffset()
		vhAssert(err != nil, what+"-closed-conn-fails")
		return
	}
	off, err := c.ReadLastOffset()
	vhAssert(err == nil, what+"-followup-succeeds")
	vhAssert(off == wantOffset, what+"-followup-gets-its-own-response")
	vhReach("c11-followup")
}

func vhProduceResponse(corr int32, version int, topic string, partition int32, code int16, base, ts, logStart int64, throttle int32) []byte {
	w := &vhW{}
	w.i32(1)
	w.str(topic)
	w.i32(1)
	w.i32(partition)
	w.i16(code)
	w.i64(base)
	w.i64(ts) // log append time: v2+
	if version >= 5 {
		w.i64(logStart)
	}
	w.i32(throttle) // v1+
	return vhFrameOf(corr, w.b)
}

func VH_C11_Produce(version int) {
	code := vhInt16("error_code")
	base := vhInt64("base_offset")
	want := vhInt64("last_offset")
	f1 := vhAdvertise(1, produce, int16(version))
	f2 := vhProduceResponse(2, version, "t", 0, code, base, 1000, vhInt64("log_start"), vhInt32("throttle"))
	f3 := vhListOffsetsFrame(3, "t", 0, 0, -1, want)
	script := append(append(append([]byte{}, f1...), f2...), f3...)
	fc := &vhFakeConn{data: script}
	c := NewConnWith(fc, ConnConfig{Topic: "t", Partition: 0, ClientID: "vh"})
	_, _, off, _, err := c.WriteCompressedMessagesAt(nil, Message{Value: []byte("v"), Time: time.Unix(100, 0)})
	if code == 0 {
		vhAssert(err == nil, "produce-ok")
		vhAssert(off == base, "produce-returns-base-offset")
		vhReach("c11-produce-ok")
	} else {
		vhAssert(vhIsKafkaError(err), "produce-reports-broker-error")
		vhAssert(vhIsKafkaError(err) && errors.Is(err, Error(code)), "produce-reports-the-code")
		vhReach("c11-produce-error")
	}
	vhAfterOp(c, fc, err, len(f1)+len(f2), "produce")
	vhFollowUp(c, fc, want, "produce")
}

// A produce response carrying a partition error whose last k bytes are late: the read times out once after
// len-k bytes, the rest (and the next response) arrives afterwards. Either the error is the broker's and the
// connection is left on the frame boundary, or it is a transport error and the connection is closed.
func VH_C11_ProduceErrorStalled(version int) {
	code := vhInt16("error_code")
	vhAssume(code != 0)
	want := vhInt64("last_offset")
	f1 := vhAdvertise(1, produce, int16(version))
	f2 := vhProduceResponse(2, version, "t", 0, code, vhInt64("base_offset"), 1000, vhInt64("log_start"), vhInt32("throttle"))
	f3 := vhListOffsetsFrame(3, "t", 0, 0, -1, want)
	script := append(append(append([]byte{}, f1...), f2...), f3...)
	k := 1 + vhChoose("late_bytes", 8)
	fc := &vhFakeConn{data: script, stallAt: len(f1) + len(f2) - k}
	c := NewConnWith(fc, ConnConfig{Topic: "t", Partition: 0, ClientID: "vh"})
	_, _, _, _, err := c.WriteCompressedMessagesAt(nil, Message{Value: []byte("v"), Time: time.Unix(100, 0)})
	vhAssert(err != nil, "stalled-produce-error-is-reported")
	vhAfterOp(c, fc, err, len(f1)+len(f2), "stalled-produce")
	vhFollowUp(c, fc, want, "stalled-produce")
	vhReach("c11-produce-stalled")
}

func VH_C11_ListOffsets() {
	code := vhInt16("error_code")
	got := vhInt64("offset")
	want := vhInt64("last_offset")
	f1 := vhListOffsetsFrame(1, "t", 0, code, -1, got)
	f2 := vhListOffsetsFrame(2, "t", 0, 0, -1, want)
	fc := &vhFakeConn{data: append(append([]byte{}, f1...), f2...)}
	c := NewConnWith(fc, ConnConfig{Topic: "t", Partition: 0, ClientID: "vh"})
	off, err := c.ReadFirstOffset()
	if code == 0 {
		vhAssert(err == nil && off == got, "listoffsets-ok")
	} else {
		vhAssert(vhIsKafkaError(err) && errors.Is(err, Error(code)), "listoffsets-reports-the-code")
		vhReach("c11-listoffsets-error")
	}
	vhAfterOp(c, fc, err, len(f1), "listoffsets")
	vhFollowUp(c, fc, want, "listoffsets")
}

// ---------- fetch ----------

// vhMessageV1 encodes one uncompressed message of format 1 (CRC is not verified by the Conn path).
func vhMessageV1(offset int64, ts int64, key, value []byte) []byte {
	m := &vhW{}
	m.i32(0) // crc (not checked by the legacy reader)
	m.i8(1)  // magic
	m.i8(0)  // attributes
	m.i64(ts)
	m.bytes(key)
	m.bytes(value)
	w := &vhW{}
	w.i64(offset)
	w.i32(int32(len(m.b)))
	w.raw(m.b)
	return w.b
}

func VH_C11_Fetch(version, withTopLevel int) {
	code := vhInt16("partition_error")
	var topErr int16
	if withTopLevel >= 1 {
		topErr = vhInt16("top_level_error")
	}
	if withTopLevel == 2 {
		// a top-level error as brokers send it: no topic in the response
		vhAssume(topErr != 0)
		vhFetchNoTopics = true
	}
	if version >= 5 {
		vhFetchAborted = vhChoose("aborted_transactions_listed", 4) - 1
	}
	want := vhInt64("last_offset")
	val := vhBytes("value", 2)
	// the Conn first lists the first offset (Seek with SeekDontCheck does not), then negotiates versions
	f1 := vhApiVersionsFrame(1, []vhApiRange{{int16(fetch), 0, int16(version)}, {int16(listOffsets), 0, 1}})
	set := vhMessageV1(0, 1000, nil, val)
	if code != 0 || topErr != 0 {
		set = nil // brokers send no records along with an error
	}
	f2 := vhFetchResponse(2, version, topErr, "t", 0, code, 10, set)
	f3 := vhListOffsetsFrame(3, "t", 0, 0, -1, want)
	fc := &vhFakeConn{data: append(append(append([]byte{}, f1...), f2...), f3...)}
	c := NewConnWith(fc, ConnConfig{Topic: "t", Partition: 0, ClientID: "vh"})
	_, serr := c.Seek(0, SeekAbsolute|SeekDontCheck)
	vhAssert(serr == nil, "fetch-seek-ok")
	b := c.ReadBatchWith(ReadBatchConfig{MinBytes: 1, MaxBytes: 1000})
	msg, rerr := b.ReadMessage()
	cerr := b.Close()
	if code == 0 && topErr == 0 {
		vhAssert(rerr == nil, "fetch-delivers-the-record")
		vhAssert(vhAll(msg.Offset == 0, vhBytesEq(msg.Value, val)), "fetch-record-content")
		vhAssert(cerr == nil, "fetch-close-ok")
		vhReach("c11-fetch-ok")
	} else {
		vhAssert(vhIsKafkaError(rerr), "fetch-reports-broker-error")
		if withTopLevel == 2 {
			vhAssert(errors.Is(rerr, Error(topErr)), "fetch-reports-the-top-level-error-code")
		}
		vhReach("c11-fetch-error")
	}
	err := rerr
	if err == nil {
		err = cerr
	}
	vhAfterOp(c, fc, err, len(f1)+len(f2), "fetch")
	vhFollowUp(c, fc, want, "fetch")
}

// ---------- metadata ----------

func vhMetadataResponse(corr int32, version int, topic string, topicErr, partErr int16, leader int32) []byte {
	w := &vhW{}
	if version >= 3 {
		w.i32(0) // throttle
	}
	w.i32(1) // brokers
	w.i32(leader)
	w.str("h")
	w.i32(9092)
	w.nullStr() // rack
	if version >= 2 {
		w.nullStr() // cluster id
	}
	w.i32(leader) // controller
	w.i32(1)      // topics
	w.i16(topicErr)
	w.str(topic)
	w.boolean(false)
	w.i32(1) // partitions
	w.i16(partErr)
	w.i32(0)
	w.i32(leader)
	w.i32(1)
	w.i32(leader) // replicas
	w.i32(1)
	w.i32(leader) // isr
	if version >= 5 {
		w.i32(0) // offline replicas
	}
	return vhFrameOf(corr, w.b)
}

func VH_C11_Metadata(version int) {
	topicErr := vhInt16("topic_error")
	leader := vhInt32("leader")
	want := vhInt64("last_offset")
	f1 := vhApiVersionsFrame(1, []vhApiRange{{int16(metadata), 0, int16(version)}, {int16(listOffsets), 0, 1}})
	f2 := vhMetadataResponse(2, version, "t", topicErr, 0, leader)
	f3 := vhListOffsetsFrame(3, "t", 0, 0, -1, want)
	fc := &vhFakeConn{data: append(append(append([]byte{}, f1...), f2...), f3...)}
	c := NewConnWith(fc, ConnConfig{Topic: "t", Partition: 0, ClientID: "vh"})
	parts, err := c.ReadPartitions()
	if topicErr == 0 {
		vhAssert(err == nil && len(parts) == 1, "metadata-ok")
		vhAssert(vhAll(parts[0].ID == 0, parts[0].Leader.ID == int(leader), parts[0].Leader.Port == 9092), "metadata-values")
		vhReach("c11-metadata-ok")
	} else {
		vhAssert(vhIsKafkaError(err) && errors.Is(err, Error(topicErr)), "metadata-reports-the-code")
		vhReach("c11-metadata-error")
	}
	vhAfterOp(c, fc, err, len(f1)+len(f2), "metadata")
	vhFollowUp(c, fc, want, "metadata")
}

// ---------- group APIs (no version negotiation except joinGroup) ----------

func VH_C11_Group(op int) {
	code := vhInt16("error_code")
	want := vhInt64("last_offset")
	w := &vhW{}
	var f1 []byte
	n := int32(1)
	switch op {
	case 0: // heartbeat v0
		w.i16(code)
	case 1: // leaveGroup v0
		w.i16(code)
	case 2: // syncGroup v0
		w.i16(code)
		w.bytes([]byte{})
	case 3: // findCoordinator v0
		w.i16(code)
		w.i32(7)
		w.str("h")
		w.i32(9092)
	case 4: // offsetCommit v2
		w.i32(1)
		w.str("t")
		w.i32(1)
		w.i32(0)
		w.i16(code)
	case 5: // offsetFetch v1
		w.i32(1)
		w.str("t")
		w.i32(1)
		w.i32(0)
		w.i64(vhInt64("committed"))
		w.str("")
		w.i16(code)
	case 6: // joinGroup v1 (after negotiation)
		f1 = vhApiVersionsFrame(1, []vhApiRange{{int16(joinGroup), 0, 1}})
		n = 2
		w.i16(code)
		w.i32(3)
		w.str("range")
		w.str("leader")
		w.str("member")
		w.i32(0)
	case 7: // listGroups v1
		w.i32(0)
		w.i16(code)
		w.i32(1)
		w.str("g")
		w.str("consumer")
	case 8: // createTopics v0
		f1 = vhApiVersionsFrame(1, []vhApiRange{{int16(createTopics), 0, 0}})
		n = 2
		w.i32(1)
		w.str("t")
		w.i16(code)
	case 9: // deleteTopics v0
		f1 = vhApiVersionsFrame(1, []vhApiRange{{int16(deleteTopics), 0, 0}})
		n = 2
		w.i32(1)
		w.str("t")
		w.i16(code)
	}
	f2 := vhFrameOf(n, w.b)
	f3 := vhListOffsetsFrame(n+1, "t", 0, 0, -1, want)
	fc := &vhFakeConn{data: append(append(append([]byte{}, f1...), f2...), f3...)}
	c := NewConnWith(fc, ConnConfig{Topic: "t", Partition: 0, ClientID: "vh"})
	var err error
	switch op {
	case 0:
		_, err = c.heartbeat(heartbeatRequestV0{GroupID: "g", GenerationID: 1, MemberID: "m"})
	case 1:
		_, err = c.leaveGroup(leaveGroupRequestV0{GroupID: "g", MemberID: "m"})
	case 2:
		_, err = c.syncGroup(syncGroupRequestV0{GroupID: "g", GenerationID: 1, MemberID: "m"})
	case 3:
		_, err = c.findCoordinator(findCoordinatorRequestV0{CoordinatorKey: "g"})
	case 4:
		_, err = c.offsetCommit(offsetCommitRequestV2{GroupID: "g", GenerationID: 1, MemberID: "m"})
	case 5:
		_, err = c.offsetFetch(offsetFetchRequestV1{GroupID: "g"})
	case 6:
		_, err = c.joinGroup(joinGroupRequest{GroupID: "g", ProtocolType: "consumer"})
	case 7:
		_, err = c.listGroups(listGroupsRequestV1{})
	case 8:
		err = c.CreateTopics(TopicConfig{Topic: "t", NumPartitions: 1, ReplicationFactor: 1})
	case 9:
		err = c.DeleteTopics("t")
	}
	if code == 0 || (op == 8 && code == int16(TopicAlreadyExists)) {
		// CreateTopics documents that an already existing topic is not an error
		vhAssert(err == nil, "group-op-ok")
		vhReach("c11-group-ok")
	} else {
		vhAssert(vhIsKafkaError(err), "group-op-reports-broker-error")
		vhReach("c11-group-error")
	}
	vhAfterOp(c, fc, err, len(f1)+len(f2), "group")
	vhFollowUp(c, fc, want, "group")
}

// ApiVersions answered with an error code and a non-empty key array (what brokers send for UNSUPPORTED_VERSION):
// the error is reported, the connection stays aligned on the next frame and the next operation works.
func VH_C11_ApiVersionsError(nKeys int) {
	code := vhInt16("error_code")
	want := vhInt64("last_offset")
	w := &vhW{}
	w.i16(code)
	w.i32(int32(nKeys))
	for i := 0; i < nKeys; i++ {
		w.i16(int16(i))
		w.i16(0)
		w.i16(vhInt16("max_version"))
	}
	f1 := vhFrameOf(1, w.b)
	f2 := vhListOffsetsFrame(2, "t", 0, 0, -1, want)
	fc := &vhFakeConn{data: append(append([]byte{}, f1...), f2...)}
	c := NewConnWith(fc, ConnConfig{Topic: "t", Partition: 0, ClientID: "vh"})
	vs, err := c.ApiVersions()
	if code == 0 {
		vhAssert(err == nil && len(vs) == nKeys, "apiversions-ok")
	} else {
		vhAssert(vhIsKafkaError(err) && errors.Is(err, Error(code)), "apiversions-reports-the-code")
		vhReach("c11-apiversions-error")
	}
	vhAfterOp(c, fc, err, len(f1), "apiversions")
	vhFollowUp(c, fc, want, "apiversions")
}
