package kafka

import (
	"context"
	"net"
	"time"

	meta "github.com/segmentio/kafka-go/protocol/metadata"
	pproduce "github.com/segmentio/kafka-go/protocol/produce"
)

// C07 / C08: one inductive step of (*partitionWriter).writeMessages, the timer branch of awaitBatch and close,
// from an arbitrary pre-state that satisfies the representation invariant of an open batch.
//
// Messages are blobs (symbolic key/value lengths up to 2^20, contents never read), BatchBytes is symbolic,
// BatchSize is concrete per work item (the batch's message slice has concrete capacity). Message.Offset is used as
// a ghost submission id.

func vhBlobMessage(id int) Message {
	return Message{Key: vhBlob("key", 1<<20), Value: vhBlob("value", 1<<20), Offset: int64(id)}
}

func vhTotalSize(m *Message) int64 { return int64(23 + len(m.Key) + len(m.Value)) }

// vhOpenBatch builds an arbitrary open batch with s messages (ids firstID..) satisfying the invariant
// 1 <= size < batchSize, bytes < batchBytes, len(msgs) == size, bytes == sum of totalSize.
func vhOpenBatch(s, firstID, batchSize int, batchBytes int64) *writeBatch {
	b := &writeBatch{
		time:  time.Unix(1, 0),
		ready: make(chan struct{}),
		done:  make(chan struct{}),
		timer: time.NewTimer(time.Second),
		msgs:  make([]Message, 0, batchSize),
	}
	for i := 0; i < s; i++ {
		m := vhBlobMessage(firstID + i)
		b.msgs = append(b.msgs, m)
		b.size++
		b.bytes += vhTotalSize(&m)
	}
	vhAssume(b.bytes < batchBytes)
	return b
}

// vhCheckBatch: limits and bookkeeping of one batch; returns the ids it holds, in order.
func vhCheckBatch(b *writeBatch, batchSize int, batchBytes int64, closed bool, what string) []int {
	sum := int64(0)
	var ids []int
	for i := range b.msgs {
		sum += vhTotalSize(&b.msgs[i])
		ids = append(ids, int(b.msgs[i].Offset))
	}
	vhAssert(vhAll(b.size == len(b.msgs), b.bytes == sum), what+"-bookkeeping-consistent")
	vhAssert(b.size >= 1, what+"-not-empty")
	vhAssert(b.size <= batchSize, what+"-at-most-BatchSize-messages")
	// a batch may exceed BatchBytes only if it holds a single message (a message alone is validated against
	// BatchBytes by WriteMessages before it gets here)
	vhAssert(b.bytes <= batchBytes, what+"-at-most-BatchBytes")
	if !closed {
		vhAssert(vhAll(b.size < batchSize, b.bytes < batchBytes), what+"-open-batch-is-not-full")
	}
	return ids
}

func vhIsClosed(ch chan struct{}) bool {
	select {
	case <-ch:
		return true
	default:
		return false
	}
}

// step: 0 = writeMessages(k new messages), 1 = timer branch of awaitBatch on the open batch, 2 = close()
func VH_C08_Step(batchSize, preOpen, k, step int) {
	vhManual(true) // goroutines spawned by the code under test are recorded, not run
	vhConcreteClock(true)
	batchBytes := vhInt64("BatchBytes")
	vhAssume(vhAll(batchBytes >= 1, batchBytes < 1<<40))
	w := &Writer{BatchSize: batchSize, BatchBytes: batchBytes, Topic: "t"}
	ptw := &partitionWriter{meta: topicPartition{topic: "t", partition: 0}, queue: newBatchQueue(10), w: w}
	// pre-state: optionally one closed batch already queued, optionally an open batch
	nextID := 0
	var sigma []int // ghost: ids in queue order then open batch
	if preOpen > 0 {
		ptw.currBatch = vhOpenBatch(preOpen, nextID, batchSize, batchBytes)
		for i := 0; i < preOpen; i++ {
			sigma = append(sigma, nextID+i)
		}
		nextID += preOpen
	}
	open0 := ptw.currBatch

	switch step {
	case 0:
		msgs := make([]Message, k)
		idx := make([]int32, k)
		for i := range msgs {
			msgs[i] = vhBlobMessage(nextID + i)
			vhAssume(vhTotalSize(&msgs[i]) <= batchBytes) // validated by WriteMessages (messageTooLarge)
			idx[i] = int32(i)
			sigma = append(sigma, nextID+i)
		}
		res := ptw.writeMessages(msgs, idx)
		// every index is reported in exactly one batch
		seen := make([]int, k)
		for b, is := range res {
			for _, i := range is {
				seen[i]++
				found := false
				for j := range b.msgs {
					if int(b.msgs[j].Offset) == nextID+int(i) {
						found = true
					}
				}
				vhAssert(found, "index-reported-in-the-batch-that-holds-the-message")
			}
		}
		for i := range seen {
			vhAssert(seen[i] == 1, "every-message-in-exactly-one-batch")
		}
	case 1:
		// the flush timer of the open batch fires: run awaitBatch's timer branch
		if open0 != nil {
			vhFire(open0.timer)
			ptw.awaitBatch(open0)
			vhAssert(ptw.currBatch == nil, "timer-detaches-the-open-batch")
			q0, _ := vhQueueSnapshot(&ptw.queue)
			vhAssert(len(q0) == 1 && q0[0] == open0, "timer-queues-the-open-batch")
		}
	case 2:
		ptw.close()
		vhAssert(ptw.currBatch == nil, "close-detaches-the-open-batch")
		_, qClosed := vhQueueSnapshot(&ptw.queue)
		vhAssert(qClosed, "close-closes-the-queue")
		if open0 != nil {
			vhAssert(vhIsClosed(open0.ready), "close-triggers-the-open-batch")
		}
	}

	// post-state: everything queued respects the limits, order is preserved (C07), the open batch is not full
	var after []int
	queuedNow, _ := vhQueueSnapshot(&ptw.queue) // what a consumer of the queue gets, in order (through Put/Get/Close only)
	for qi, b := range queuedNow {
		after = append(after, vhCheckBatch(b, batchSize, batchBytes, true, "queued-batch")...)
		for qj := 0; qj < qi; qj++ {
			vhAssert(queuedNow[qj] != b, "batch-queued-at-most-once")
		}
		vhAssert(b != ptw.currBatch, "queued-batch-is-no-longer-current")
	}
	if ptw.currBatch != nil {
		after = append(after, vhCheckBatch(ptw.currBatch, batchSize, batchBytes, false, "open-batch")...)
		vhAssert(!vhIsClosed(ptw.currBatch.ready), "open-batch-not-triggered")
	}
	vhAssert(len(after) == len(sigma), "no-message-lost-or-duplicated")
	for i := range sigma {
		if i < len(after) {
			vhAssert(after[i] == sigma[i], "submission-order-preserved")
		}
	}
	// a batch that became full was queued in the same critical section: whatever is still open is not full
	// (asserted in vhCheckBatch), and every new batch got exactly one flush goroutine
	newBatches := len(queuedNow)
	if ptw.currBatch != nil && ptw.currBatch != open0 {
		newBatches++
	}
	if open0 != nil {
		for _, b := range queuedNow {
			if b == open0 {
				newBatches--
			}
		}
	}
	_ = newBatches
	if step == 0 && ptw.currBatch != nil && ptw.currBatch != open0 {
		// flushed without further input: when the timer of the batch left open expires, its flush goroutine
		// queues it (the goroutine was spawned by writeMessages; here it gets to run)
		open1 := ptw.currBatch
		queued := len(queuedNow)
		vhFire(open1.timer)
		vhRunAll()
		vhAssert(ptw.currBatch == nil, "open-batch-flushed-when-its-timer-expires")
		q1, _ := vhQueueSnapshot(&ptw.queue)
		vhAssert(len(q1) == queued+1 && q1[queued] == open1, "timer-queues-the-batch-left-open")
	}
	vhReach("c08-step")
}

// vhQueueSnapshot returns the batches a consumer of the queue would get, in order, and whether the queue is
// closed, using only the queue's own operations (Put, Get, Close, newBatchQueue) - not its representation. The
// queue is drained and rebuilt with the same content.
func vhQueueSnapshot(q *batchQueue) ([]*writeBatch, bool) {
	sentinel := &writeBatch{}
	closed := !q.Put(sentinel)
	q.Close()
	var items []*writeBatch
	for {
		b := q.Get()
		if b == nil {
			break
		}
		if b != sentinel {
			items = append(items, b)
		}
	}
	*q = newBatchQueue(10)
	for _, b := range items {
		q.Put(b)
	}
	if closed {
		q.Close()
	}
	return items, closed
}

// Validation at the API: WriteMessages rejects, before anything is sent, a message whose total size (key, value,
// timestamp AND headers) exceeds BatchBytes - the precondition the inductive step relies on. Sizes symbolic.
func VH_C08_Validation(n int) {
	vhConcreteClock(true)
	batchBytes := vhInt64("BatchBytes")
	vhAssume(vhAll(batchBytes >= 1, batchBytes < 1<<20))
	tr := &vhCountingTransport{}
	w := &Writer{Addr: TCP("vh:9092"), Topic: "t", BatchSize: 10, BatchBytes: batchBytes, BatchTimeout: time.Millisecond, Transport: tr, RequiredAcks: RequireAll}
	msgs := make([]Message, n)
	tooLarge := -1
	for i := range msgs {
		msgs[i] = Message{Key: vhBlob("key", 1<<19), Value: vhBlob("value", 1<<19)}
		if vhChoose("with_header", 2) == 1 {
			msgs[i].Headers = []Header{{Key: "h", Value: vhBlob("header_value", 1<<19)}}
		}
		// the documented size of a message: 4 + 1 + 1 + (4+len(key)) + (4+len(value)) + 8 + headers, where the
		// headers are a varint count and per header varint-length-prefixed key and value
		size := int64(4+1+1+4+4+8) + int64(len(msgs[i].Key)) + int64(len(msgs[i].Value)) + int64(vrefHeadersSize(msgs[i].Headers))
		if size > batchBytes && tooLarge < 0 {
			tooLarge = i
		}
	}
	err := w.WriteMessages(context.Background(), msgs...)
	if tooLarge >= 0 {
		var tl MessageTooLargeError
		vhAssert(vhAsAssign(err, &tl), "oversized-message-is-rejected-with-MessageTooLargeError")
		vhAssert(tr.produced == 0, "nothing-is-sent-when-a-message-is-oversized")
		vhReach("c08-validation-rejects")
	} else {
		vhAssert(err == nil, "messages-within-the-limit-are-written")
		vhReach("c08-validation-accepts")
	}
	w.Close()
}

// vhCountingTransport acknowledges every produce request without looking at the records (their sizes are
// symbolic, content-free blobs).
type vhCountingTransport struct{ produced int }

func (t *vhCountingTransport) RoundTrip(ctx context.Context, addr net.Addr, req Request) (Response, error) {
	switch r := req.(type) {
	case *meta.Request:
		res := &meta.Response{}
		for _, name := range r.TopicNames {
			res.Topics = append(res.Topics, meta.ResponseTopic{Name: name, Partitions: []meta.ResponsePartition{{PartitionIndex: 0}}})
		}
		return res, nil
	case *pproduce.Request:
		t.produced++
		return &pproduce.Response{Topics: []pproduce.ResponseTopic{{Topic: r.Topics[0].Topic, Partitions: []pproduce.ResponsePartition{{Partition: r.Topics[0].Partitions[0].Partition}}}}}, nil
	}
	return nil, vhErrCoordinator
}

func vrefVarintLen(v int64) int {
	u := uint64(v<<1) ^ uint64(v>>63)
	n := 1
	for u >= 0x80 {
		u >>= 7
		n++
	}
	return n
}

func vrefHeadersSize(hs []Header) int {
	n := vrefVarintLen(int64(len(hs)))
	for _, h := range hs {
		n += vrefVarintLen(int64(len(h.Key))) + len(h.Key) + vrefVarintLen(int64(len(h.Value))) + len(h.Value)
	}
	return n
}

// H5: the topic of a message is given either by the Writer or by the message, never by both and never by neither:
// a call that violates this is rejected up front (nothing is sent), whatever position the offending message has and
// also when the message names the very topic the Writer is configured with.
func VH_C08_TopicValidation(n int) {
	vhConcreteClock(true)
	tr := &vhCountingTransport{}
	writerTopic := ""
	if vhBool("writer_has_a_topic") {
		writerTopic = "t"
	}
	w := &Writer{Addr: TCP("vh:9092"), Topic: writerTopic, BatchSize: 10, BatchTimeout: time.Millisecond, Transport: tr, RequiredAcks: RequireAll}
	msgs := make([]Message, n)
	bad := false
	for i := range msgs {
		msgs[i] = Message{Value: []byte{byte(i)}}
		switch vhChoose("message_topic", 3) {
		case 1:
			msgs[i].Topic = "t" // the Writer's own topic, if it has one
		case 2:
			msgs[i].Topic = "u"
		}
		if (writerTopic != "") == (msgs[i].Topic != "") {
			bad = true
		}
	}
	err := w.WriteMessages(context.Background(), msgs...)
	if bad {
		vhAssert(err != nil, "topic-given-twice-or-not-at-all-is-rejected")
		vhAssert(tr.produced == 0, "nothing-is-sent-for-a-rejected-call")
		vhReach("c08-topic-rejected")
	} else {
		vhAssert(err == nil, "well-formed-call-is-written")
		vhReach("c08-topic-accepted")
	}
	w.Close()
}
