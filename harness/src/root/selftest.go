package kafka

import (
	"bytes"
	"context"
	"time"

	"github.com/segmentio/kafka-go/protocol"
	meta "github.com/segmentio/kafka-go/protocol/metadata"
)

// Translator validation (DESIGN 2.10): VT_SelfTest computes a vector of values from concrete pseudo-random
// inputs using the real code. It is run natively (go test) and in the engine's interpreter with the same seed;
// the two vectors must agree element by element, otherwise every check reports "engine self-test failed".
// Nothing here decides a property. CRC-dependent bytes are masked (the engine models CRC-32 as an
// uninterpreted function).

type vtRand struct{ s uint64 }

func (r *vtRand) next() uint64 {
	r.s = r.s*6364136223846793005 + 1442695040888963407
	return r.s >> 11
}

func (r *vtRand) bytes(n int) []byte {
	b := make([]byte, n)
	for i := range b {
		b[i] = byte(r.next())
	}
	return b
}

func vtSum(b []byte) int64 {
	h := int64(1469598103)
	for _, c := range b {
		h = h*31 + int64(c)
	}
	return h
}

func VT_SelfTest(seed int) []int64 {
	r := &vtRand{s: uint64(seed)*2654435761 + 1}
	var out []int64
	// balancers and hashes
	for i := 0; i < 12; i++ {
		key := r.bytes(int(r.next() % 13))
		n := 1 + int(r.next()%1000)
		parts := make([]int, n)
		for k := range parts {
			parts[k] = k
		}
		out = append(out, int64(murmur2(key)))
		out = append(out, int64((&Hash{}).Balance(Message{Key: key}, parts...)))
		out = append(out, int64((&ReferenceHash{}).Balance(Message{Key: key}, parts...)))
		out = append(out, int64(Murmur2Balancer{Consistent: true}.Balance(Message{Key: key}, parts...)))
	}
	rr := &RoundRobin{ChunkSize: int(r.next() % 5)}
	lb := &LeastBytes{}
	for i := 0; i < 10; i++ {
		out = append(out, int64(rr.Balance(Message{}, 0, 1, 2, 3, 4)))
		out = append(out, int64(lb.Balance(Message{Value: r.bytes(int(r.next() % 9))}, 3, 1, 2)))
	}
	// varints, sizes, time
	for i := 0; i < 12; i++ {
		v := int64(r.next()<<uint(r.next()%40)) - int64(r.next())
		out = append(out, int64(varIntLen(v)))
		var wb bytes.Buffer
		w := &writeBuffer{w: &wb}
		w.writeVarInt(v)
		out = append(out, vtSum(wb.Bytes()))
		ms := int64(r.next() % 4000000000000)
		out = append(out, timestamp(makeTime(ms)))
		out = append(out, timestamp(time.Unix(0, int64(r.next()%4000000000000000000))))
	}
	m := Message{Key: r.bytes(3), Value: r.bytes(5), Headers: []Header{{Key: "k", Value: r.bytes(2)}}}
	out = append(out, int64(m.totalSize()), int64(m.size()), int64(m.headerSize()))
	// reflective codec: metadata response round trip
	res := &meta.Response{ControllerID: int32(r.next()), Brokers: []meta.ResponseBroker{{NodeID: int32(r.next()), Host: "host", Port: 9092}},
		Topics: []meta.ResponseTopic{{Name: "topic", ErrorCode: int16(r.next()), Partitions: []meta.ResponsePartition{{PartitionIndex: 1, LeaderID: 7, ReplicaNodes: []int32{1, 2}, IsrNodes: []int32{2}}}}}}
	for _, v := range []int16{1, 5, 8} {
		var buf bytes.Buffer
		if err := protocol.WriteResponse(&buf, v, 77, res); err != nil {
			out = append(out, -1)
			continue
		}
		out = append(out, int64(buf.Len()), vtSum(buf.Bytes()))
		id, msg, err := protocol.ReadResponse(&buf, protocol.Metadata, v)
		if err != nil {
			out = append(out, -2)
			continue
		}
		got := msg.(*meta.Response)
		out = append(out, int64(id), int64(got.ControllerID), int64(len(got.Topics)), int64(got.Topics[0].ErrorCode), int64(got.Topics[0].Partitions[0].ReplicaNodes[1]))
	}
	// legacy codec through a Conn: list offsets request bytes and response parsing
	fc := &vhFakeConn{data: vhListOffsetsFrame(1, "t", 2, 0, -1, int64(r.next()%100000))}
	c := NewConnWith(fc, ConnConfig{Topic: "t", Partition: 2, ClientID: "selftest"})
	off, err := c.ReadLastOffset()
	out = append(out, off, vtSum(fc.written))
	if err != nil {
		out = append(out, -3)
	}
	// group balancers
	members := []GroupMember{{ID: "b", Topics: []string{"A"}}, {ID: "a", Topics: []string{"A", "B"}}, {ID: "c", Topics: []string{"B"}}}
	parts := []Partition{{Topic: "A", ID: 0}, {Topic: "A", ID: 1}, {Topic: "A", ID: 2}, {Topic: "B", ID: 0}, {Topic: "B", ID: 1}}
	for _, bal := range []GroupBalancer{RangeGroupBalancer{}, RoundRobinGroupBalancer{}} {
		asg := bal.AssignGroups(members, parts)
		for _, mm := range []string{"a", "b", "c"} {
			for _, t := range []string{"A", "B"} {
				s := int64(0)
				for _, p := range asg[mm][t] {
					s = s*10 + int64(p) + 1
				}
				out = append(out, s)
			}
		}
	}
	// writer batching bookkeeping
	w := &Writer{BatchSize: 3, BatchBytes: 100, Topic: "t"}
	ptw := &partitionWriter{meta: topicPartition{topic: "t"}, queue: newBatchQueue(10), w: w}
	msgs := make([]Message, 6)
	idx := make([]int32, 6)
	for i := range msgs {
		msgs[i] = Message{Value: r.bytes(int(r.next() % 40))}
		idx[i] = int32(i)
	}
	ptw.writeMessages(msgs, idx)
	queued, _ := vhQueueSnapshot(&ptw.queue)
	out = append(out, int64(len(queued)))
	for _, b := range queued {
		out = append(out, int64(b.size), b.bytes)
	}
	_ = context.Background
	return out
}
