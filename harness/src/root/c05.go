package kafka

import (
	"hash/crc32"
	"io"
	"time"

	"github.com/segmentio/kafka-go/protocol"
)

// C05 (Conn path, producer side): the produce request written by Conn.WriteMessages is parsed by hand and its
// record set decoded by the reference decoder: every record's millisecond timestamp, key, value, order.

type vhParsedProduce struct {
	ok        bool
	version   int16
	acks      int16
	topic     string
	partition int32
	recordSet []byte
}

func vhParseProduceRequest(b []byte) (p vhParsedProduce) {
	if len(b) < 4 {
		return
	}
	size := int(vhBE32(b))
	if len(b) != 4+size {
		return
	}
	r := &vhRd{b: b[4:]}
	if r.i16() != 0 {
		return
	}
	p.version = r.i16()
	r.i32()
	r.str()
	if p.version >= 3 {
		r.nullstr()
	}
	p.acks = r.i16()
	r.i32()
	if r.i32() != 1 {
		return
	}
	p.topic = r.str()
	if r.i32() != 1 {
		return
	}
	p.partition = r.i32()
	n := int(r.i32())
	if r.p+n != len(r.b) {
		return
	}
	p.recordSet = r.b[r.p:]
	p.ok = true
	return
}

type vhRd struct {
	b []byte
	p int
}

func (r *vhRd) u8() byte   { v := r.b[r.p]; r.p++; return v }
func (r *vhRd) i16() int16 { v := int16(uint16(r.b[r.p])<<8 | uint16(r.b[r.p+1])); r.p += 2; return v }
func (r *vhRd) i32() int32 { v := vhBE32(r.b[r.p:]); r.p += 4; return v }
func (r *vhRd) i64() int64 { hi := int64(r.i32()); lo := int64(uint32(r.i32())); return hi<<32 | lo }
func (r *vhRd) str() string {
	n := int(r.i16())
	s := string(r.b[r.p : r.p+n])
	r.p += n
	return s
}
func (r *vhRd) nullstr() {
	n := int(r.i16())
	if n > 0 {
		r.p += n
	}
}
func (r *vhRd) varint() int64 {
	var x uint64
	var s uint
	for {
		c := r.u8()
		x |= uint64(c&0x7f) << s
		if c&0x80 == 0 {
			break
		}
		s += 7
	}
	return int64(x>>1) ^ -int64(x&1)
}

// sub selects how record times are chosen: 0 = whole milliseconds, 1 = arbitrary nanoseconds (sub-millisecond parts)
func VH_C05_LegacyProduceV2Batch(version, n, sub int) {
	vhConcreteClock(true)
	f1 := vhApiVersionsFrame(1, []vhApiRange{{int16(produce), 0, int16(version)}})
	f2 := vhProduceResponse(2, version, "t", 0, 0, 0, 1000, 0, 0)
	fc := &vhFakeConn{data: append(append([]byte{}, f1...), f2...)}
	c := NewConnWith(fc, ConnConfig{Topic: "t", Partition: 0, ClientID: "vh"})
	msgs := make([]Message, n)
	ns := make([]int64, n)
	for i := range msgs {
		if sub == 1 {
			ns[i] = vhInt64("time_ns")
			vhAssume(vhAll(ns[i] >= 1000000000, ns[i] < 1004000000)) // within 4 ms after t = 1 s
			if i > 0 {
				vhAssume(ns[i] >= ns[i-1])
			}
		} else {
			ns[i] = 1000000000 + int64(i)*3000000
		}
		msgs[i] = Message{Key: vhBytes("key", 1), Value: vhBytes("value", 1), Time: time.Unix(0, ns[i])}
		if sub == 2 {
			// null vs empty: record i%2==0 has a null key and an empty value, the other an empty key and a null
			// value, plus one header with an empty value
			if i%2 == 0 {
				msgs[i].Key, msgs[i].Value = nil, []byte{}
			} else {
				msgs[i].Key, msgs[i].Value = []byte{}, nil
			}
			msgs[i].Headers = []Header{{Key: "h", Value: []byte{}}, {Key: "content-type", Value: vhBytes("header_value", 9)}}
		}
	}
	_, err := c.WriteMessages(msgs...)
	vhAssert(err == nil, "produce-ok")
	// skip the ApiVersions request, parse the produce request
	w := fc.written
	first := 4 + int(vhBE32(w))
	p := vhParseProduceRequest(w[first:])
	vhAssert(p.ok, "produce-request-well-formed")
	vhAssert(vhAll(int(p.version) == version, p.topic == "t", p.partition == 0), "produce-request-addressing")
	b := p.recordSet
	r := &vhRd{b: b}
	r.i64() // base offset
	blen := r.i32()
	vhAssert(int(blen) == len(b)-12, "batch-length")
	r.i32()
	vhAssert(int8(r.u8()) == 2, "magic-2")
	crc := uint32(r.i32())
	vhAssert(crc == crc32.Checksum(b[21:], crc32.MakeTable(crc32.Castagnoli)), "crc-covers-attributes-to-end")
	r.i16()
	lod := r.i32()
	firstTs := r.i64()
	r.i64()
	r.i64()
	r.i16()
	r.i32()
	count := r.i32()
	vhAssert(vhAll(int(count) == n, int(lod) == n-1), "count-and-last-offset-delta")
	for i := 0; i < n; i++ {
		l := int(r.varint())
		end := r.p + l
		r.u8()
		tsDelta := r.varint()
		od := r.varint()
		vhAssert(od == int64(i), "offset-delta-is-the-index")
		// what a consumer decodes: firstTimestamp + delta, must be the record's time in milliseconds
		vhAssert(firstTs+tsDelta == ns[i]/1000000, "decoded-timestamp-is-the-records-millisecond-timestamp")
		kl := int(r.varint())
		vhAssert((kl == -1) == (msgs[i].Key == nil), "null-key-is-length-minus-one-empty-key-is-length-zero")
		if kl < 0 {
			kl = 0
		}
		k := r.b[r.p : r.p+kl]
		r.p += kl
		vl := int(r.varint())
		vhAssert((vl == -1) == (msgs[i].Value == nil), "null-value-is-length-minus-one-empty-value-is-length-zero")
		if vl < 0 {
			vl = 0
		}
		v := r.b[r.p : r.p+vl]
		r.p += vl
		vhAssert(vhAll(vhBytesEq(k, msgs[i].Key), vhBytesEq(v, msgs[i].Value)), "key-and-value")
		nh := int(r.varint()) // headers
		vhAssert(nh == len(msgs[i].Headers), "header-count")
		for h := 0; h < nh; h++ {
			hkl := int(r.varint())
			hk := string(r.b[r.p : r.p+hkl])
			r.p += hkl
			hvl := int(r.varint())
			vhAssert(vhAll(hk == msgs[i].Headers[h].Key, hvl == len(msgs[i].Headers[h].Value)), "header-key-and-empty-value-length-zero")
			if hvl > 0 {
				r.p += hvl
			}
		}
		vhAssert(r.p == end, "record-length-field")
	}
	vhAssert(r.p == len(b), "batch-consumed-exactly")
	vhReach("c05-legacy-produce")
}

// Writer -> Client.Produce path: the record reader the Writer hands to the protocol encoder (writerRecords) yields,
// for every message of the batch in order, exactly its key, value, headers and time; a nil key or value stays null
// also when it follows a message that had one (the reader reuses one Record value), and the encoded v2 batch
// carries length -1 for null and the bytes otherwise.
func VH_C05_WriterRecords(n int) {
	vhConcreteClock(true)
	msgs := make([]Message, n)
	for i := range msgs {
		msgs[i] = Message{Time: time.Unix(1, 0)}
		switch vhChoose("key_kind", 3) {
		case 1:
			msgs[i].Key = []byte{}
		case 2:
			msgs[i].Key = vhBytes("key", 1)
		}
		switch vhChoose("value_kind", 3) {
		case 1:
			msgs[i].Value = []byte{}
		case 2:
			msgs[i].Value = vhBytes("value", 2)
		}
	}
	r := &writerRecords{msgs: msgs}
	for i := range msgs {
		rec, err := r.ReadRecord()
		vhAssert(err == nil && rec != nil, "one-record-per-message")
		if rec == nil {
			return
		}
		vhAssert((rec.Key == nil) == (msgs[i].Key == nil), "null-key-stays-null-in-the-record")
		vhAssert((rec.Value == nil) == (msgs[i].Value == nil), "null-value-stays-null-in-the-record")
		if rec.Key != nil {
			k, _ := protocol.ReadAll(rec.Key)
			vhAssert(vhBytesEq(k, msgs[i].Key), "record-key-bytes")
		}
		if rec.Value != nil {
			v, _ := protocol.ReadAll(rec.Value)
			vhAssert(vhBytesEq(v, msgs[i].Value), "record-value-bytes")
		}
	}
	_, err := r.ReadRecord()
	vhAssert(err == io.EOF, "record-reader-ends-with-EOF")
	vhReach("c05-writer-records")
}
