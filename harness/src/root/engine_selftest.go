package kafka

import (
	"bytes"
	"io"
	"sync"
	"time"
)

// Symbolic self-tests of the executor (spec ENGINE.json, run before every check): VH_E_ok_* must be proved without
// violation or inconclusive path, VH_E_bad_* must yield a counterexample that reproduces natively. They cover the
// engine features that the concrete translator self-test (VT_SelfTest) cannot: forking, slices of symbolic length,
// symbolic indices, case splits with the "cut" policy, the allocation obligation.

func vhEBuf() []byte {
	buf := make([]byte, 200)
	for i := range buf {
		buf[i] = byte(i)
	}
	return buf
}

func VH_E_ok_SymLenSlice() {
	buf := vhEBuf()
	n := vhIntRange("n", 0, 200)
	s := buf[:n]
	vhAssert(len(s) == n, "len")
	vhAssert(cap(s) == 200, "cap")
	src := []byte{9, 8, 7, 6, 5, 4, 3, 2, 1, 0}
	c := copy(s, src)
	want := n
	if want > 10 {
		want = 10
	}
	vhAssert(c == want, "copy-count")
	if n > 3 {
		vhAssert(buf[3] == 6, "copied")
	} else {
		vhAssert(buf[3] == 3, "not-copied")
	}
	t := s[:n/4]
	vhAssert(len(t) == n/4, "reslice-len")
	if n > 150 {
		vhAssert(s[150] == 150, "index")
	}
	var sum int
	for _, b := range t {
		sum += int(b)
	}
	vhAssert(sum >= 0, "range")
	vhReach("e-symlen")
}

func VH_E_ok_SymLenReader() {
	// the pattern of protocol.(*decoder).Read: b = b[:remain]; n, _ := reader.Read(b)
	data := []byte{1, 2, 3, 4, 5, 6, 7}
	r := bytes.NewReader(data)
	page := make([]byte, 4096)
	remain := vhIntRange("remain", 1, 4096)
	b := page
	if len(b) > remain {
		b = b[:remain]
	}
	n, err := r.Read(b)
	want := remain
	if want > 7 {
		want = 7
	}
	vhAssert(err == nil, "read-err")
	vhAssert(n == want, "read-count")
	vhAssert(page[0] == 1, "read-data")
	m, err2 := io.ReadFull(r, page[100:100+7-n])
	vhAssert(m == 7-n, "readfull-count")
	vhAssert(vhAny(err2 == nil, m == 0), "readfull-err")
	vhReach("e-symlen-reader")
}

func VH_E_bad_SymLenIndex() {
	buf := vhEBuf()
	n := vhIntRange("n", 0, 200)
	s := buf[:n]
	_ = s[100] // panics for n <= 100
}

func VH_E_bad_SymLenCopy() {
	buf := vhEBuf()
	n := vhIntRange("n", 0, 200)
	c := copy(buf[:n], []byte{1, 2, 3})
	vhAssert(c == 3, "copy-count-wrong") // fails for n < 3
}

func VH_E_bad_SliceBeyondCap() {
	buf := vhEBuf()
	n := vhIntRange("n", 0, 300)
	_ = buf[:n] // panics for n > 200
}

func VH_E_bad_Alloc() {
	vhAllocLimit(1 << 16)
	n := vhInt32("n")
	if n < 0 {
		return
	}
	b := make([]byte, n)
	_ = b
}

func VH_E_ok_AllocBounded() {
	vhAllocLimit(1 << 16)
	vhSplitCap(8)
	n := vhInt32("n")
	if n < 0 || n > 1<<16 {
		return
	}
	b := make([]byte, n)
	vhAssert(len(b) == int(n), "alloc-len")
	vhReach("e-alloc")
}

func VH_E_bad_CutStillChecksSmall() {
	// with the cut policy the values below the cap are still explored: the assertion fails for n == 5
	vhSplitCap(8)
	n := vhIntRange("n", 0, 1000)
	b := make([]byte, n)
	vhAssert(len(b) != 5, "small-value-explored")
}

func VH_E_ok_SymIndexArray() {
	var tab [4]io.Reader
	tab[2] = bytes.NewReader(nil)
	i := vhIntRange("i", 0, 3)
	r := tab[i]
	vhAssert(vhImplies(i == 2, r != nil), "iface-elem")
	vhAssert(vhImplies(i != 2, r == nil), "iface-elem-nil")
	vhReach("e-symindex")
}

func VH_E_bad_NegativeSizeUnderCut() {
	// the cut policy drops large sizes but never the negative ones: make panics for n < 0
	vhSplitCap(4)
	n := vhInt("n")
	vhAssume(n < 100)
	b := make([]byte, n)
	_ = b
}

// unbuffered channels are rendezvous points: a send completes only together with a receive
func VH_E_ok_Rendezvous() {
	ch := make(chan int)
	done := make(chan struct{})
	sent, selSent := false, false
	go func() { ch <- 1; sent = true }()
	vhRunAll()
	vhAssert(!sent, "unbuffered-send-waits-for-a-receiver")
	v := <-ch
	vhRunAll()
	vhAssert(v == 1 && sent, "rendezvous-hands-the-value-over")
	go func() {
		select {
		case ch <- 2:
			selSent = true
		case <-done:
		}
	}()
	vhRunAll()
	vhAssert(!selSent, "select-send-waits-for-a-receiver")
	var w int
	select {
	case w = <-ch:
	case <-done:
	}
	vhRunAll()
	vhAssert(w == 2 && selSent, "select-rendezvous")
	// a receiver parked first, the sender arrives later
	got := 0
	go func() { got = <-ch }()
	vhRunAll()
	ch <- 3
	vhRunAll()
	vhAssert(got == 3, "parked-receiver-gets-the-value")
	vhReach("e-rendezvous")
}

func VH_E_bad_SendWithoutReceiver() {
	ch := make(chan int)
	sent := false
	go func() { ch <- 1; sent = true }()
	vhRunAll()
	vhAssert(sent, "unbuffered-send-completed-without-a-receiver") // must be refuted
}

// time.Sleep lets the other goroutines run and returns when nothing else can run (the timer fires)
func VH_E_ok_SleepYields() {
	ran := false
	go func() { ran = true }()
	time.Sleep(time.Millisecond)
	vhAssert(ran, "other-goroutines-run-while-one-sleeps")
	time.Sleep(0)
	vhReach("e-sleep")
}

// lock hand-off (vhHandoff): a lock / look / unlock retry loop makes progress because every Unlock yields
func VH_E_ok_HandoffProgress() {
	vhHandoff(true)
	var mu sync.Mutex
	flag, seen := false, false
	go func() {
		for i := 0; i < 1000; i++ {
			mu.Lock()
			f := flag
			mu.Unlock()
			if f {
				seen = true
				return
			}
		}
	}()
	go func() {
		mu.Lock()
		flag = true
		mu.Unlock()
	}()
	vhRunAll()
	vhRunAll()
	vhAssert(seen, "retry-loop-sees-the-other-goroutines-update")
	vhReach("e-handoff")
}

func VH_E_bad_HandoffInterleaves() {
	vhHandoff(true)
	var mu sync.Mutex
	x, y := 0, 0
	go func() {
		mu.Lock()
		x = 1
		mu.Unlock()
		y = x // the other goroutine ran at the Unlock above
	}()
	go func() {
		mu.Lock()
		x = 2
		mu.Unlock()
	}()
	vhRunAll()
	vhRunAll()
	vhAssert(y == 1, "no-switch-at-unlock") // must be refuted
}

// the concrete clock moves on by the duration of a timer that fires
func VH_E_ok_ClockAdvances() {
	vhConcreteClock(true)
	t0 := time.Now()
	time.Sleep(5 * time.Second)
	vhAssert(time.Since(t0) >= 5*time.Second, "sleep-takes-at-least-its-duration")
	vhReach("e-clock")
}

func VH_E_bad_ClockStandsStill() {
	vhConcreteClock(true)
	t0 := time.Now()
	time.Sleep(5 * time.Second)
	vhAssert(time.Since(t0) < 5*time.Second, "clock-did-not-move") // must be refuted
}

// read-only guard: loads by repository code are fine, a store is reported
func VH_E_ok_ReadonlyGuardLoad() {
	c := &Conn{}
	vhGuarded(c, "offset", "readonly")
	vhGuardCheck(true)
	c.Offset()
	vhGuardCheck(false)
	vhReach("e-readonly")
}

func VH_E_bad_ReadonlyGuardStore() {
	rr := &RoundRobin{}
	vhGuarded(rr, "counter", "readonly")
	vhGuardCheck(true)
	rr.Balance(Message{}, 0, 1) // stores to rr.counter: must be reported
	vhGuardCheck(false)
}

// lockset analysis (vhWatch): repository code writing a watched object's field from two goroutines without a common
// lock is reported; the same accesses under the object's mutex are not
func VH_E_bad_LocksetUnlockedWriters() {
	wb := newWriteBatch(time.Unix(0, 0), time.Second)
	vhWatch(wb)
	vhGuardCheck(true)
	for g := 0; g < 2; g++ {
		go func() { wb.add(Message{Value: []byte("v")}, 10, 1000) }() // writeBatch.add relies on its caller's lock
	}
	vhRunAll()
	vhRunAll()
	vhGuardCheck(false)
}

func VH_E_ok_LocksetLockedWriters() {
	rr := &RoundRobin{}
	vhWatch(rr)
	vhGuardCheck(true)
	for g := 0; g < 2; g++ {
		go func() { rr.Balance(Message{}, 0, 1, 2) }()
	}
	vhRunAll()
	vhRunAll()
	vhGuardCheck(false)
	vhReach("e-lockset")
}
