package PKG

import "reflect"

// vhFillAny fills the exported fields of an addressable value with symbolic content (type-directed, plain Go
// over reflect + the vh primitives). shape: 0 = strings empty, slices nil; 1 = every string/blob one byte, every
// array one element; 3 = two of each; 2 = every string 0|1 bytes, every slice nil|empty|1 (product, by forking).
func vhFillAny(v reflect.Value, name string, shape int) {
	switch v.Kind() {
	case reflect.Bool:
		v.SetBool(vhBool(name))
	case reflect.Int8:
		v.SetInt(int64(vhInt8(name)))
	case reflect.Int16:
		v.SetInt(int64(vhInt16(name)))
	case reflect.Int32:
		v.SetInt(int64(vhInt32(name)))
	case reflect.Int64:
		v.SetInt(vhInt64(name))
	case reflect.Uint8:
		v.SetUint(uint64(vhByte(name)))
	case reflect.String:
		v.SetString(vhString(name, vhFillLen(name, shape, false)))
	case reflect.Slice:
		n := vhFillLen(name, shape, true)
		if n < 0 {
			return
		}
		if v.Type().Elem().Kind() == reflect.Uint8 {
			v.SetBytes(vhBytes(name, n))
			return
		}
		s := reflect.MakeSlice(v.Type(), n, n)
		for i := 0; i < n; i++ {
			vhFillAny(s.Index(i), name+"[]", shape)
		}
		v.Set(s)
	case reflect.Struct:
		t := v.Type()
		for i := 0; i < t.NumField(); i++ {
			if f := t.Field(i); f.PkgPath == "" {
				vhFillAny(v.Field(i), name+"."+f.Name, shape)
			}
		}
	}
}

func vhFillLen(name string, shape int, nilable bool) int {
	switch shape {
	case 0:
		if nilable {
			return -1
		}
		return 0
	case 1:
		return 1
	case 3:
		return 2
	}
	if nilable {
		return vhChoose(name+".len", 3) - 1
	}
	return vhChoose(name+".len", 2)
}
