package PKG

import "hash/crc32"

// Reference encoders for the record formats, written from the Kafka protocol guide ("Record Batch" and
// "Message sets"), independent of the library's own writers.

type vhRec struct {
	offsetDelta int64
	tsDelta     int64
	key, value  []byte // nil = null
	hkeys       []string
	hvals       [][]byte
}

func vhEncRecord(r vhRec) []byte {
	b := &vhW{}
	b.i8(0) // attributes
	b.varint(r.tsDelta)
	b.varint(r.offsetDelta)
	if r.key == nil {
		b.varint(-1)
	} else {
		b.varint(int64(len(r.key)))
		b.raw(r.key)
	}
	if r.value == nil {
		b.varint(-1)
	} else {
		b.varint(int64(len(r.value)))
		b.raw(r.value)
	}
	b.varint(int64(len(r.hkeys)))
	for i := range r.hkeys {
		b.varint(int64(len(r.hkeys[i])))
		b.raw([]byte(r.hkeys[i]))
		if r.hvals[i] == nil {
			b.varint(-1)
		} else {
			b.varint(int64(len(r.hvals[i])))
			b.raw(r.hvals[i])
		}
	}
	w := &vhW{}
	w.varint(int64(len(b.b)))
	w.raw(b.b)
	return w.b
}

// vhEncBatchV2 encodes one record batch (magic 2). count and lastOffsetDelta are given explicitly so that
// compacted batches (fewer records present than the header announces, or none) can be expressed.
func vhEncBatchV2(baseOffset int64, attributes int16, lastOffsetDelta int32, firstTs, maxTs int64, count int32, recs []vhRec) []byte {
	var payload []byte
	for _, r := range recs {
		payload = append(payload, vhEncRecord(r)...)
	}
	return vhEncBatchV2Raw(baseOffset, attributes, lastOffsetDelta, firstTs, maxTs, count, payload)
}

// vhEncBatchV2Raw: the records section is given as bytes (already compressed when attributes says so).
func vhEncBatchV2Raw(baseOffset int64, attributes int16, lastOffsetDelta int32, firstTs, maxTs int64, count int32, payload []byte) []byte {
	body := &vhW{}
	body.i16(attributes)
	body.i32(lastOffsetDelta)
	body.i64(firstTs)
	body.i64(maxTs)
	body.i64(-1) // producer id
	body.i16(-1) // producer epoch
	body.i32(-1) // base sequence
	body.i32(count)
	body.raw(payload)
	crc := crc32.Checksum(body.b, crc32.MakeTable(crc32.Castagnoli))
	w := &vhW{}
	w.i64(baseOffset)
	w.i32(int32(4 + 1 + 4 + len(body.b))) // batch length: leader epoch + magic + crc + rest
	w.i32(0)                              // partition leader epoch
	w.i8(2)                               // magic
	w.i32(int32(crc))
	w.raw(body.b)
	return w.b
}

// vhEncMessage encodes one message of format 0 or 1 (uncompressed unless attributes says otherwise).
func vhEncMessage(offset int64, magic int8, attributes int8, ts int64, key, value []byte) []byte {
	m := &vhW{}
	m.i8(magic)
	m.i8(attributes)
	if magic == 1 {
		m.i64(ts)
	}
	m.bytes(key)
	m.bytes(value)
	crc := crc32.ChecksumIEEE(m.b)
	w := &vhW{}
	w.i64(offset)
	w.i32(int32(4 + len(m.b)))
	w.i32(int32(crc))
	w.raw(m.b)
	return w.b
}

type vhStored struct {
	offset int64
	ts     int64
	key    []byte
	value  []byte
}

// vhLogV2 builds `nb` record batches (format 2) starting at symbolic base offsets, each with up to 2 records
// present; holes inside batches (compaction), missing tails (lastOffsetDelta beyond the last present record) and
// an empty retained batch are expressed through `shape` per batch:
//   0: two records with deltas 0,1 (lastOffsetDelta 1)         1: one record, delta 0 (lastOffsetDelta 0)
//   2: one record at delta 1, record 0 compacted (lastOffsetDelta 1)
//   3: one record at delta 0, tail compacted (lastOffsetDelta 2)  4: empty retained batch (count 0, lastOffsetDelta 2)
//   5: one record at delta 0, exactly one offset compacted off the tail (lastOffsetDelta 1)
// vhLogV2FirstShape >= 0 fixes the shape of the first batch (work split across items)
var vhLogV2FirstShape = -1

func vhLogV2(nb int, first int64) (wire []byte, stored []vhStored, next int64, firstBatchEnd int64) {
	base := first
	for b := 0; b < nb; b++ {
		shape := vhLogV2FirstShape
		if b > 0 || shape < 0 {
			shape = vhChoose("batch_shape", 6)
		}
		ts := int64(1600000000000 + 1000*b) // concrete: timestamp arithmetic is the subject of C05
		mk := func(delta int64) (vhRec, vhStored) {
			k := vhBytes("key", 1)
			v := vhBytes("value", 2)
			return vhRec{offsetDelta: delta, tsDelta: delta, key: k, value: v}, vhStored{offset: base + delta, ts: ts + delta, key: k, value: v}
		}
		var recs []vhRec
		var lod int32
		switch shape {
		case 0:
			r0, s0 := mk(0)
			r1, s1 := mk(1)
			recs, lod = []vhRec{r0, r1}, 1
			stored = append(stored, s0, s1)
		case 1:
			r0, s0 := mk(0)
			recs, lod = []vhRec{r0}, 0
			stored = append(stored, s0)
		case 2:
			r1, s1 := mk(1)
			recs, lod = []vhRec{r1}, 1
			stored = append(stored, s1)
		case 3:
			r0, s0 := mk(0)
			recs, lod = []vhRec{r0}, 2
			stored = append(stored, s0)
		case 4:
			recs, lod = nil, 2
		case 5:
			r0, s0 := mk(0)
			recs, lod = []vhRec{r0}, 1
			stored = append(stored, s0)
		}
		wire = append(wire, vhEncBatchV2(base, 0, lod, ts, ts+int64(lod), int32(len(recs)), recs)...)
		if b == 0 {
			firstBatchEnd = base + int64(lod)
		}
		base += int64(lod) + 1
	}
	return wire, stored, base, firstBatchEnd
}

