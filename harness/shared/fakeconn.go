package PKG

import (
	"io"
	"net"
	"time"
)

// vhFakeConn is a scripted net.Conn: it delivers `data` (optionally in segments) and then `endErr` (io.EOF by
// default); everything written is journaled. Plain Go: runs symbolically and natively.
type vhFakeConn struct {
	data    []byte
	off     int
	segment int // max bytes per Read (0 = everything available)
	endErr  error
	written []byte
	closed  bool
	reads   int
	// gate: when set, a Read at or beyond offset gateAfter blocks until the channel is closed (a response that is
	// still on its way: the request is in flight)
	gate      chan struct{}
	gateAfter int
	gateOpen  bool
	rdeadline *time.Timer // armed by SetReadDeadline/SetDeadline: a Read waiting at the gate times out when it fires
	rexpired  bool        // the read deadline has passed: every Read at the gate fails until the deadline is set again
	// stallAt: a Read that reaches this offset fails once with a timeout (the rest of the data arrives later)
	stallAt int
	stalled bool
}

type vhTimeoutError struct{}

func (vhTimeoutError) Error() string   { return "vh: i/o timeout" }
func (vhTimeoutError) Timeout() bool   { return true }
func (vhTimeoutError) Temporary() bool { return true }

type vhAddr struct{}

func (vhAddr) Network() string { return "tcp" }
func (vhAddr) String() string  { return "vh:9092" }

func (c *vhFakeConn) Read(b []byte) (int, error) {
	c.reads++
	if c.closed {
		return 0, io.ErrClosedPipe
	}
	if c.gate != nil && c.off >= c.gateAfter && !c.gateOpen {
		if c.rexpired {
			return 0, vhTimeoutError{}
		}
		if c.rdeadline != nil {
			select {
			case <-c.gate:
			case <-c.rdeadline.C:
				c.rexpired = true
				return 0, vhTimeoutError{}
			}
		} else {
			<-c.gate
		}
		if c.closed {
			return 0, io.ErrClosedPipe
		}
	}
	if c.off >= len(c.data) {
		if c.endErr != nil {
			return 0, c.endErr
		}
		return 0, io.EOF
	}
	if c.stallAt > 0 && !c.stalled && c.off == c.stallAt {
		c.stalled = true
		return 0, vhTimeoutError{}
	}
	avail := c.data[c.off:]
	if c.stallAt > 0 && !c.stalled && c.off < c.stallAt && len(avail) > c.stallAt-c.off {
		avail = avail[:c.stallAt-c.off]
	}
	if c.gate != nil && c.off < c.gateAfter && len(avail) > c.gateAfter-c.off {
		avail = avail[:c.gateAfter-c.off] // nothing beyond the gate is delivered early
	}
	if c.segment > 0 && len(avail) > c.segment {
		avail = avail[:c.segment]
	}
	n := copy(b, avail)
	c.off += n
	return n, nil
}

func (c *vhFakeConn) Write(b []byte) (int, error) {
	if c.closed {
		return 0, io.ErrClosedPipe
	}
	c.written = append(c.written, b...)
	return len(b), nil
}

func (c *vhFakeConn) Close() error {
	c.closed = true
	c.release() // a Read blocked on the gate returns (with an error: the connection is closed)
	return nil
}

// release opens the gate (once).
func (c *vhFakeConn) release() {
	if c.gate != nil && !c.gateOpen {
		c.gateOpen = true
		close(c.gate)
	}
}
// advance moves the gate forward: the data up to offset `to` is now available (a Read waiting at the old gate
// returns it), a Read that reaches `to` waits again.
func (c *vhFakeConn) advance(to int) {
	old := c.gate
	c.gateAfter = to
	c.gate = make(chan struct{})
	if old != nil && !c.gateOpen {
		close(old)
	}
}
func (c *vhFakeConn) LocalAddr() net.Addr                { return vhAddr{} }
func (c *vhFakeConn) RemoteAddr() net.Addr               { return vhAddr{} }
func (c *vhFakeConn) SetDeadline(t time.Time) error { return c.SetReadDeadline(t) }
func (c *vhFakeConn) SetReadDeadline(t time.Time) error {
	if c.gate == nil {
		return nil // deadlines only matter for connections that can make a Read wait
	}
	if c.rdeadline != nil {
		c.rdeadline.Stop()
		c.rdeadline = nil
	}
	c.rexpired = false
	if !t.IsZero() {
		c.rdeadline = time.NewTimer(time.Until(t))
	}
	return nil
}
func (c *vhFakeConn) SetWriteDeadline(t time.Time) error { return nil }
