package PKG

// vhW is a tiny byte-level writer for hand-built Kafka frames (reference encoder, written from the protocol
// guide, independent of both codecs of the library).
type vhW struct{ b []byte }

func (w *vhW) i8(v int8)   { w.b = append(w.b, byte(v)) }
func (w *vhW) u8(v byte)   { w.b = append(w.b, v) }
func (w *vhW) i16(v int16) { w.b = append(w.b, byte(v>>8), byte(v)) }
func (w *vhW) i32(v int32) { w.b = append(w.b, byte(v>>24), byte(v>>16), byte(v>>8), byte(v)) }
func (w *vhW) i64(v int64) {
	w.b = append(w.b, byte(v>>56), byte(v>>48), byte(v>>40), byte(v>>32), byte(v>>24), byte(v>>16), byte(v>>8), byte(v))
}
func (w *vhW) str(s string) {
	w.i16(int16(len(s)))
	w.b = append(w.b, s...)
}
func (w *vhW) nullStr() { w.i16(-1) }
func (w *vhW) bytes(p []byte) {
	if p == nil {
		w.i32(-1)
		return
	}
	w.i32(int32(len(p)))
	w.b = append(w.b, p...)
}
func (w *vhW) raw(p []byte) { w.b = append(w.b, p...) }
func (w *vhW) boolean(v bool) {
	if v {
		w.u8(1)
	} else {
		w.u8(0)
	}
}

// uvarint / varint (zig-zag) as in the Kafka record format.
func (w *vhW) uvarint(v uint64) {
	for v >= 0x80 {
		w.b = append(w.b, byte(v)|0x80)
		v >>= 7
	}
	w.b = append(w.b, byte(v))
}
func (w *vhW) varint(v int64) { w.uvarint(uint64(v<<1) ^ uint64(v>>63)) }

// frame wraps a response body: size prefix, correlation id, body.
func vhFrameOf(corr int32, body []byte) []byte {
	w := &vhW{}
	w.i32(int32(4 + len(body)))
	w.i32(corr)
	w.raw(body)
	return w.b
}

// vhFetchResponse builds a fetch response (v2, v5 or v10) for one topic/partition with the given raw message set.
// knobs of vhFetchResponse (package level so that the many callers keep their signature): the number of aborted
// transactions listed for the partition (v4+; -1: null) and whether a top-level error comes with an empty topic
// array, as brokers send it
var (
	vhFetchAborted  = -1
	vhFetchNoTopics = false
)

func vhFetchResponse(corr int32, version int, topErr int16, topic string, partition int32, code int16, hwm int64, msgSet []byte) []byte {
	w := &vhW{}
	w.i32(0) // throttle (v1+)
	if version >= 7 {
		w.i16(topErr)
		w.i32(0) // session id
	}
	if vhFetchNoTopics && version >= 7 {
		w.i32(0)
		return vhFrameOf(corr, w.b)
	}
	w.i32(1)
	w.str(topic)
	w.i32(1)
	w.i32(partition)
	w.i16(code)
	w.i64(hwm)
	if version >= 4 && vhFetchAborted >= 0 {
		w.i64(hwm)
		if version >= 5 {
			w.i64(0)
		}
		w.i32(int32(vhFetchAborted))
		for i := 0; i < vhFetchAborted; i++ {
			w.i64(int64(7000 + i)) // producer id
			w.i64(int64(i))        // first offset
		}
	} else if version >= 4 {
		w.i64(hwm) // last stable offset
		if version >= 5 {
			w.i64(0) // log start offset
		}
		w.i32(-1) // aborted transactions: null
	}
	w.i32(int32(len(msgSet)))
	w.raw(msgSet)
	return vhFrameOf(corr, w.b)
}

