#!/bin/sh
# usage: confirm_mutant.sh <worktree> <mN> <seed-id> <property>
# Confirms in the scratch worktree: patch applies, builds, baseline passes, demo fails with / passes without the change.
# On success stores /verif/seeded/<seed-id>/{patch.diff,demo_test.go,meta.json}.
set -u
wt=$1; m=$2; id=$3; prop=$4
export GOFLAGS=-mod=mod GOPROXY=off GOSUMDB=off GOTOOLCHAIN=local
cd "$wt" || exit 2
git checkout -q -- . 2>/dev/null
dir=.
[ -f _seed/${m}_demo_dir.txt ] && dir=$(cat _seed/${m}_demo_dir.txt | tr -d ' \n')
demo=$dir/zz_seed_${m}_demo_test.go
testname=TestSeedDemo$(echo $m | tr -d 'm')
cp _seed/${m}_demo_test.go "$demo"
echo "[$id] demo on original code:"
go test ${RACE:+-race} -vet=off -count=1 -run "^${testname}\$" ./$dir > /tmp/confirm_$id.orig 2>&1; r_orig=$?
tail -2 /tmp/confirm_$id.orig
git apply _seed/$m.diff || { echo "[$id] PATCH DOES NOT APPLY"; rm -f "$demo"; exit 1; }
go build ./... || { echo "[$id] BUILD FAILS"; git checkout -q -- .; rm -f "$demo"; exit 1; }
echo "[$id] demo with the change:"
go test ${RACE:+-race} -vet=off -count=1 -run "^${testname}\$" ./$dir > /tmp/confirm_$id.mut 2>&1; r_mut=$?
tail -3 /tmp/confirm_$id.mut
rm -f "$demo"
echo "[$id] baseline with the change:"
REPO=$wt /tmp/seedtools/baseline.sh > /tmp/confirm_$id.base 2>&1; r_base=$?
tail -1 /tmp/confirm_$id.base
git checkout -q -- .
git status --short | grep -v _seed | head -3
if [ $r_orig -eq 0 ] && [ $r_mut -ne 0 ] && [ $r_base -eq 0 ]; then
  mkdir -p /verif/seeded/$id
  cp _seed/$m.diff /verif/seeded/$id/patch.diff
  cp _seed/${m}_demo_test.go /verif/seeded/$id/demo_test.go
  python3 - "$id" "$prop" "$dir" "$testname" "$wt" "$m" <<'PY'
import json,sys,re
id,prop,d,t,wt,m=sys.argv[1:7]
notes=open(wt+'/_seed/notes.md').read()
json.dump({"id":id,"property":prop,"demo_package_dir":d,"demo_test":t,
 "confirmed":{"demo_passes_on_original":True,"demo_fails_with_change":True,"builds":True,"baseline_410_pass_with_change":True},
 "what_i_ran":["go test -vet=off -count=1 -run ^%s$ ./%s (original: pass; with patch: fail)"%(t,d),"go build ./... (with patch: ok)","baseline.sh over all modules with the patch: 410/410 stable tests pass"],
 "notes_from_author":notes},open('/verif/seeded/%s/meta.json'%id,'w'),indent=1)
PY
  echo "[$id] CONFIRMED"
else
  echo "[$id] NOT CONFIRMED orig=$r_orig mut=$r_mut base=$r_base"
fi
