#!/bin/sh
# exploratory: every property's thorough tier from a snapshot (vp run --with-repo), results only in the log
cd "$(dirname "$0")/.." || exit 2
V=$PWD
R=${VP_RUN_REPO:-/repo}
(cd engine && GOFLAGS=-mod=vendor GOPROXY=off GOTOOLCHAIN=local go build -o $V/bin/gosmt .) || exit 2
for p in ${PROPS:-C13 C19 C18 C12 C14 C03 C08 C07 C05 C02 C16 C09 C15 C06 C10 C11 C17 C04 C20 C01}; do
  s=$(date +%s)
  out=$($V/bin/gosmt -verif $V -repo $R -prop $p -tier thorough -noevidence 2>&1 | grep -E "^(OK|VIOLATION|INCONCLUSIVE|KNOWN)|harness=" | head -6 | cut -c1-400)
  e=$(date +%s)
  echo "== $p $((e-s))s"; echo "$out"
done
