#!/bin/sh
# Runs the repository's test suite (guard tag OFF) without touching /repo/go.mod and compares with BASELINE.json:
# every test in stable_pass must still pass. Exit 0 when they all do.
set -u
W=$(mktemp -d)
trap 'rm -rf "$W"' EXIT
: > "$W/out.json"
for gm in $(cd /repo && find . -name go.mod | sort); do
  m=$(dirname "$gm")
  mkdir -p "$W/$m"
  cp "/repo/$m/go.mod" "$W/$m/go.mod"
  [ -f "/repo/$m/go.sum" ] && cp "/repo/$m/go.sum" "$W/$m/go.sum"
  (cd "/repo/$m" && GOFLAGS= GOPROXY=off GOSUMDB=off GOTOOLCHAIN=local go test -modfile="$W/$m/go.mod" -mod=mod -json -vet=off -count=1 -timeout 25m ./... >> "$W/out.json" 2>>"$W/err.txt")
done
python3 - "$W/out.json" <<'PY'
import json,sys
passed=set()
for l in open(sys.argv[1]):
    try: d=json.loads(l)
    except Exception: continue
    if d.get('Action')=='pass' and d.get('Test'):
        passed.add(d['Package']+'::'+d['Test'])
base=json.load(open('/root/.vp/BASELINE.json'))['stable_pass']
missing=[t for t in base if t not in passed]
print('baseline stable tests: %d, passing now: %d, missing: %d' % (len(base), len(base)-len(missing), len(missing)))
for t in missing[:20]: print('  MISSING', t)
sys.exit(1 if missing else 0)
PY
