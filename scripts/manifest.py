#!/usr/bin/env python3
# Regenerates /verif/MANIFEST.json from the table below (one entry per claimed property) and properties.jsonl.
import json, os
V = '/verif'
TECH = "bounded symbolic execution of the real code from go/ssa (own engine gosmt), assertions decided by z3/cvc5 over bit-vectors, counterexamples replayed natively"
claimed = {
 "C04": dict(text="For every registered API message type and version (requests and responses, read from the registry of the current tree at run time) a message of symbolic field values in the stated shapes is encoded by WriteRequest/WriteResponse and decoded again: the solver proves on every path that the frame is well formed (size prefix, header fields on the wire), that decoding consumes exactly one frame, returns no error, equals the original field by field and re-encodes to identical bytes.",
             note="Shapes: minimal/ones/twos (quick), + full(1) product (thorough). Record sets are one fixed batch (C05). The version filter of the comparison uses the repository's own struct-tag parser. unsafe build of package protocol not covered. Differential/legacy codec harnesses are listed in DESIGN.md when built."),
 "C11": dict(text="A single-goroutine Conn over a scripted net.Conn executes each operation (produce v2/v3/v7, fetch v2/v5/v10, list offsets, metadata v1/v6, group APIs, create/delete topics) against hand-encoded well-formed responses whose error-code fields are symbolic; on every path the solver proves: broker-reported error or success => connection kept and the read position is exactly at the next frame boundary, any other error => connection closed, and the follow-up operation returns its own response.",
             note="1 topic x 1 partition responses; frames are hand-encoded from the Kafka protocol guide (harness/shared/wire.go); single goroutine (concurrency is C06)."),
 "C12": dict(text="ApiKey.SelectVersion is executed with a symbolic client range (synthetic registry entry) and a symbolic advertised range: highest common version, inside both ranges, whenever they overlap. A connPool brought to its state by the real update() from symbolic metadata (distinct symbolic broker ids, symbolic leaders and controller) routes produce/fetch to the partition leader, create-topics to the controller, metadata to the control connection, rejects unroutable requests without sending, follows a leader move after the next update(), and serves topic-filtered metadata from the cache exactly as the brokers answered.",
             note="B<=3 brokers, P<=2 partitions (quick). Idle connections with buffered request channels are pre-populated so sendRequest is sequential; coordinator lookups, the refresh loop timing and connection churn are outside (listed in the evidence)."),
 "C13": dict(text="Every path of each Balance implementation is executed symbolically for keys of every content up to the stated length, a symbolic partition count in [1,2^31-1], arbitrary RoundRobin counter/ChunkSize and arbitrary LeastBytes counters; the solver proves the negated equivalence/membership assertions unsatisfiable on every path, or returns a key that is replayed natively.",
             note="Bounds: key length <= 8 (quick) / 32 (thorough); LeastBytes N <= 6/12; RoundRobin counter < 2^62. CRC-32 is an uninterpreted fold shared with the reference (polynomial trusted). sync.Mutex/Pool, math/rand, sort.Slice are stubs; concurrency is not explored here. Reference partitioners are transcriptions in harness/src/root/c13_ref.go."),
 "C14": dict(text="Range, RoundRobin and RackAffinity AssignGroups are executed for members with symbolic, pairwise distinct ids (every relative order), symbolic subscriptions, every assignment of racks and, for RackAffinity, every map iteration order: each partition of a subscribed topic exactly once and only at a subscriber, loads within one, independence of listing order, contiguous run / every k-th element ordered by member id, and the in-rack placement bound.",
             note="M<=3 members, P<=3 partitions, T<=2 topics, R=2 racks (quick); larger in thorough. Partition ids are concrete (the code never inspects them). sort.Slice is an insertion-sort shim."),
 "C17": dict(text="For each response type/version a well-formed frame over symbolic field values is delivered by a connection that ends (EOF or network error, one or two segments) after k bytes, for every k in [0,len): on every path ReadResponse returns a non-nil error and no message, without panic and within the unwinding bound.",
             note="Transport path (protocol.ReadResponse through protocol.Conn). Shapes minimal/ones (quick) + twos (thorough); quick covers the core APIs, thorough all registered types. The Conn-path truncation and reconnect behaviour are listed under outside_bounds in the evidence."),
 "C18": dict(text="Dialer.connect with a SASL mechanism over a scripted connection: handshake v0 (raw) and v1 (framed), symbolic error codes on handshake and authenticate answers, the broker closing after any frame, PLAIN with symbolic credentials and a stub multi-step mechanism with nondeterministic step outcomes: on every path only ApiVersions/SaslHandshake/SaslAuthenticate requests (or raw auth bytes) are written, success iff every step was accepted, failure returns no connection and closes the socket, and PLAIN's token is \\0user\\0pass byte for byte.",
             note="Conn created by a Dialer (legacy path). SCRAM cryptography and SASLprep are out of reach (stub state machine stands in); TLS not modelled; Transport connections are covered only up to what DESIGN.md states."),
 "C19": dict(text="Conn.Seek is executed for every whence mode with and without SeekDontCheck against symbolic first/last/current/offset values: result and stored position per the documented table, OffsetOutOfRange exactly outside [first,last] with the position unchanged; ReadOffsets returns the broker's values, a partition error is reported as that error, and the request asks for the connection's partition with the first/last sentinels.",
             note="1 topic x 1 partition hand-encoded responses; |offsets| < 2^61; Seek relative to the First/Last sentinels with SeekCurrent is outside. ListOffsets split/merge and Client mappings are listed as outside until their harness is added."),
 "C20": dict(text="protocol.ReadResponse is executed on N fully symbolic bytes per registered response type/version (size prefix honest with the body symbolic, and size prefix symbolic too): the solver shows that no path panics, that every loop stays within the unwinding bound, that every allocation whose size depends on the input stays below 64 KiB, and that the outcome is a message or an error.",
             note="N=16/8 bytes (quick, core APIs), deeper in thorough. Allocation obligation is checked at make/reflect.MakeSlice sites with input-dependent size. Record-batch fields covered by a CRC are out of scope (uninterpreted CRC). Legacy Conn readers are not part of this property."),
}
props = [json.loads(l)['id'] for l in open(V + '/properties.jsonl')]
pending = "check not built yet in this session (engine and harness under construction); it will be claimed once its bounded symbolic check runs clean on the unchanged tree"
na_reason = {}
m = {
 "version": 1,
 "setup_cmd": "cd /verif/engine && GOFLAGS=-mod=vendor GOPROXY=off GOTOOLCHAIN=local go build -o /verif/bin/gosmt .",
 "hooks": {"guard": "verif", "enable": "no hooks: harness files are injected with go/packages and go test -overlay, /repo is never written by the checks", "baseline_off_cmd": "/verif/scripts/baseline.sh", "source_commits": [], "add_only": True},
 "engines": [{"name": "gosmt", "path": "/verif/engine", "serves_properties": sorted(claimed), "kind_free_text": "own go/ssa symbolic executor emitting SMT-LIB2 to z3 / cvc5 (bounded symbolic execution of the real code), native replay of counterexamples"}],
 "checks": [],
 "notes": "fix: commits in /repo and findings are listed in /verif/known_findings.json; DESIGN.md describes engine, harnesses, bounds.",
 "not_applicable": [],
}
for p in props:
    if p in claimed:
        c = claimed[p]
        m["checks"].append({"property_id": p, "quick_cmd": "./check %s quick" % p, "thorough_cmd": "./check %s thorough" % p,
            "evidence_file": "/verif/evidence/%s.json" % p, "replay_cmd_template": "./check --replay {path}", "engine": "gosmt", "technique": TECH,
            "level_claimed": {"category": "model_checking", "text": c["text"], "design_ref": "DESIGN.md section 3 (%s)" % p}, "level_note": c["note"]})
    else:
        m["not_applicable"].append({"property_id": p, "reason": na_reason.get(p, pending)})
json.dump(m, open(V + '/MANIFEST.json', 'w'), indent=1)
print("claimed:", sorted(claimed))
