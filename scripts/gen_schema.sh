#!/bin/sh
# Regenerates harness/src/protocol/c04_schema.go (the wire-schema snapshot used by the C04 reference encoder) from
# the struct tags of the tree in /repo. Run ONLY on a tree whose schema is trusted (it was run once, on the pinned
# commit); the checks never run it.
set -e
d=$(mktemp -d)
cp /verif/scripts/gen_schema/gen_test.go.txt $d/gen_test.go
cp /verif/scripts/gen_schema/reg.go.txt $d/reg.go
cp /repo/go.mod /repo/go.sum $d/
cat > $d/overlay.json <<EOT
{"Replace": {"/repo/protocol/zz_gen_schema_test.go": "$d/gen_test.go", "/repo/protocol/zz_gen_reg.go": "$d/reg.go"}}
EOT
cd /repo
VH_SCHEMA_OUT=/verif/harness/src/protocol/c04_schema.go GOFLAGS= GOPROXY=off GOSUMDB=off GOTOOLCHAIN=local \
  go test -overlay $d/overlay.json -modfile $d/go.mod -mod=mod -vet=off -count=1 -run TestGenSchema -v ./protocol
rm -rf $d
