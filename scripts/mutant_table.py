#!/usr/bin/env python3
# regenerates the table of section 6 of DESIGN.md from seeded/RESULTS.txt (or the file given) and the patch.diff files
import re, sys, os
res = sys.argv[1] if len(sys.argv) > 1 else '/verif/seeded/RESULTS.txt'
rows = []
stats = {'VIOLATION': 0, 'other': []}
def key(l):
    m = re.match(r'C(\d+)-m(\d+)', l); return (int(m.group(1)), int(m.group(2)))
for l in sorted(open(res).read().splitlines(), key=key):
    parts = l.split(' ', 3)
    mid, verdict = parts[0], parts[1]
    what = parts[3] if len(parts) > 3 else ''
    diff = open('/verif/seeded/%s/patch.diff' % mid).read()
    files = re.findall(r'^\+\+\+ b/(.*)$', diff, re.M)
    hunk = re.search(r'^@@.*@@ ?(.*)$', diff, re.M).group(1).replace('func ', '').strip()[:60]
    m = re.search(r'harness=(\S+) args=\S.*? kind=(\S+) id=(\S+)', what)
    if not m:
        m = re.search(r'harness=(\S+) .*?kind=(\S+) id=(\S+)', what)
    if verdict == 'VIOLATION':
        stats['VIOLATION'] += 1
    else:
        stats['other'].append((mid, verdict))
    if m:
        h, kind, aid = m.group(1), m.group(2), m.group(3)
        if len(aid) > 70: aid = aid[:67] + '...'
        caught = '`%s`: %s' % (h, aid)
    else:
        caught = verdict
    rows.append('| %s | `%s` `%s` | %s |' % (mid, ', '.join(files), hunk.replace('|', '/'), caught.replace('|', '/')))
p = '/verif/DESIGN.md'
s = open(p).read().split('\n')
a = next(i for i, l in enumerate(s) if l.startswith('| mutant | changed'))
b = a
while b < len(s) and s[b].strip() != '':
    b += 1
s[a + 2:b] = rows
open(p, 'w').write('\n'.join(s))
print('rows', len(rows), 'VIOLATION', stats['VIOLATION'], 'other', stats['other'])
