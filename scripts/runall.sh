#!/bin/sh
# runs every claimed check (quick by default) and prints one line per property
tier=${1:-quick}
cd /verif
for p in $(python3 -c "import json; print(' '.join(c['property_id'] for c in json.load(open('MANIFEST.json'))['checks']))"); do
  s=$(date +%s)
  out=$(./check $p $tier 2>&1 | grep -E "^(OK|VIOLATION|INCONCLUSIVE|KNOWN)" | head -3 | cut -c1-160)
  e=$(date +%s)
  echo "$p $((e-s))s $out"
done
