#!/bin/sh
# runs the quick check of the property of every stored mutant against the mutated tree; writes seeded/RESULTS.txt
cd /verif
out=seeded/RESULTS.txt
: > $out.tmp
for d in seeded/*/; do
  id=$(basename $d); prop=${id%%-*}
  [ -f $d/patch.diff ] || continue
  s=$(date +%s)
  r=$(scripts/trymutant.sh /verif/$d/patch.diff $prop ${TIER:-quick} 2>&1)
  e=$(date +%s)
  verdict=$(echo "$r" | grep -E "^(VIOLATION|OK|INCONCLUSIVE)" | head -1 | cut -d' ' -f1)
  what=$(echo "$r" | grep "harness=" | head -2 | sed 's/^ *//' | cut -c1-160 | tr '\n' ';')
  echo "$id $verdict $((e-s))s $what" >> $out.tmp
done
mv $out.tmp $out
