#!/bin/sh
# usage: nativetest.sh <file_test.go> <pkgdir (repo-relative, . for root)> [extra go test flags]
# Runs an ad-hoc native test against /repo with the harness files overlaid (nothing is written to /repo).
f=$1; dir=${2:-.}; shift; shift
W=$(mktemp -d); trap 'rm -rf "$W"' EXIT
python3 - "$W" "$f" "$dir" <<'PY'
import json,glob,os,sys,re
W,f,d=sys.argv[1:4]
ov={}
src='/verif/harness/src'
pk={}
for root,_,files in os.walk(src):
    for fn in files:
        if not fn.endswith('.go'): continue
        rel=os.path.relpath(root,src)
        rd='.' if rel=='root' else (rel[5:] if rel.startswith('root/') else rel)
        p=os.path.join(root,fn)
        ov[os.path.normpath(os.path.join('/repo',rd,'zz_verif_'+fn))]=p
        m=re.search(r'^package\s+(\w+)',open(p).read(),re.M); pk[rd]=m.group(1)
tm=open('/verif/harness/vh.go.tmpl').read()
i=0
for rd,name in pk.items():
    q=os.path.join(W,'vh%d.go'%i); i+=1
    open(q,'w').write(tm.replace('package PKG','package '+name,1)); ov[os.path.normpath(os.path.join('/repo',rd,'zz_verif_vh.go'))]=q
    for sf in glob.glob('/verif/harness/shared/*.go'):
        q=os.path.join(W,'sh%d.go'%i); i+=1
        open(q,'w').write(open(sf).read().replace('package PKG','package '+name,1)); ov[os.path.normpath(os.path.join('/repo',rd,'zz_verif_shared_'+os.path.basename(sf)))]=q
ov[os.path.normpath(os.path.join('/repo',d,'zz_adhoc_test.go'))]=os.path.abspath(f)
json.dump({"Replace":ov},open(os.path.join(W,'ov.json'),'w'))
PY
cp /repo/go.mod /repo/go.sum "$W"/
cd /repo && GOFLAGS= GOPROXY=off GOSUMDB=off GOTOOLCHAIN=local go test -overlay "$W/ov.json" -modfile "$W/go.mod" -mod=mod -vet=off -count=1 "$@" ./$dir
