#!/bin/sh
# usage: trymutant.sh <patch.diff> <prop> [tier] [extra gosmt args]   -- applies the patch to /repo, runs the check, reverts.
set -u
patch=$1; prop=$2; tier=${3:-quick}; shift; shift; [ $# -gt 0 ] && shift
cd /repo || exit 2
if ! git diff --quiet; then echo "/repo not clean"; exit 2; fi
git apply "$patch" || { echo "patch does not apply"; exit 2; }
cd /verif && ./bin/gosmt -prop "$prop" -tier "$tier" -noevidence "$@" 2>&1 | grep -E "^(VIOLATION|OK|INCONCLUSIVE|KNOWN)|harness=" | cut -c1-220 | head -12
git -C /repo checkout -- . 
git -C /repo status --short | head -3
