#!/bin/sh
# development aid: like trymutant.sh but applies the patch to a scratch worktree (/tmp/wt-clean, created on demand at
# /repo's HEAD) and points the engine at it with -repo, so that /repo is not touched while something else uses it.
set -u
patch=$1; prop=$2; tier=${3:-quick}; shift; shift; [ $# -gt 0 ] && shift
wt=/tmp/wt-clean
[ -d $wt ] || git -C /repo worktree add -q --detach $wt HEAD
git -C $wt checkout -q --detach $(git -C /repo rev-parse HEAD) 2>/dev/null
git -C $wt checkout -q -- .
git -C $wt apply "$patch" || { echo "patch does not apply"; exit 2; }
cd /verif && ./bin/gosmt -repo $wt -prop "$prop" -tier "$tier" -noevidence "$@" 2>&1 | grep -E "^(VIOLATION|OK|INCONCLUSIVE|KNOWN)|harness=" | cut -c1-220 | head -12
git -C $wt checkout -q -- .
