#!/bin/sh
# development aid: like mutants_all.sh but in LANES parallel lanes, each with a scratch worktree of /repo under /tmp
# (removed afterwards) and the engine's -repo flag; /repo itself is not touched. Writes seeded/RESULTS-lanes.txt.
# The committed RESULTS.txt comes from mutants_all.sh (the changes applied to /repo itself, one after the other).
cd /verif
LANES=${LANES:-4}
ls -d seeded/*/ | sed 's#seeded/##; s#/##' | sort -V > /tmp/mut_list.txt
rm -f /tmp/mut_res.*.txt
i=0
while [ $i -lt $LANES ]; do
  (
    wt=/tmp/wt-lane$i
    git -C /repo worktree add -q --detach $wt HEAD 2>/dev/null
    awk -v n=$LANES -v k=$i 'NR%n==k' /tmp/mut_list.txt | while read id; do
      prop=${id%%-*}
      [ -f seeded/$id/patch.diff ] || continue
      git -C $wt checkout -q -- .
      git -C $wt apply /verif/seeded/$id/patch.diff || { echo "$id PATCHFAIL" >> /tmp/mut_res.$i.txt; continue; }
      s=$(date +%s)
      r=$(./bin/gosmt -repo $wt -prop $prop -tier ${TIER:-quick} -noevidence -j ${WORKERS:-6} 2>&1 | grep -E "^(VIOLATION|OK|INCONCLUSIVE|KNOWN)|harness=" | cut -c1-220 | head -12)
      e=$(date +%s)
      verdict=$(echo "$r" | grep -E "^(VIOLATION|OK|INCONCLUSIVE)" | head -1 | cut -d' ' -f1)
      what=$(echo "$r" | grep "harness=" | head -2 | sed 's/^ *//' | cut -c1-160 | tr '\n' ';')
      echo "$id $verdict $((e-s))s $what" >> /tmp/mut_res.$i.txt
    done
    git -C /repo worktree remove --force $wt
  ) &
  i=$((i+1))
done
wait
cat /tmp/mut_res.*.txt | sort -V > seeded/RESULTS-lanes.txt
rm -f /tmp/mut_res.*.txt /tmp/mut_list.txt
grep -vc " VIOLATION " seeded/RESULTS-lanes.txt
