package main

import (
	"fmt"
	"strings"
)

// guardCheckSlow: guard discipline (C10). Every plain load/store of a declared field, executed by repository code
// while checking is on, must happen with the field's guard locked (by anyone: kafka-go hands locks over), and
// atomic-only fields must never be accessed by plain loads/stores.
func (ex *Exec) guardCheckSlow(st *State, fr *Frame, p PtrVal, write bool) {
	if !st.guardOn || p.Obj <= 0 {
		return
	}
	name := ex.prog.funcName(fr.fn)
	if strings.Contains(name, ".VH_") || strings.Contains(name, ".vh") || !strings.Contains(name, repoPath) {
		return
	}
	key := fmt.Sprintf("%d", p.Obj)
	for i := 0; i <= len(p.Path); i++ {
		if i > 0 {
			key += fmt.Sprintf(".%d", p.Path[i-1])
		}
		g, ok := st.guards[key]
		if !ok {
			continue
		}
		what := g.name
		if g.mu == "readonly" {
			if write {
				ex.guardViolation(st, fr, what, "written although it belongs to an object shared read-only with the program")
			}
			return
		}
		if g.mu == "atomic" {
			ex.guardViolation(st, fr, what, "atomic-only field accessed with a plain "+rw(write))
			return
		}
		if !st.lockset[g.mu] {
			ex.guardViolation(st, fr, what, "accessed ("+rw(write)+") without holding its guard")
		}
		return
	}
}

// guardCheckMap: operations on a map that is the value of a guarded field (declared with vhGuarded while the field
// held that map) need the field's guard: the field load may happen under the lock and the iteration outside it.
func (ex *Exec) guardCheckMap(st *State, fr *Frame, m MapVal, write bool) {
	if st.guards == nil || !st.guardOn || m.Obj == 0 {
		return
	}
	g, ok := st.guards[fmt.Sprintf("map:%d", m.Obj)]
	if !ok {
		return
	}
	name := ex.prog.funcName(fr.fn)
	if strings.Contains(name, ".VH_") || strings.Contains(name, ".vh") || !strings.Contains(name, repoPath) {
		return
	}
	if !st.lockset[g.mu] {
		op := "read"
		if write {
			op = "written"
		}
		ex.guardViolation(st, fr, g.name, "map "+op+" without holding its guard")
	}
}

func rw(write bool) string {
	if write {
		return "store"
	}
	return "load"
}

func (ex *Exec) guardViolation(st *State, fr *Frame, field, msg string) {
	site := strings.ReplaceAll(ex.prog.funcName(fr.fn), repoPath, "kafka")
	id := "unguarded:" + field + "@" + site
	ex.out.Asserts++
	var model Model
	if r := ex.check(st.pc, nil); r == Sat {
		model = ex.solver.GetModel(ex.tt.Vars)
	}
	ex.donePending()
	ex.recordViolation(st, "guard", id, field+" "+msg+" in "+site+" at "+st.where(), model)
}
