package main

func (p *Program) selfTest(repo, scratch string, ov map[string][]byte, seed int64, verbose bool) (int, error) {
	return 0, nil
}

func (ex *Exec) guardCheckSlow(st *State, fr *Frame, p PtrVal, write bool) {}
