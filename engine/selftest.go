package main

import (
	"fmt"
	"go/types"
	"strings"
)

// guardCheckSlow: guard discipline (C10). Every plain load/store of a declared field, executed by repository code
// while checking is on, must happen with the field's guard locked (by anyone: kafka-go hands locks over), and
// atomic-only fields must never be accessed by plain loads/stores.
func (ex *Exec) guardCheckSlow(st *State, fr *Frame, p PtrVal, write bool) {
	if !st.guardOn || p.Obj <= 0 {
		return
	}
	name := ex.prog.funcName(fr.fn)
	if strings.Contains(name, ".VH_") || strings.Contains(name, ".vh") || !strings.Contains(name, repoPath) {
		return
	}
	if w, ok := st.watch[p.Obj]; ok {
		ex.eraser(st, fr, p, write, w)
	}
	key := fmt.Sprintf("%d", p.Obj)
	for i := 0; i <= len(p.Path); i++ {
		if i > 0 {
			key += fmt.Sprintf(".%d", p.Path[i-1])
		}
		g, ok := st.guards[key]
		if !ok {
			continue
		}
		what := g.name
		if g.mu == "readonly" {
			if write {
				ex.guardViolation(st, fr, what, "written although it belongs to an object shared read-only with the program")
			}
			return
		}
		if g.mu == "atomic" {
			ex.guardViolation(st, fr, what, "atomic-only field accessed with a plain "+rw(write))
			return
		}
		if !st.lockset[g.mu] {
			ex.guardViolation(st, fr, what, "accessed ("+rw(write)+") without holding its guard")
		}
		return
	}
}

// guardCheckMap: operations on a map that is the value of a guarded field (declared with vhGuarded while the field
// held that map) need the field's guard: the field load may happen under the lock and the iteration outside it.
func (ex *Exec) guardCheckMap(st *State, fr *Frame, m MapVal, write bool) {
	if st.guards == nil || !st.guardOn || m.Obj == 0 {
		return
	}
	g, ok := st.guards[fmt.Sprintf("map:%d", m.Obj)]
	if !ok {
		return
	}
	name := ex.prog.funcName(fr.fn)
	if strings.Contains(name, ".VH_") || strings.Contains(name, ".vh") || !strings.Contains(name, repoPath) {
		return
	}
	if !st.lockset[g.mu] {
		op := "read"
		if write {
			op = "written"
		}
		ex.guardViolation(st, fr, g.name, "map "+op+" without holding its guard")
	}
}

func rw(write bool) string {
	if write {
		return "store"
	}
	return "load"
}

func (ex *Exec) guardViolation(st *State, fr *Frame, field, msg string) {
	site := strings.ReplaceAll(ex.prog.funcName(fr.fn), repoPath, "kafka")
	id := "unguarded:" + field + "@" + site
	ex.out.Asserts++
	var model Model
	if r := ex.check(st.pc, nil); r == Sat {
		model = ex.solver.GetModel(ex.tt.Vars)
	}
	ex.donePending()
	ex.recordViolation(st, "guard", id, field+" "+msg+" in "+site+" at "+st.where(), model)
}

// eraser: lockset analysis of a watched object's locations (vhWatch). A location accessed by one goroutine only is
// exclusive; from the first access by another goroutine on, the set of locks held at every access is intersected;
// an empty intersection on a location that is written after it became shared is reported. Accesses through
// sync/atomic are not plain loads/stores and never get here. This is a necessary condition for race freedom under
// a locking discipline; orderings established by other means (channels, WaitGroup, Once) are not seen, which is why
// only objects whose documented discipline is "fields under the mutex" are watched.
func (ex *Exec) eraser(st *State, fr *Frame, p PtrVal, write bool, w watchDecl) {
	if len(p.Path) == 0 || w.skip[p.Path[0]] {
		return
	}
	loc := "er:" + p.Key()
	var rec eraserRec
	if v, ok := st.side[loc]; ok {
		rec = v.(eraserRec)
	}
	if rec.done {
		return
	}
	cur := st.cur
	held := st.co().held
	switch rec.state {
	case 0:
		rec = eraserRec{state: 1, first: cur}
	case 1:
		if cur == rec.first {
			return
		}
		rec.state = 2
		if write {
			rec.state = 3
		}
		rec.locks = map[string]bool{}
		for k := range held {
			rec.locks[k] = true
		}
	default:
		n := map[string]bool{}
		for k := range rec.locks {
			if held[k] > 0 {
				n[k] = true
			}
		}
		rec.locks = n
		if write {
			rec.state = 3
		}
	}
	if rec.state == 3 && len(rec.locks) == 0 {
		rec.done = true
		st.side[loc] = rec
		field := fmt.Sprintf("%s.#%d", w.name, p.Path[0])
		if stt, ok := w.t.Underlying().(*types.Struct); ok && int(p.Path[0]) < stt.NumFields() {
			field = w.name + "." + stt.Field(int(p.Path[0])).Name()
		}
		ex.guardViolation(st, fr, field, "is accessed by several goroutines, written by at least one, and no lock is held at all of these accesses (lockset empty at this "+rw(write)+")")
		return
	}
	st.side[loc] = rec
}
