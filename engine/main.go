package main

import (
	"encoding/json"
	"flag"
	"fmt"
	"os"
	"os/exec"
	"path/filepath"
	"regexp"
	"runtime"
	"runtime/pprof"
	"sort"
	"strconv"
	"strings"
	"time"

	"golang.org/x/tools/go/ssa"
)

var verifDir = "/verif"

func main() {
	prop := flag.String("prop", "", "property id (C01..C20)")
	tier := flag.String("tier", "quick", "quick|thorough")
	repo := flag.String("repo", "/repo", "repository directory")
	only := flag.String("only", "", "substring filter on harness function names")
	verbose := flag.Bool("v", false, "verbose")
	workers := flag.Int("j", runtime.NumCPU(), "workers")
	replay := flag.String("replay", "", "replay a counterexample file natively")
	noReplay := flag.Bool("noreplay", false, "do not replay counterexamples natively")
	vdir := flag.String("verif", "/verif", "verif directory")
	cpuprof := flag.String("cpuprofile", "", "write a CPU profile")
	noEvidence := flag.Bool("noevidence", false, "do not write the evidence file")
	selftest := flag.Bool("selftest", false, "run only the engine self-test")
	flag.Parse()
	if *cpuprof != "" {
		f, _ := os.Create(*cpuprof)
		pprof.StartCPUProfile(f)
		defer pprof.StopCPUProfile()
	}
	verifDir = *vdir
	seed := int64(0)
	if s := os.Getenv("VERIF_SEED"); s != "" {
		seed, _ = strconv.ParseInt(s, 10, 64)
	}
	if t := os.Getenv("VERIF_TIER"); t != "" && *tier == "" {
		*tier = t
	}
	scratch, err := os.MkdirTemp("", "gosmt-")
	if err != nil {
		fatal(2, "mktemp: %v", err)
	}
	defer os.RemoveAll(scratch)

	if *replay != "" {
		var v Violation
		b, err := os.ReadFile(*replay)
		if err != nil {
			fatal(2, "read replay: %v", err)
		}
		if err := json.Unmarshal(b, &v); err != nil {
			fatal(2, "parse replay: %v", err)
		}
		ov, _, err := buildOverlay(*repo, scratch)
		if err != nil {
			fatal(2, "%v", err)
		}
		ok, out := nativeReplay(*repo, scratch, ov, &v)
		fmt.Println(out)
		if ok {
			fmt.Printf("REPRODUCED %s %s\n", v.Harness, v.ID)
			os.Exit(1)
		}
		fmt.Printf("NOT-REPRODUCED %s %s\n", v.Harness, v.ID)
		os.Exit(0)
	}

	if *prop == "" && !*selftest {
		fatal(2, "need -prop")
	}
	t0 := time.Now()
	spec, err := loadSpec(*prop)
	if err != nil && !*selftest {
		fatal(2, "spec: %v", err)
	}
	if spec != nil {
		loadBuildTags = spec.BuildTags
	}
	ov, pkgDirs, err := buildOverlay(*repo, scratch)
	if err != nil {
		fatal(2, "%v", err)
	}
	patterns := []string{"."}
	for d := range pkgDirs {
		if d != "." {
			patterns = append(patterns, "./"+d)
		}
	}
	sort.Strings(patterns)
	p, err := LoadProgram(*repo, ov, patterns, scratch)
	if err != nil {
		inconclusive(*prop, *tier, seed, "load: "+err.Error(), *noEvidence)
	}
	tLoad := time.Since(t0)
	if err := p.runInits(*verbose); err != nil {
		inconclusive(*prop, *tier, seed, "init: "+err.Error(), *noEvidence)
	}
	tInit := time.Since(t0) - tLoad
	if *verbose {
		fmt.Fprintf(os.Stderr, "load %.1fs init %.1fs base objects %d\n", tLoad.Seconds(), tInit.Seconds(), len(p.baseHeap))
	}
	stN, stErr := p.selfTest(*repo, scratch, ov, seed, *verbose)
	if stErr != nil {
		inconclusive(*prop, *tier, seed, "engine self-test failed: "+stErr.Error(), *noEvidence)
	}
	symN := 0
	if *prop != "ENGINE" {
		// symbolic self-test (harness/spec/ENGINE.json): VH_E_ok_* proved, VH_E_bad_* refuted
		if es, err := loadSpec("ENGINE"); err == nil {
			for _, r := range runProperty(p, es, RunOptions{Prop: "ENGINE", Tier: "quick", Workers: *workers}) {
				if r == nil {
					continue
				}
				name := r.Item.Spec.Func
				bad := strings.HasPrefix(name, "VH_E_bad_")
				switch {
				case r.Fatal != "":
					inconclusive(*prop, *tier, seed, "engine symbolic self-test: "+name+": "+r.Fatal, *noEvidence)
				case bad && len(r.Violations) == 0:
					inconclusive(*prop, *tier, seed, "engine symbolic self-test: "+name+" must be refuted but no counterexample was found", *noEvidence)
				case !bad && (len(r.Violations) > 0 || len(r.Inconclusive) > 0):
					inconclusive(*prop, *tier, seed, fmt.Sprintf("engine symbolic self-test: %s must be proved: %d violations, inconclusive %v", name, len(r.Violations), r.Inconclusive), *noEvidence)
				}
				for _, w := range r.Item.Spec.Reach {
					if r.Reached[w] == 0 {
						inconclusive(*prop, *tier, seed, "engine symbolic self-test: "+name+" did not reach "+w, *noEvidence)
					}
				}
				symN++
			}
		}
	}
	if *selftest {
		fmt.Printf("self-test ok: %d vectors, %d symbolic harnesses\n", stN, symN)
		return
	}
	results := runProperty(p, spec, RunOptions{Prop: *prop, Tier: *tier, Workers: *workers, Only: *only, Verbose: *verbose, Seed: seed})
	pprof.StopCPUProfile()
	code := report(p, spec, results, *prop, *tier, seed, *repo, scratch, ov, t0, stN, *noReplay, *noEvidence || *only != "")
	os.RemoveAll(scratch)
	os.Exit(code)
}

func fatal(code int, f string, a ...interface{}) {
	fmt.Fprintf(os.Stderr, f+"\n", a...)
	os.Exit(code)
}

func inconclusive(prop, tier string, seed int64, reason string, noEv bool) {
	fmt.Printf("INCONCLUSIVE property=%s reason=%s\n", prop, strings.ReplaceAll(reason, "\n", " | "))
	os.Exit(2)
}

func loadSpec(prop string) (*PropSpec, error) {
	b, err := os.ReadFile(filepath.Join(verifDir, "harness", "spec", prop+".json"))
	if err != nil {
		return nil, err
	}
	var s PropSpec
	if err := json.Unmarshal(b, &s); err != nil {
		return nil, err
	}
	return &s, nil
}

var pkgClause = regexp.MustCompile(`(?m)^package\s+(\w+)`)

// buildOverlay maps harness files into the repository tree (virtually).
// /verif/harness/src/<dir>/*.go  ->  <repo>/<dir>/zz_verif_<file>     (dir "root" = repository root)
func buildOverlay(repo, scratch string) (map[string][]byte, map[string]string, error) {
	ov := map[string][]byte{}
	pkgDirs := map[string]string{} // repo-relative dir -> package name
	src := filepath.Join(verifDir, "harness", "src")
	tmpl, err := os.ReadFile(filepath.Join(verifDir, "harness", "vh.go.tmpl"))
	if err != nil {
		return nil, nil, err
	}
	err = filepath.Walk(src, func(path string, info os.FileInfo, err error) error {
		if err != nil || info.IsDir() || !strings.HasSuffix(path, ".go") {
			return err
		}
		rel, _ := filepath.Rel(src, path)
		dir := filepath.Dir(rel)
		if strings.HasPrefix(dir, "root") {
			dir = "." + strings.TrimPrefix(dir, "root")
		}
		dir = filepath.Clean(dir)
		b, err := os.ReadFile(path)
		if err != nil {
			return err
		}
		m := pkgClause.FindSubmatch(b)
		if m == nil {
			return fmt.Errorf("%s: no package clause", path)
		}
		pkgDirs[dir] = string(m[1])
		ov[filepath.Join(repo, dir, "zz_verif_"+filepath.Base(path))] = b
		return nil
	})
	if err != nil {
		return nil, nil, err
	}
	shared, _ := filepath.Glob(filepath.Join(verifDir, "harness", "shared", "*.go"))
	for dir, name := range pkgDirs {
		ov[filepath.Join(repo, dir, "zz_verif_vh.go")] = []byte(strings.Replace(string(tmpl), "package PKG", "package "+name, 1))
		for _, sf := range shared {
			b, err := os.ReadFile(sf)
			if err != nil {
				return nil, nil, err
			}
			ov[filepath.Join(repo, dir, "zz_verif_shared_"+filepath.Base(sf))] = []byte(strings.Replace(string(b), "package PKG", "package "+name, 1))
		}
	}
	return ov, pkgDirs, nil
}

// ---------- init ----------

var stdInitDeny = map[string]bool{
	"runtime": true, "os": true, "syscall": true, "reflect": true, "sync": true, "unsafe": true, "internal/poll": true,
	"net": true, "crypto/tls": true, "crypto/x509": true, "net/http": true, "os/signal": true, "os/exec": true, "os/user": true,
	"testing": true, "flag": true, "log": true, "internal/godebug": true, "crypto/rand": true, "math/rand": true, "math/rand/v2": true,
	"internal/cpu": true, "internal/abi": true, "time": false, "vendor/golang.org/x/net/http2/hpack": true,
	"encoding/json": true, "mime": true, "net/textproto": true, "internal/testlog": true, "internal/syscall/unix": true,
	"text/template": true, "html/template": true, "go/token": true, "regexp": true, "regexp/syntax": true, "unicode": true,
	"github.com/klauspost/compress/zstd": true, "github.com/klauspost/compress/huff0": true, "github.com/klauspost/compress/fse": true,
	"github.com/klauspost/compress/internal/cpuinfo": true, "github.com/klauspost/compress/flate": true, "compress/flate": true,
	"golang.org/x/text/unicode/norm": true, "golang.org/x/text/secure/precis": true, "golang.org/x/text/unicode/bidi": true,
	"golang.org/x/text/width": true, "golang.org/x/text/cases": true, "golang.org/x/text/language": true, "golang.org/x/text/internal/language": true,
	"github.com/xdg-go/stringprep": true, "hash/crc32": true,
}

func (p *Program) runInits(verbose bool) error {
	ex := &Exec{prog: p, tt: NewTermTable(), out: &ItemResult{Reached: map[string]int{}}}
	ex.cfg = Config{Unwind: 1 << 30, MaxSteps: 1 << 40, TimeoutMs: 1000, SplitCap: 1, MaxAlloc: 1 << 26}
	p.baseHeap = map[ObjID]Value{}
	st := p.newState(ex)
	st.concreteClock = true // package initialisers see a fixed time of day
	// materialise the few runtime-provided globals that package inits read
	if g := p.byPath["os"].Var("Args"); g != nil {
		sl := st.makeSlice(StrVal{}, 1, 1)
		sl.NonNil = true
		st.sliceSet(sl, 0, StrVal{S: "/vh/prog"})
		st.objSet(p.globalID(g), sl)
	}
	for _, sp := range p.initOrder() {
		path := sp.Pkg.Path()
		isRepo := strings.HasPrefix(path, repoPath)
		if !isRepo {
			if stdInitDeny[path] || strings.HasPrefix(path, "internal/") || strings.HasPrefix(path, "runtime/") || strings.HasPrefix(path, "vendor/") || (strings.HasPrefix(path, "crypto/") && !cryptoInitAllow[path]) || strings.HasPrefix(path, "golang.org/x/") {
				continue
			}
		}
		fn := sp.Func("init")
		if fn == nil || fn.Blocks == nil {
			continue
		}
		t0 := time.Now()
		err := ex.runConcrete(st, fn)
		if err != nil {
			if isRepo {
				return fmt.Errorf("init of %s: %v", path, err)
			}
			p.initLog = append(p.initLog, fmt.Sprintf("init %s: partial (%v)", path, err))
			if verbose {
				fmt.Fprintf(os.Stderr, "init %s: partial: %v\n", path, err)
			}
			// the state may be mid-call: reset coroutines
		}
		if verbose && time.Since(t0) > 200*time.Millisecond {
			fmt.Fprintf(os.Stderr, "init %s: %.2fs\n", path, time.Since(t0).Seconds())
		}
	}
	// freeze
	for _, v := range st.heap.delta {
		zeroOwners(v, 0)
	}
	p.baseHeap = st.heap.delta
	p.baseNext = st.nextObj
	p.baseSide = st.side
	return nil
}

// hash packages whose initialisers only build constant tables (needed when they are interpreted: SCRAM, C18)
var cryptoInitAllow = map[string]bool{"crypto/sha256": true, "crypto/sha512": true, "crypto/sha1": true, "crypto/md5": true}

func zeroOwners(v Value, depth int) {
	if depth > 6 {
		return
	}
	switch x := v.(type) {
	case *ArrVal:
		x.owner = 0
		if x.Elems != nil && x.N <= 4096 {
			for _, e := range x.Elems {
				switch e.(type) {
				case *ArrVal, StructVal:
					zeroOwners(e, depth+1)
				}
			}
		}
	case StructVal:
		for _, f := range x {
			switch f.(type) {
			case *ArrVal, StructVal:
				zeroOwners(f, depth+1)
			}
		}
	}
}

// runConcrete runs fn (no params) to completion on st as coroutine 0; any fork or symbolic choice is an error.
func (ex *Exec) runConcrete(st *State, fn *ssa.Function) (err error) {
	st.coros = []*Coro{{id: 0, status: CoRunnable, name: "init"}}
	st.cur = 0
	st.done = false
	st.fail = nil
	st.steps = 0
	defer func() {
		if r := recover(); r != nil {
			switch x := r.(type) {
			case unsupported:
				err = fmt.Errorf("unsupported: %s at %s", x.msg, st.where())
			case pathEnd:
				err = fmt.Errorf("path ended: %+v", st.fail)
			default:
				err = fmt.Errorf("engine panic: %v at %s", r, st.where())
			}
		}
	}()
	ex.pushFrame(st, fn, nil, nil, -1)
	ex.work = nil
	for !st.done {
		ex.step(st)
		if len(ex.work) > 0 {
			ex.work = nil
			return fmt.Errorf("fork during concrete execution at %s", st.where())
		}
	}
	if st.fail != nil {
		return fmt.Errorf("%s: %s", st.fail.Kind, st.fail.Msg)
	}
	return nil
}

// ---------- reporting ----------

func report(p *Program, spec *PropSpec, results []*ItemResult, prop, tier string, seed int64, repo, scratch string, ov map[string][]byte, t0 time.Time, selfN int, noReplay, noEvidence bool) int {
	known := loadKnown(filepath.Join(verifDir, "known_findings.json"))
	var paths, pathsOK, asserts, proved, trivial, infeasible int
	var instrs int64
	var q SolverStats
	var altQ SolverStats
	var inconcl []string
	var viols []Violation
	var fatals []string
	reached := map[string]int{}
	funcs := map[string]int{}
	var samples []interface{}
	unknownBranches := 0
	crossN, crossU := 0, 0
	for _, r := range results {
		if r == nil {
			continue
		}
		paths += r.Paths
		pathsOK += r.PathsOK
		asserts += r.Asserts
		proved += r.AssertsProved
		trivial += r.AssertsTrivial
		infeasible += r.Infeasible
		instrs += r.Instrs
		unknownBranches += r.UnknownBranch
		crossN += r.CrossChecked
		crossU += r.CrossUnknown
		q.Queries += r.Solver.Queries
		q.SatN += r.Solver.SatN
		q.UnsatN += r.Solver.UnsatN
		q.UnknownN += r.Solver.UnknownN
		q.Time += r.Solver.Time
		altQ.Queries += r.AltSolver.Queries
		altQ.Time += r.AltSolver.Time
		for _, m := range r.Inconclusive {
			inconcl = append(inconcl, fmt.Sprintf("%s%v: %s", r.Item.Spec.Func, r.Item.Args, m))
		}
		if r.InconclusiveMore > 0 {
			inconcl = append(inconcl, fmt.Sprintf("%s%v: %d more", r.Item.Spec.Func, r.Item.Args, r.InconclusiveMore))
		}
		if r.Fatal != "" {
			fatals = append(fatals, fmt.Sprintf("%s%v: %s", r.Item.Spec.Func, r.Item.Args, r.Fatal))
		}
		viols = append(viols, r.Violations...)
		for k, v := range r.Reached {
			reached[k] += v
		}
		for k, v := range r.Funcs {
			funcs[k] += v
		}
		for _, s := range r.Samples {
			if len(samples) < 6 {
				samples = append(samples, s)
			}
		}
	}
	// vacuity: required witnesses
	var missing []string
	for _, h := range spec.Harnesses {
		ran := false
		for _, r := range results {
			if r != nil && r.Item.Spec.Func == h.Func {
				ran = true
			}
		}
		if !ran {
			continue
		}
		for _, w := range h.Reach {
			if reached[w] == 0 {
				missing = append(missing, h.Func+":"+w)
			}
		}
	}
	// replay counterexamples
	replays := 0
	var newViol, knownViol, spurious []Violation
	// replay budget: one counterexample per distinct (harness, assertion) first, at most maxReplays native runs; a
	// counterexample that was not replayed takes the verdict of the replayed one with the same id
	const maxReplays = 10
	{
		seen := map[string]bool{}
		var first, rest []Violation
		for _, v := range viols {
			k := v.Harness + "|" + v.ID
			if !seen[k] {
				seen[k] = true
				first = append(first, v)
			} else {
				rest = append(rest, v)
			}
		}
		viols = append(first, rest...)
	}
	verdict := map[string]string{}
	for i := range viols {
		v := &viols[i]
		if k := matchKnown(known, prop, v); k != nil {
			v.Status = "known"
			v.Known = k.ID
		}
		h := findHarness(spec, v.Harness)
		file := filepath.Join(verifDir, "replays", fmt.Sprintf("%s-%s-%s.json", prop, v.Harness, hashOf([]interface{}{v.Args, v.ID, v.Inputs})))
		v.Replay = file
		if v.Status == "known" {
			knownViol = append(knownViol, *v)
			continue
		}
		writeJSON(file, v)
		if h != nil && h.Native && !noReplay {
			vk := v.Harness + "|" + v.ID
			if prev, ok := verdict[vk]; ok && (replays >= maxReplays || prev == "reproduced") {
				v.Status = prev + " (same assertion as a replayed counterexample; not replayed itself)"
				if prev == "reproduced" {
					if len(newViol) < 40 {
						newViol = append(newViol, *v)
					}
				} else {
					spurious = append(spurious, *v)
				}
				continue
			}
			if replays >= maxReplays {
				v.Status = "engine-only (replay budget exhausted)"
				newViol = append(newViol, *v)
				continue
			}
			ok, out := nativeReplay(repo, scratch, ov, v)
			replays++
			if ok {
				v.Status = "reproduced"
				verdict[vk] = "reproduced"
				newViol = append(newViol, *v)
			} else {
				v.Status = "spurious"
				if _, had := verdict[vk]; !had {
					verdict[vk] = "spurious"
				}
				v.Msg += " || native replay: " + lastLines(out, 6)
				spurious = append(spurious, *v)
			}
		} else {
			v.Status = "engine-only"
			newViol = append(newViol, *v)
		}
	}
	// print known findings once per finding id
	seenKnown := map[string]bool{}
	for _, v := range knownViol {
		if !seenKnown[v.Known] {
			seenKnown[v.Known] = true
			for _, k := range known {
				if k.ID == v.Known {
					fmt.Printf("KNOWN-FINDING: property=%s %s [%s] %s\n", prop, k.ID, v.Harness, k.What)
				}
			}
		}
	}
	code := 0
	for _, v := range newViol {
		fmt.Printf("VIOLATION property=%s replay=%s\n", prop, v.Replay)
		fmt.Printf("  harness=%s args=%v kind=%s id=%s status=%s\n  %s\n", v.Harness, v.Args, v.Kind, v.ID, v.Status, v.Msg)
		code = 1
	}
	if code == 0 {
		var reasons []string
		for _, v := range spurious {
			reasons = append(reasons, fmt.Sprintf("SPURIOUS counterexample (not reproduced natively; engine or stub wrong): %s %s %s", v.Harness, v.ID, v.Replay))
		}
		reasons = append(reasons, fatals...)
		for _, m := range missing {
			reasons = append(reasons, "vacuous: witness not reached: "+m)
		}
		if len(inconcl) > 0 {
			n := len(inconcl)
			if n > 8 {
				inconcl = inconcl[:8]
			}
			reasons = append(reasons, fmt.Sprintf("%d inconclusive obligations, e.g. %s", n, strings.Join(inconcl, " ;; ")))
		}
		if paths == 0 {
			reasons = append(reasons, "no path explored")
		}
		if len(reasons) > 0 {
			code = 2
			for _, r := range reasons {
				fmt.Printf("INCONCLUSIVE property=%s reason=%s\n", prop, strings.ReplaceAll(r, "\n", " | "))
			}
		}
	}
	wall := time.Since(t0).Seconds()
	if !noEvidence {
		var fl []string
		for k := range funcs {
			if strings.Contains(k, "kafka-go") && !strings.Contains(k, ".VH_") && !strings.Contains(k, ".vh") && !strings.Contains(k, ".vref") {
				fl = append(fl, k)
			}
		}
		sort.Strings(fl)
		if len(samples) == 0 {
			samples = append(samples, map[string]interface{}{"note": "no satisfiable path witness sampled", "items": len(results)})
		}
		var items []map[string]interface{}
		for _, r := range results {
			if r == nil {
				continue
			}
			items = append(items, map[string]interface{}{"harness": r.Item.Spec.Func, "args": r.Item.Args, "paths": r.Paths, "paths_ok": r.PathsOK, "asserts": r.Asserts, "asserts_proved_unsat": r.AssertsProved, "asserts_trivially_true": r.AssertsTrivial, "queries": r.Solver.Queries, "solver_s": r.Solver.Time.Seconds(), "wall_s": r.Wall.Seconds(), "violations": len(r.Violations), "inconclusive": len(r.Inconclusive), "paths_cut_outside_claim": r.Cuts})
		}
		var hb []map[string]string
		for _, h := range spec.Harnesses {
			hb = append(hb, map[string]string{"harness": h.Func, "what": h.Desc, "bounds": h.Bounds})
		}
		ev := map[string]interface{}{
			"property_id": prop,
			"tier":        tier,
			"seed":        seed,
			"level":       "model_checking",
			"coverage": map[string]interface{}{
				"states":                        paths,
				"transitions":                   instrs,
				"traces_validated_against_impl": selfN + replays,
				"samples":                       samples,
				"explanation":                   "states = symbolic paths completed (each stands for every input satisfying its path condition); transitions = SSA instructions interpreted; traces_validated = self-test vectors run through both the native build and the interpreter, plus counterexamples replayed natively",
				"symbolic_paths_ok":             pathsOK,
				"infeasible_paths_pruned":       infeasible,
				"assertions_checked":            asserts,
				"assertions_proved_unsat":       proved,
				"assertions_trivially_true":     trivial,
				"work_items":                    items,
				"reach_witnesses":               reached,
				"functions_encoded":             fl,
				"harnesses":                     hb,
				"bounds":                        spec.Bounds,
				"outside_bounds":                spec.Outside,
				"queries":                       map[string]interface{}{"z3": map[string]int{"total": q.Queries, "sat": q.SatN, "unsat": q.UnsatN, "unknown": q.UnknownN}, "cvc5_as_int": map[string]int{"total": altQ.Queries}, "unknown_branch_kept": unknownBranches, "cross_checked_by_second_solver": crossN, "primary_solver_binary": z3Binary()},
				"solver_time_s":                 q.Time.Seconds() + altQ.Time.Seconds(),
				"stubs_used":                    spec.Stubs,
				"known_findings_matched":        keysOf(seenKnown),
				"new_violations":                len(newViol),
				"spurious":                      len(spurious),
				"inconclusive":                  inconcl,
				"exhaustive":                    false,
			},
			"assumptions": spec.Assume,
			"wall_s":      wall,
			"violations":  len(newViol),
		}
		writeJSON(filepath.Join(verifDir, "evidence", prop+".json"), ev)
	}
	if code == 0 {
		cross := ""
		if crossN > 0 {
			cross = fmt.Sprintf(" cross-checked=%d by %s (second solver unknown on %d)", crossN, crossSolver, crossU)
		}
		fmt.Printf("OK property=%s tier=%s paths=%d assertions=%d (unsat %d, trivial %d) queries=%d solver=%.1fs wall=%.1fs known=%d%s\n", prop, tier, paths, asserts, proved, trivial, q.Queries, q.Time.Seconds(), wall, len(seenKnown), cross)
	}
	return code
}

func keysOf(m map[string]bool) []string {
	ks := []string{}
	for k := range m {
		ks = append(ks, k)
	}
	sort.Strings(ks)
	return ks
}

func findHarness(spec *PropSpec, name string) *HarnessSpec {
	for i := range spec.Harnesses {
		if spec.Harnesses[i].Func == name {
			return &spec.Harnesses[i]
		}
	}
	return nil
}

func lastLines(s string, n int) string {
	ls := strings.Split(strings.TrimSpace(s), "\n")
	if len(ls) > n {
		ls = ls[len(ls)-n:]
	}
	return strings.Join(ls, " | ")
}

// ---------- native replay ----------

var harnessFuncRe = regexp.MustCompile(`(?m)^func (VH_\w+)\(([^)]*)\)`)

func nativeReplay(repo, scratch string, ov map[string][]byte, v *Violation) (bool, string) {
	dir := filepath.Join(scratch, fmt.Sprintf("replay-%d", time.Now().UnixNano()))
	os.MkdirAll(dir, 0o755)
	defer os.RemoveAll(dir)
	pkgDir := "."
	if v.Pkg != "" {
		pkgDir = v.Pkg
	}
	// write overlay files to disk and build the overlay json
	repl := map[string]string{}
	i := 0
	var registry strings.Builder
	pkgName := ""
	for path, content := range ov {
		real := filepath.Join(dir, fmt.Sprintf("f%d.go", i))
		i++
		os.WriteFile(real, content, 0o644)
		repl[path] = real
		if filepath.Clean(filepath.Dir(path)) == filepath.Clean(filepath.Join(repo, pkgDir)) {
			if m := pkgClause.FindSubmatch(content); m != nil {
				pkgName = string(m[1])
			}
			for _, m := range harnessFuncRe.FindAllSubmatch(content, -1) {
				name := string(m[1])
				nparams := 0
				if ps := strings.TrimSpace(string(m[2])); ps != "" {
					for _, part := range strings.Split(ps, ",") {
						_ = part
						nparams++
					}
				}
				var args []string
				for k := 0; k < nparams; k++ {
					args = append(args, fmt.Sprintf("a[%d]", k))
				}
				fmt.Fprintf(&registry, "\t%q: func(a []int) { %s(%s) },\n", name, name, strings.Join(args, ", "))
			}
		}
	}
	// the registry of harness entry points lives in a non-test overlay file; the test itself is an external test
	// package so that it can import the API sub-packages (their init functions register the message types that
	// the protocol-package harnesses need) without an import cycle
	pkgPath := repoPath
	if pkgDir != "." {
		pkgPath += "/" + pkgDir
	}
	regSrc := fmt.Sprintf("package %s\n\nimport \"testing\"\n\nvar VHHarnesses = map[string]func(a []int){\n%s}\n\nfunc VHReplayMain(t *testing.T) { vhReplayMain(t, VHHarnesses) }\n", pkgName, registry.String())
	regFile := filepath.Join(dir, "registry.go")
	os.WriteFile(regFile, []byte(regSrc), 0o644)
	repl[filepath.Join(repo, pkgDir, "zz_verif_registry.go")] = regFile
	var extra strings.Builder
	if pkgDir == "protocol" {
		ents, _ := os.ReadDir(filepath.Join(repo, "protocol"))
		for _, e := range ents {
			if e.IsDir() && e.Name() != "prototest" {
				if m, _ := filepath.Glob(filepath.Join(repo, "protocol", e.Name(), "*.go")); len(m) > 0 {
					fmt.Fprintf(&extra, "\t_ %q\n", repoPath+"/protocol/"+e.Name())
				}
			}
		}
	}
	test := fmt.Sprintf("package %s_test\n\nimport (\n\t\"testing\"\n\n\tvhpkg %q\n%s)\n\nfunc TestVHReplay(t *testing.T) { vhpkg.VHReplayMain(t) }\n", pkgName, pkgPath, extra.String())
	real := filepath.Join(dir, "replay_test.go")
	os.WriteFile(real, []byte(test), 0o644)
	repl[filepath.Join(repo, pkgDir, "zz_verif_replay_test.go")] = real
	ovj, _ := json.Marshal(map[string]interface{}{"Replace": repl})
	ovFile := filepath.Join(dir, "overlay.json")
	os.WriteFile(ovFile, ovj, 0o644)
	cex := filepath.Join(dir, "cex.json")
	writeJSON(cex, v)
	for _, f := range []string{"go.mod", "go.sum"} {
		b, _ := os.ReadFile(filepath.Join(repo, f))
		os.WriteFile(filepath.Join(dir, f), b, 0o644)
	}
	cmd := exec.Command("go", "test", "-overlay", ovFile, "-modfile", filepath.Join(dir, "go.mod"), "-mod=mod", "-vet=off", "-count=1", "-run", "^TestVHReplay$", "-timeout", "120s", "./"+pkgDir)
	cmd.Dir = repo
	cmd.Env = append(os.Environ(), "GOFLAGS=", "GOPROXY=off", "GOSUMDB=off", "GOTOOLCHAIN=local", "VH_REPLAY_FILE="+cex, "GOMEMLIMIT=2GiB")
	out, _ := cmd.CombinedOutput()
	s := string(out)
	want := "VH-VIOLATION " + v.ID
	switch v.Kind {
	case "assert":
		return strings.Contains(s, want+"\n") || strings.Contains(s, want+" "), s
	case "panic":
		return strings.Contains(s, "VH-PANIC"), s
	case "unwind", "steplimit", "deadlock":
		return strings.Contains(s, "VH-HANG") || strings.Contains(s, "VH-SLOW") || strings.Contains(s, "test timed out") || strings.Contains(s, "VH-PANIC"), s
	case "stackdepth":
		return strings.Contains(s, "stack overflow") || strings.Contains(s, "goroutine stack exceeds") || strings.Contains(s, "VH-PANIC") || strings.Contains(s, "VH-HANG"), s
	case "bigalloc", "splitcap":
		return strings.Contains(s, "VH-BIGALLOC") || strings.Contains(s, "out of memory") || strings.Contains(s, "VH-PANIC") || strings.Contains(s, "cannot allocate"), s
	}
	return strings.Contains(s, "VH-VIOLATION") || strings.Contains(s, "VH-PANIC"), s
}
