package main

import (
	_ "golang.org/x/tools/go/packages"
	_ "golang.org/x/tools/go/ssa"
	_ "golang.org/x/tools/go/ssa/ssautil"
	_ "golang.org/x/tools/go/types/typeutil"
)

func main() {}
