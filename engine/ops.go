package main

import (
	"fmt"
	"go/token"
	"go/types"
	"math"
	"unicode/utf8"

	"golang.org/x/tools/go/ssa"
)

func (ex *Exec) binop(st *State, op token.Token, xt types.Type, a, b Value, yt types.Type) Value {
	tt := ex.tt
	switch x := a.(type) {
	case *Term:
		y, ok := b.(*Term)
		if !ok {
			unsup("binop %s on term and %T", op, b)
		}
		w, signed, _ := intWidth(xt)
		if w == 0 { // bool
			switch op {
			case token.EQL:
				return tt.Eq(x, y)
			case token.NEQ:
				return tt.Ne(x, y)
			case token.AND, token.LAND:
				return tt.And(x, y)
			case token.OR, token.LOR:
				return tt.Or(x, y)
			}
			unsup("bool binop %s", op)
		}
		switch op {
		case token.ADD:
			return tt.Add(x, y)
		case token.SUB:
			return tt.Sub(x, y)
		case token.MUL:
			return tt.Mul(x, y)
		case token.QUO, token.REM:
			// division by zero check
			nz := tt.Ne(y, C(y.W, 0))
			if !ex.branch(st, nz) {
				ex.runtimePanic(st, "integer divide by zero")
				return C(w, 0)
			}
			if signed {
				if op == token.QUO {
					return tt.Sdiv(x, y)
				}
				return tt.Srem(x, y)
			}
			if op == token.QUO {
				return tt.Udiv(x, y)
			}
			return tt.Urem(x, y)
		case token.AND:
			return tt.BvAnd(x, y)
		case token.OR:
			return tt.BvOr(x, y)
		case token.XOR:
			return tt.BvXor(x, y)
		case token.AND_NOT:
			return tt.BvAnd(x, tt.BvNot(y))
		case token.SHL, token.SHR:
			// shift count y has its own type (unsigned, or signed: negative panics)
			yw, ysigned, _ := intWidth(yt)
			_ = yw
			if ysigned {
				neg := tt.Slt(y, C(y.W, 0))
				if ex.branch(st, neg) {
					ex.runtimePanic(st, "negative shift amount")
					return C(w, 0)
				}
			}
			var sh *Term
			switch {
			case y.W == w:
				sh = y
			case y.W < w:
				sh = tt.ZExt(y, w)
			default:
				// wider shift count: saturate
				big := tt.Not(tt.Ult(y, C(y.W, uint64(w))))
				sh = tt.Ite(big, C(w, uint64(w)), tt.Extract(y, w-1, 0))
			}
			if op == token.SHL {
				return tt.Shl(x, sh)
			}
			if signed {
				return tt.Ashr(x, sh)
			}
			return tt.Lshr(x, sh)
		case token.EQL:
			if st.crcMismatch && (x.HasUF || y.HasUF) {
				return tFalse // harness policy: a stored checksum never matches the one computed over arbitrary bytes
			}
			return tt.Eq(x, y)
		case token.NEQ:
			if st.crcMismatch && (x.HasUF || y.HasUF) {
				return tTrue
			}
			return tt.Ne(x, y)
		case token.LSS:
			if signed {
				return tt.Slt(x, y)
			}
			return tt.Ult(x, y)
		case token.LEQ:
			if signed {
				return tt.Sle(x, y)
			}
			return tt.Ule(x, y)
		case token.GTR:
			if signed {
				return tt.Slt(y, x)
			}
			return tt.Ult(y, x)
		case token.GEQ:
			if signed {
				return tt.Sle(y, x)
			}
			return tt.Ule(y, x)
		}
		unsup("int binop %s", op)
	case FloatVal:
		y := b.(FloatVal)
		switch op {
		case token.ADD:
			return x + y
		case token.SUB:
			return x - y
		case token.MUL:
			return x * y
		case token.QUO:
			return x / y
		case token.EQL:
			return B(x == y)
		case token.NEQ:
			return B(x != y)
		case token.LSS:
			return B(x < y)
		case token.LEQ:
			return B(x <= y)
		case token.GTR:
			return B(x > y)
		case token.GEQ:
			return B(x >= y)
		}
		unsup("float binop %s", op)
	case StrVal:
		y := b.(StrVal)
		switch op {
		case token.ADD:
			if x.T == nil && y.T == nil {
				return StrVal{S: x.S + y.S}
			}
			ts := make([]*Term, 0, x.Len()+y.Len())
			for i := 0; i < x.Len(); i++ {
				ts = append(ts, x.At(i))
			}
			for i := 0; i < y.Len(); i++ {
				ts = append(ts, y.At(i))
			}
			return mkStr(ts)
		case token.EQL:
			return ex.valEq(x, y)
		case token.NEQ:
			return tt.Not(ex.valEq(x, y))
		case token.LSS, token.LEQ, token.GTR, token.GEQ:
			lt := ex.strLess(x, y)
			eq := ex.valEq(x, y)
			switch op {
			case token.LSS:
				return lt
			case token.LEQ:
				return tt.Or(lt, eq)
			case token.GTR:
				return tt.Not(tt.Or(lt, eq))
			default:
				return tt.Not(lt)
			}
		}
		unsup("string binop %s", op)
	}
	switch op {
	case token.EQL:
		return ex.ifaceCmp(st, a, b)
	case token.NEQ:
		return tt.Not(ex.ifaceCmp(st, a, b))
	}
	unsup("binop %s on %T", op, a)
	return nil
}

func (ex *Exec) ifaceCmp(st *State, a, b Value) *Term {
	return ex.valEq(a, b)
}

// strLess: lexicographic a < b.
func (ex *Exec) strLess(a, b StrVal) *Term {
	tt := ex.tt
	if a.T == nil && b.T == nil {
		return B(a.S < b.S)
	}
	n := a.Len()
	if b.Len() < n {
		n = b.Len()
	}
	// result = OR_i (prefix equal up to i AND a[i] < b[i]) OR (all common equal AND len(a) < len(b))
	res := B(a.Len() < b.Len())
	for i := n - 1; i >= 0; i-- {
		res = tt.Ite(tt.Eq(a.At(i), b.At(i)), res, tt.Ult(a.At(i), b.At(i)))
	}
	return res
}

func (ex *Exec) convert(st *State, v Value, from, to types.Type) Value {
	tt := ex.tt
	fu, tu := from.Underlying(), to.Underlying()
	if tw, _, ok := intWidth(to); ok && tw > 0 {
		switch x := v.(type) {
		case *Term:
			fw, fsigned, _ := intWidth(from)
			_ = fw
			switch {
			case x.W == tw:
				return x
			case x.W > tw:
				return tt.Extract(x, tw-1, 0)
			case fsigned:
				return tt.SExt(x, tw)
			default:
				return tt.ZExt(x, tw)
			}
		case FloatVal:
			_, signed, _ := intWidth(to)
			f := float64(x)
			if signed {
				return C(tw, uint64(int64(f)))
			}
			return C(tw, uint64(f))
		case PtrVal:
			// uintptr(unsafe.Pointer(p)): only nil-ness is preserved
			if x.IsNil() {
				return C(tw, 0)
			}
			unsup("pointer to integer conversion")
		}
	}
	if isFloat(to) {
		switch x := v.(type) {
		case FloatVal:
			if tu.(*types.Basic).Kind() == types.Float32 {
				return FloatVal(float32(x))
			}
			return x
		case *Term:
			if !x.IsConst() {
				unsup("symbolic integer to float conversion")
			}
			_, signed, _ := intWidth(from)
			if signed {
				return FloatVal(float64(x.SVal()))
			}
			return FloatVal(float64(x.Val))
		}
	}
	if isString(to) {
		switch x := v.(type) {
		case StrVal:
			return x
		case SliceVal: // []byte or []rune -> string
			if x.Kind != SliceNormal {
				unsup("string(blob)")
			}
			el := fu.(*types.Slice).Elem().Underlying().(*types.Basic)
			if el.Kind() == types.Uint8 {
				if x.Len == 0 {
					return StrVal{}
				}
				return mkStr(st.sliceBytes(x))
			}
			// []rune
			var out []byte
			for i := 0; i < x.Len; i++ {
				r := st.sliceGet(x, i).(*Term)
				if !r.IsConst() {
					unsup("string([]rune) with symbolic rune")
				}
				out = utf8.AppendRune(out, rune(r.SVal()))
			}
			return StrVal{S: string(out)}
		case *Term: // string(rune)
			if !x.IsConst() {
				unsup("string(symbolic rune)")
			}
			return StrVal{S: string(rune(x.SVal()))}
		}
	}
	if ts, ok := tu.(*types.Slice); ok {
		if s, ok := v.(StrVal); ok {
			el := ts.Elem().Underlying().(*types.Basic)
			if el.Kind() == types.Uint8 {
				out := make([]*Term, s.Len())
				for i := range out {
					out[i] = s.At(i)
				}
				sl := st.bytesToSlice(out)
				return sl
			}
			str, ok := s.Concrete()
			if !ok {
				unsup("[]rune(symbolic string)")
			}
			rs := []rune(str)
			sl := st.makeSlice(C(32, 0), len(rs), len(rs))
			for i, r := range rs {
				st.sliceSet(sl, i, C(32, uint64(r)))
			}
			sl.NonNil = true
			return sl
		}
		if s, ok := v.(SliceVal); ok {
			return s
		}
	}
	switch tu.(type) {
	case *types.Pointer:
		if p, ok := v.(PtrVal); ok {
			return p
		}
	case *types.Basic:
		if tu.(*types.Basic).Kind() == types.UnsafePointer {
			switch x := v.(type) {
			case PtrVal:
				return x
			case *Term:
				if x.IsConst() && x.Val == 0 {
					return PtrVal{}
				}
			}
		}
	}
	unsup("convert %s -> %s (%T)", from, to, v)
	return nil
}

// ---------- builtins ----------

func (ex *Exec) valueLen(st *State, v Value) *Term {
	switch x := v.(type) {
	case StrVal:
		return C(64, uint64(x.Len()))
	case SliceVal:
		if x.Kind != SliceNormal || x.LenT != nil {
			return x.LenT
		}
		return C(64, uint64(x.Len))
	case MapVal:
		if x.Obj == 0 {
			return C(64, 0)
		}
		return C(64, uint64(len(st.objGet(x.Obj).(*MapObj).Keys)))
	case ChanVal:
		if x.Obj == 0 {
			return C(64, 0)
		}
		return C(64, uint64(len(st.objGet(x.Obj).(*ChanObj).Buf)))
	case *ArrVal:
		return C(64, uint64(x.N))
	case PtrVal: // *array
		if x.IsNil() {
			unsup("len of nil array pointer")
		}
		return C(64, uint64(st.load(x).(*ArrVal).N))
	}
	unsup("len of %T", v)
	return nil
}

func (ex *Exec) builtinAppend(st *State, fr *Frame, args []Value, elemT types.Type) (Value, bool) {
	s := args[0].(SliceVal)
	var addN int
	var getElem func(i int) Value
	switch a := args[1].(type) {
	case SliceVal:
		if a.Kind != SliceNormal || s.Kind != SliceNormal {
			unsup("append with blob slices")
		}
		addN = a.Len
		getElem = func(i int) Value { return st.sliceGet(a, i) }
	case StrVal:
		addN = a.Len()
		getElem = func(i int) Value { return a.At(i) }
	default:
		unsup("append of %T", args[1])
	}
	if addN == 0 {
		return s, true
	}
	// read the elements first: the source may alias the destination
	elems := make([]Value, addN)
	for i := range elems {
		elems[i] = getElem(i)
	}
	newLen := s.Len + addN
	if newLen <= s.Cap && s.Base.Obj != 0 {
		r := s
		r.Len = newLen
		for i, e := range elems {
			st.sliceSet(r, s.Len+i, e)
		}
		return r, true
	}
	// grow: Go's growth policy decides cap; model: double or exact, whichever larger (deterministic)
	nc := s.Cap * 2
	if nc < newLen {
		nc = newLen
	}
	if nc < 4 && newLen <= 4 {
		nc = newLen
	}
	if st.appendHook != nil {
		st.appendHook(ex, st, nc)
	}
	r := st.makeSlice(ex.zero(elemT), newLen, nc)
	r.NonNil = true
	for i := 0; i < s.Len; i++ {
		st.sliceSet(r, i, st.sliceGet(s, i))
	}
	for i, e := range elems {
		st.sliceSet(r, s.Len+i, e)
	}
	return r, true
}

func (ex *Exec) builtinCopy(st *State, dst SliceVal, src Value) *Term {
	if dst.Kind != SliceNormal {
		unsup("copy into blob")
	}
	var n int
	var get func(i int) Value
	if sv, ok := src.(SliceVal); ok && (dst.SymLen() || sv.SymLen()) {
		// number of elements copied = min of the two lengths; at least one of them is symbolic
		if sv.Kind != SliceNormal {
			unsup("copy from blob")
		}
		dl, sl := ex.valueLen(st, dst), ex.valueLen(st, sv)
		cnt := int(ex.concretize(st, ex.tt.Ite(ex.tt.Slt(dl, sl), dl, sl), "copy count"))
		dst.Len, dst.LenT = cnt, nil
		sv.Len, sv.LenT = cnt, nil
		src = sv
	}
	switch s := src.(type) {
	case SliceVal:
		if s.Kind != SliceNormal {
			unsup("copy from blob")
		}
		n = s.Len
		get = func(i int) Value { return st.sliceGet(s, i) }
	case StrVal:
		n = s.Len()
		get = func(i int) Value { return s.At(i) }
	default:
		unsup("copy from %T", src)
	}
	if dst.Len < n {
		n = dst.Len
	}
	if n == 0 {
		return C(64, 0)
	}
	tmp := make([]Value, n)
	for i := 0; i < n; i++ {
		tmp[i] = get(i)
	}
	// fast path: bulk write into the backing array
	root := st.objGet(dst.Base.Obj)
	arr := getPath(root, dst.Base.Path).(*ArrVal)
	for i := 0; i < n; i++ {
		arr = arr.Set(dst.Off+i, tmp[i], st.epoch)
	}
	st.objSet(dst.Base.Obj, setPath(root, dst.Base.Path, arr, st.epoch))
	return C(64, uint64(n))
}

func (ex *Exec) callBuiltin(st *State, fr *Frame, name string, args []Value, call *ssa.Call) (Value, ctlT) {
	switch name {
	case "len":
		return ex.valueLen(st, args[0]), ctlRet
	case "cap":
		switch x := args[0].(type) {
		case SliceVal:
			if x.Kind != SliceNormal {
				return x.LenT, ctlRet
			}
			return C(64, uint64(x.Cap)), ctlRet
		case ChanVal:
			if x.Obj == 0 {
				return C(64, 0), ctlRet
			}
			return C(64, uint64(st.objGet(x.Obj).(*ChanObj).Cap)), ctlRet
		case *ArrVal:
			return C(64, uint64(x.N)), ctlRet
		case PtrVal:
			return C(64, uint64(st.load(x).(*ArrVal).N)), ctlRet
		}
		unsup("cap of %T", args[0])
	case "append":
		elemT := call.Type().Underlying().(*types.Slice).Elem()
		r, _ := ex.builtinAppend(st, fr, args, elemT)
		return r, ctlRet
	case "copy":
		return ex.builtinCopy(st, args[0].(SliceVal), args[1]), ctlRet
	case "delete":
		ex.guardCheckMap(st, fr, args[0].(MapVal), true)
		ex.mapDelete(st, args[0].(MapVal), args[1])
		return nil, ctlRet
	case "close":
		ch := args[0].(ChanVal)
		if ch.Obj == 0 {
			ex.runtimePanic(st, "close of nil channel")
			return nil, ctlT{kind: ctlDone}
		}
		co := st.objGet(ch.Obj).(*ChanObj)
		if co.Closed {
			ex.runtimePanic(st, "close of closed channel")
			return nil, ctlT{kind: ctlDone}
		}
		n := *co
		n.Closed = true
		st.objSet(ch.Obj, &n)
		return nil, ctlRet
	case "recover":
		c := st.co()
		top := len(c.frames) - 1
		if c.inPanic && top == c.unwindDepth+1 && c.frames[top].isDeferred {
			v := c.panicVal
			c.inPanic = false
			c.panicVal = nil
			c.frames[c.unwindDepth].recovered = true
			if _, ok := v.(IfaceVal); !ok {
				v = IfaceVal{T: types.Typ[types.String], V: v}
			}
			return v, ctlRet
		}
		return IfaceVal{}, ctlRet
	case "print", "println":
		return nil, ctlRet
	case "min", "max":
		r := args[0]
		for _, a := range args[1:] {
			x, ok1 := r.(*Term)
			y, ok2 := a.(*Term)
			if !ok1 || !ok2 {
				unsup("min/max on %T", a)
			}
			_, signed, _ := intWidth(call.Type())
			var lt *Term
			if signed {
				lt = ex.tt.Slt(y, x)
			} else {
				lt = ex.tt.Ult(y, x)
			}
			if name == "max" {
				lt = ex.tt.Not(ex.tt.Or(lt, ex.tt.Eq(x, y)))
			}
			r = ex.tt.Ite(lt, y, x)
		}
		return r, ctlRet
	case "ssa:wrapnilchk":
		p := args[0].(PtrVal)
		if p.IsNil() {
			ex.runtimePanic(st, "value method called using nil pointer")
			return nil, ctlT{kind: ctlDone}
		}
		return p, ctlRet
	case "String": // unsafe.String(ptr, len)
		p := args[0].(PtrVal)
		n := int(ex.concretize(st, args[1].(*Term), "unsafe.String len"))
		if n == 0 {
			return StrVal{}, ctlRet
		}
		// p points at element k of an array: Path[...,k]
		base := PtrVal{Obj: p.Obj, Path: p.Path[:len(p.Path)-1]}
		off := int(p.Path[len(p.Path)-1])
		return mkStr(st.sliceBytes(SliceVal{Base: base, Off: off, Len: n, Cap: n})), ctlRet
	case "SliceData":
		s := args[0].(SliceVal)
		if s.Base.Obj == 0 {
			return PtrVal{}, ctlRet
		}
		return s.elemPtr(0), ctlRet
	case "StringData":
		unsup("unsafe.StringData")
	case "Slice": // unsafe.Slice(ptr, len)
		p := args[0].(PtrVal)
		n := int(ex.concretize(st, args[1].(*Term), "unsafe.Slice len"))
		if p.IsNil() {
			return SliceVal{}, ctlRet
		}
		base := PtrVal{Obj: p.Obj, Path: p.Path[:len(p.Path)-1]}
		off := int(p.Path[len(p.Path)-1])
		return SliceVal{Base: base, Off: off, Len: n, Cap: n, NonNil: true}, ctlRet
	case "clear":
		switch x := args[0].(type) {
		case MapVal:
			if x.Obj != 0 {
				st.objSet(x.Obj, &MapObj{})
			}
			return nil, ctlRet
		}
		unsup("clear of %T", args[0])
	}
	unsup("builtin %s", name)
	return nil, ctlRet
}

// ---------- channels ----------

func (ex *Exec) chanObj(st *State, ch ChanVal) *ChanObj { return st.objGet(ch.Obj).(*ChanObj) }

// trySend / tryRecv implement channel operations on buffered channels; unbuffered channels rendezvous through
// a one-slot hand-off: a send on an unbuffered channel succeeds only if a receiver is blocked on it — modelled
// by treating cap 0 as a one-slot buffer whose sender then blocks until the slot is taken ("synchronous enough"
// for the level-S harnesses, stated in DESIGN.md).
// Unbuffered channels are rendezvous points: a send completes only together with a receive. A coroutine that
// attempted a channel operation and blocked is "parked" at that instruction; the other side, when it arrives,
// completes both instructions atomically (value handed over, partner's instruction finished, partner runnable).
type chanPartner struct {
	co  *Coro
	fr  *Frame
	in  ssa.Instruction
	idx int // select case
}

func (ex *Exec) chanPartners(st *State, obj ObjID, receivers bool) []chanPartner {
	var out []chanPartner
	self := st.co()
	for _, c := range st.coros {
		if c == self || !c.parked || c.status == CoDone || len(c.frames) == 0 || c.inPanic {
			continue
		}
		fr := c.frames[len(c.frames)-1]
		if fr.ip >= len(fr.block.Instrs) {
			continue
		}
		switch x := fr.block.Instrs[fr.ip].(type) {
		case *ssa.Send:
			if !receivers {
				if ch, ok := ex.get(fr, x.Chan).(ChanVal); ok && ch.Obj == obj {
					out = append(out, chanPartner{c, fr, x, -1})
				}
			}
		case *ssa.UnOp:
			if receivers && x.Op == token.ARROW {
				if ch, ok := ex.get(fr, x.X).(ChanVal); ok && ch.Obj == obj {
					out = append(out, chanPartner{c, fr, x, -1})
				}
			}
		case *ssa.Select:
			for i, s := range x.States {
				if (s.Dir == types.RecvOnly) != receivers {
					continue
				}
				if ch, ok := ex.get(fr, s.Chan).(ChanVal); ok && ch.Obj == obj {
					out = append(out, chanPartner{c, fr, x, i})
					break
				}
			}
		}
	}
	return out
}

func (ex *Exec) canSend(st *State, ch ChanVal) bool {
	c := ex.chanObj(st, ch)
	if c.Closed {
		return true
	}
	if c.Cap == 0 {
		return len(ex.chanPartners(st, ch.Obj, true)) > 0
	}
	return len(c.Buf) < c.Cap
}

func (ex *Exec) canRecv(st *State, ch ChanVal) bool {
	c := ex.chanObj(st, ch)
	if len(c.Buf) > 0 || c.Closed {
		return true
	}
	return c.Cap == 0 && len(ex.chanPartners(st, ch.Obj, false)) > 0
}

func (ex *Exec) doSend(st *State, ch ChanVal, v Value) bool {
	c := ex.chanObj(st, ch)
	if c.Closed {
		ex.runtimePanic(st, "send on closed channel")
		return false
	}
	if c.Cap == 0 {
		ps := ex.chanPartners(st, ch.Obj, true)
		p := ps[0]
		if len(ps) > 1 {
			p = ps[ex.chooseN(st, len(ps))]
		}
		// complete the receiver's instruction
		switch x := p.in.(type) {
		case *ssa.UnOp:
			if x.CommaOk {
				ex.set(p.fr, x, TupleVal{v, B(true)})
			} else {
				ex.set(p.fr, x, v)
			}
		case *ssa.Select:
			ex.setSelectResult(st, p.fr, x, p.idx, v, true)
		}
		p.fr.ip++
		p.co.parked = false
		p.co.status = CoRunnable
		return true
	}
	n := *c
	n.Buf = append(append([]Value(nil), c.Buf...), v)
	st.objSet(ch.Obj, &n)
	return true
}

func (ex *Exec) doRecv(st *State, ch ChanVal, zero Value) (Value, bool) {
	c := ex.chanObj(st, ch)
	if len(c.Buf) > 0 {
		n := *c
		v := c.Buf[0]
		n.Buf = append([]Value(nil), c.Buf[1:]...)
		st.objSet(ch.Obj, &n)
		return v, true
	}
	if !c.Closed && c.Cap == 0 {
		ps := ex.chanPartners(st, ch.Obj, false)
		p := ps[0]
		if len(ps) > 1 {
			p = ps[ex.chooseN(st, len(ps))]
		}
		var v Value
		switch x := p.in.(type) {
		case *ssa.Send:
			v = ex.get(p.fr, x.X)
		case *ssa.Select:
			v = ex.get(p.fr, x.States[p.idx].Send)
			ex.setSelectResult(st, p.fr, x, p.idx, nil, false)
		}
		p.fr.ip++
		p.co.parked = false
		p.co.status = CoRunnable
		return v, true
	}
	return zero, false // closed
}

func (ex *Exec) execSend(st *State, co *Coro, fr *Frame, x *ssa.Send) {
	ch := ex.get(fr, x.Chan).(ChanVal)
	if ch.Obj == 0 {
		co.status = CoBlocked
		co.blockOn = "send on nil channel"
		return
	}
	if !ex.canSend(st, ch) {
		co.status = CoBlocked
		co.blockOn = "chan send"
		co.parked = true
		return
	}
	if ex.doSend(st, ch, ex.get(fr, x.X)) {
		fr.ip++
	}
}

func (ex *Exec) execRecv(st *State, co *Coro, fr *Frame, x *ssa.UnOp, ch ChanVal) {
	if ch.Obj == 0 {
		co.status = CoBlocked
		co.blockOn = "recv on nil channel"
		return
	}
	if !ex.canRecv(st, ch) {
		co.status = CoBlocked
		co.blockOn = "chan recv"
		co.parked = true
		return
	}
	elemT := x.X.Type().Underlying().(*types.Chan).Elem()
	v, ok := ex.doRecv(st, ch, ex.zero(elemT))
	if x.CommaOk {
		ex.set(fr, x, TupleVal{v, B(ok)})
	} else {
		ex.set(fr, x, v)
	}
	fr.ip++
}

func (ex *Exec) execSelect(st *State, co *Coro, fr *Frame, x *ssa.Select) {
	var ready []int
	for i, s := range x.States {
		ch := ex.get(fr, s.Chan).(ChanVal)
		if ch.Obj == 0 {
			continue
		}
		if s.Dir == types.SendOnly {
			if ex.canSend(st, ch) {
				ready = append(ready, i)
			}
		} else if ex.canRecv(st, ch) {
			ready = append(ready, i)
		}
	}
	if len(ready) == 0 {
		if x.Blocking {
			co.status = CoBlocked
			co.blockOn = "select"
			co.parked = true
			return
		}
		ex.setSelectResult(st, fr, x, -1, nil, false)
		fr.ip++
		return
	}
	pick := ready[0]
	if len(ready) > 1 {
		pick = ready[ex.chooseN(st, len(ready))]
	}
	s := x.States[pick]
	ch := ex.get(fr, s.Chan).(ChanVal)
	if s.Dir == types.SendOnly {
		if !ex.doSend(st, ch, ex.get(fr, s.Send)) {
			return
		}
		ex.setSelectResult(st, fr, x, pick, nil, false)
	} else {
		elemT := s.Chan.Type().Underlying().(*types.Chan).Elem()
		v, ok := ex.doRecv(st, ch, ex.zero(elemT))
		ex.setSelectResult(st, fr, x, pick, v, ok)
	}
	fr.ip++
}

func (ex *Exec) setSelectResult(st *State, fr *Frame, x *ssa.Select, idx int, recv Value, recvOk bool) {
	tup := x.Type().(*types.Tuple)
	tv := make(TupleVal, tup.Len())
	tv[0] = C(64, uint64(int64(idx)))
	tv[1] = B(recvOk)
	k := 2
	for i, s := range x.States {
		if s.Dir == types.RecvOnly {
			if i == idx {
				tv[k] = recv
			} else {
				tv[k] = ex.zero(tup.At(k).Type())
			}
			k++
		}
	}
	ex.set(fr, x, tv)
}

// ---------- guard discipline (C10) ----------

func (ex *Exec) guardCheck(st *State, fr *Frame, p PtrVal, write bool) {
	if (st.guards == nil && st.watch == nil) || !st.guardOn {
		return
	}
	ex.guardCheckSlow(st, fr, p, write)
}

var _ = fmt.Sprintf
var _ = math.MaxInt32
