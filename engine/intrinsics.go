package main

import (
	"fmt"
	"go/types"
	"math/bits"
	"os"
	"math"
	"strings"

	"golang.org/x/tools/go/ssa"
)

type ctlKind uint8

const (
	ctlReturn ctlKind = iota
	ctlBlock
	ctlTail
	ctlDone
)

type ctlT struct {
	kind ctlKind
	fv   *FuncVal
	args []Value
}

var ctlRet = ctlT{kind: ctlReturn}
var ctlBlk = ctlT{kind: ctlBlock}
var ctlEnd = ctlT{kind: ctlDone}

type intrinsic func(ex *Exec, st *State, fr *Frame, args []Value) (Value, ctlT)

var intrinsics = map[string]intrinsic{}

func reg(name string, f intrinsic) { intrinsics[name] = f }

func regAll(names []string, f intrinsic) {
	for _, n := range names {
		intrinsics[n] = f
	}
}

func regRepo(suffix string, f intrinsic) {
	// vh functions exist in every package that has harnesses
	for _, pk := range harnessPackages {
		intrinsics[pk+"."+suffix] = f
	}
}

var harnessPackages = []string{
	repoPath,
	repoPath + "/protocol",
	repoPath + "/compress/snappy",
	repoPath + "/compress/gzip",
	repoPath + "/compress/lz4",
	repoPath + "/compress/zstd",
	repoPath + "/compress",
	repoPath + "/protocol/listoffsets",
	repoPath + "/protocol/saslauthenticate",
	repoPath + "/sasl/plain",
	repoPath + "/sasl/scram",
	repoPath + "/sasl",
}

func strArg(v Value) string {
	s, ok := v.(StrVal).Concrete()
	if !ok {
		unsup("symbolic string where a concrete one is required")
	}
	return s
}

func (ex *Exec) intArg(st *State, v Value, why string) int {
	t := v.(*Term)
	return int(sext64(ex.concretize(st, t, why), t.W))
}

func (st *State) freshName(name string) string {
	st.nVar++
	return fmt.Sprintf("%s!%d", name, st.nVar)
}

func (ex *Exec) newInput(st *State, name, kind string, w uint8) *Term {
	v := ex.tt.Var(st.freshName(name), w)
	st.inputs = append(st.inputs, InputRec{Name: name, Kind: kind, W: w, Vars: []*Term{v}})
	return v
}

func init() {
	// ----- builtins -----
	for _, b := range []string{"len", "cap", "append", "copy", "delete", "close", "recover", "print", "println", "min", "max", "ssa:wrapnilchk", "String", "SliceData", "StringData", "Slice", "clear"} {
		name := b
		reg("builtin:"+name, func(ex *Exec, st *State, fr *Frame, args []Value) (Value, ctlT) {
			return ex.callBuiltin(st, fr, name, args, fr.curCall)
		})
	}

	// ----- harness API -----
	for _, spec := range []struct {
		n string
		w uint8
	}{{"vhInt64", 64}, {"vhInt", 64}, {"vhUint64", 64}, {"vhInt32", 32}, {"vhUint32", 32}, {"vhInt16", 16}, {"vhUint16", 16}, {"vhInt8", 8}, {"vhByte", 8}, {"vhBool", 0}} {
		spec := spec
		regRepo(spec.n, func(ex *Exec, st *State, fr *Frame, args []Value) (Value, ctlT) {
			return ex.newInput(st, strArg(args[0]), spec.n[2:], spec.w), ctlRet
		})
	}
	regRepo("vhIntRange", func(ex *Exec, st *State, fr *Frame, args []Value) (Value, ctlT) {
		lo, hi := args[1].(*Term), args[2].(*Term)
		v := ex.newInput(st, strArg(args[0]), "Int", 64)
		c := ex.tt.And(ex.tt.Sle(lo, v), ex.tt.Sle(v, hi))
		ex.assume(st, c)
		return v, ctlRet
	})
	regRepo("vhBytes", func(ex *Exec, st *State, fr *Frame, args []Value) (Value, ctlT) {
		n := ex.intArg(st, args[1], "vhBytes length")
		name := strArg(args[0])
		ts := make([]*Term, n)
		base := st.freshName(name)
		for i := range ts {
			ts[i] = ex.tt.Var(fmt.Sprintf("%s[%d]", base, i), 8)
		}
		st.inputs = append(st.inputs, InputRec{Name: name, Kind: "Bytes", W: 8, Vars: ts})
		return st.bytesToSlice(ts), ctlRet
	})
	regRepo("vhString", func(ex *Exec, st *State, fr *Frame, args []Value) (Value, ctlT) {
		n := ex.intArg(st, args[1], "vhString length")
		name := strArg(args[0])
		ts := make([]*Term, n)
		base := st.freshName(name)
		for i := range ts {
			ts[i] = ex.tt.Var(fmt.Sprintf("%s[%d]", base, i), 8)
		}
		st.inputs = append(st.inputs, InputRec{Name: name, Kind: "String", W: 8, Vars: ts})
		if n == 0 {
			return StrVal{}, ctlRet
		}
		return StrVal{T: ts}, ctlRet
	})
	regRepo("vhBlob", func(ex *Exec, st *State, fr *Frame, args []Value) (Value, ctlT) {
		mx := args[1].(*Term)
		// the length is a narrow variable zero-extended to 64 bits, so that its range is visible to the simplifier
		w := uint8(64)
		if mx.IsConst() && mx.Val < 1<<62 {
			w = uint8(bits.Len64(mx.Val))
			if w == 0 {
				w = 1
			}
		}
		raw := ex.newInput(st, strArg(args[0]), "BlobLen", w)
		v := ex.tt.ZExt(raw, 64)
		ex.assume(st, ex.tt.And(ex.tt.Sle(C(64, 0), v), ex.tt.Sle(v, mx)))
		return SliceVal{Kind: SliceBlob, LenT: v, NonNil: true}, ctlRet
	})
	regRepo("vhIota", func(ex *Exec, st *State, fr *Frame, args []Value) (Value, ctlT) {
		lo, hi := args[1].(*Term), args[2].(*Term)
		v := ex.newInput(st, strArg(args[0]), "IotaLen", 64)
		ex.assume(st, ex.tt.And(ex.tt.Sle(lo, v), ex.tt.Sle(v, hi)))
		return SliceVal{Kind: SliceIota, LenT: v, NonNil: true}, ctlRet
	})
	regRepo("vhChoose", func(ex *Exec, st *State, fr *Frame, args []Value) (Value, ctlT) {
		n := ex.intArg(st, args[1], "vhChoose n")
		replay := st.decIdx < len(st.decs)
		k := ex.chooseN(st, n)
		_ = replay
		st.inputs = append(st.inputs, InputRec{Name: strArg(args[0]), Kind: "Choose", Val: int64(k)})
		return C(64, uint64(k)), ctlRet
	})
	regRepo("vhAssume", func(ex *Exec, st *State, fr *Frame, args []Value) (Value, ctlT) {
		ex.assume(st, args[0].(*Term))
		return nil, ctlRet
	})
	regRepo("vhAssert", func(ex *Exec, st *State, fr *Frame, args []Value) (Value, ctlT) {
		ex.assert(st, args[0].(*Term), strArg(args[1]))
		return nil, ctlRet
	})
	regRepo("vhFail", func(ex *Exec, st *State, fr *Frame, args []Value) (Value, ctlT) {
		ex.assert(st, tFalse, strArg(args[0]))
		return nil, ctlRet
	})
	regRepo("vhReach", func(ex *Exec, st *State, fr *Frame, args []Value) (Value, ctlT) {
		id := strArg(args[0])
		st.reached = append(st.reached, id)
		return nil, ctlRet
	})
	regRepo("vhAll", func(ex *Exec, st *State, fr *Frame, args []Value) (Value, ctlT) {
		s := args[0].(SliceVal)
		r := tTrue
		for i := 0; i < s.Len; i++ {
			r = ex.tt.And(r, st.sliceGet(s, i).(*Term))
		}
		return r, ctlRet
	})
	regRepo("vhAny", func(ex *Exec, st *State, fr *Frame, args []Value) (Value, ctlT) {
		s := args[0].(SliceVal)
		r := tFalse
		for i := 0; i < s.Len; i++ {
			r = ex.tt.Or(r, st.sliceGet(s, i).(*Term))
		}
		return r, ctlRet
	})
	regRepo("vhImplies", func(ex *Exec, st *State, fr *Frame, args []Value) (Value, ctlT) {
		return ex.tt.Or(ex.tt.Not(args[0].(*Term)), args[1].(*Term)), ctlRet
	})
	regRepo("vhIteInt", func(ex *Exec, st *State, fr *Frame, args []Value) (Value, ctlT) {
		return ex.tt.Ite(args[0].(*Term), args[1].(*Term), args[2].(*Term)), ctlRet
	})
	regRepo("vhBytesEq", func(ex *Exec, st *State, fr *Frame, args []Value) (Value, ctlT) {
		a, b := args[0].(SliceVal), args[1].(SliceVal)
		if a.Len != b.Len {
			return tFalse, ctlRet
		}
		r := tTrue
		for i := 0; i < a.Len; i++ {
			r = ex.tt.And(r, ex.tt.Eq(st.sliceGet(a, i).(*Term), st.sliceGet(b, i).(*Term)))
		}
		return r, ctlRet
	})
	regRepo("vhStrEq", func(ex *Exec, st *State, fr *Frame, args []Value) (Value, ctlT) {
		return ex.valEq(args[0], args[1]), ctlRet
	})
	regRepo("vhIsSymbolic", func(ex *Exec, st *State, fr *Frame, args []Value) (Value, ctlT) {
		return tTrue, ctlRet
	})
	regRepo("vhNote", func(ex *Exec, st *State, fr *Frame, args []Value) (Value, ctlT) {
		return nil, ctlRet
	})
	regRepo("vhUnwind", func(ex *Exec, st *State, fr *Frame, args []Value) (Value, ctlT) {
		st.unwind = ex.intArg(st, args[0], "unwind")
		return nil, ctlRet
	})
	regRepo("vhGuarded", func(ex *Exec, st *State, fr *Frame, args []Value) (Value, ctlT) {
		obj := args[0].(IfaceVal)
		field := strArg(args[1])
		pt, ok := obj.T.Underlying().(*types.Pointer)
		if !ok {
			unsup("vhGuarded: object must be a pointer to a struct")
		}
		idx := fieldIndex(pt.Elem(), field)
		key := obj.V.(PtrVal).Field(idx).Key()
		mu := "atomic"
		if m, ok := args[2].(IfaceVal); ok && m.T != nil {
			if sv, isStr := m.V.(StrVal); isStr {
				// "readonly": an object the program shares with the library (concurrent readers exist): loads are
				// fine, any store by repository code is a conflicting access
				mu = strArg(sv)
			} else {
				mu = m.V.(PtrVal).Key()
			}
		}
		ng := make(map[string]guardDecl, len(st.guards)+1)
		for k, v := range st.guards {
			ng[k] = v
		}
		tn := pt.Elem().String()
		if i := strings.LastIndex(tn, "."); i >= 0 {
			tn = tn[i+1:]
		}
		ng[key] = guardDecl{mu: mu, name: tn + "." + field}
		if mv, ok := st.load(obj.V.(PtrVal).Field(idx)).(MapVal); ok && mv.Obj != 0 {
			ng[fmt.Sprintf("map:%d", mv.Obj)] = guardDecl{mu: mu, name: tn + "." + field}
		}
		st.guards = ng
		return nil, ctlRet
	})
	regRepo("vhWatch", func(ex *Exec, st *State, fr *Frame, args []Value) (Value, ctlT) {
		obj := args[0].(IfaceVal)
		pt, ok := obj.T.Underlying().(*types.Pointer)
		if !ok {
			unsup("vhWatch: object must be a pointer to a struct")
		}
		tn := pt.Elem().String()
		if i := strings.LastIndex(tn, "."); i >= 0 {
			tn = tn[i+1:]
		}
		nw := make(map[ObjID]watchDecl, len(st.watch)+1)
		for k, v := range st.watch {
			nw[k] = v
		}
		nw[obj.V.(PtrVal).Obj] = watchDecl{name: tn, t: pt.Elem()}
		st.watch = nw
		return nil, ctlRet
	})
	regRepo("vhUnwatch", func(ex *Exec, st *State, fr *Frame, args []Value) (Value, ctlT) {
		obj := args[0].(IfaceVal)
		pt, ok := obj.T.Underlying().(*types.Pointer)
		id := obj.V.(PtrVal).Obj
		w, watched := st.watch[id]
		if !ok || !watched {
			unsup("vhUnwatch: object is not watched")
		}
		skip := map[int32]bool{}
		for k := range w.skip {
			skip[k] = true
		}
		skip[int32(fieldIndex(pt.Elem(), strArg(args[1])))] = true
		nw := make(map[ObjID]watchDecl, len(st.watch))
		for k, v := range st.watch {
			nw[k] = v
		}
		w.skip = skip
		nw[id] = w
		st.watch = nw
		return nil, ctlRet
	})
	regRepo("vhGuardCheck", func(ex *Exec, st *State, fr *Frame, args []Value) (Value, ctlT) {
		st.guardOn = args[0].(*Term).IsTrue()
		return nil, ctlRet
	})
	regRepo("vhCRCMismatch", func(ex *Exec, st *State, fr *Frame, args []Value) (Value, ctlT) {
		st.crcMismatch = args[0].(*Term).IsTrue()
		return nil, ctlRet
	})
	regRepo("vhConcreteClock", func(ex *Exec, st *State, fr *Frame, args []Value) (Value, ctlT) {
		st.concreteClock = args[0].(*Term).IsTrue()
		return nil, ctlRet
	})
	regRepo("vhAllocLimit", func(ex *Exec, st *State, fr *Frame, args []Value) (Value, ctlT) {
		st.allocLimit = ex.intArg(st, args[0], "alloc limit")
		return nil, ctlRet
	})
	regRepo("vhSplitCap", func(ex *Exec, st *State, fr *Frame, args []Value) (Value, ctlT) {
		st.splitCap = ex.intArg(st, args[0], "split cap")
		return nil, ctlRet
	})
	regRepo("vhMapOrderAll", func(ex *Exec, st *State, fr *Frame, args []Value) (Value, ctlT) {
		st.mapOrderAll = args[0].(*Term).IsTrue()
		return nil, ctlRet
	})
	regRepo("vhPoolAdversarial", func(ex *Exec, st *State, fr *Frame, args []Value) (Value, ctlT) {
		st.poolAdversarial = args[0].(*Term).IsTrue()
		return nil, ctlRet
	})
	// coroutine control
	regRepo("vhManual", func(ex *Exec, st *State, fr *Frame, args []Value) (Value, ctlT) {
		st.manualSpawn = args[0].(*Term).IsTrue()
		return nil, ctlRet
	})
	regRepo("vhHandoff", func(ex *Exec, st *State, fr *Frame, args []Value) (Value, ctlT) {
		st.handoff = args[0].(*Term).IsTrue()
		return nil, ctlRet
	})
	regRepo("vhSpawned", func(ex *Exec, st *State, fr *Frame, args []Value) (Value, ctlT) {
		return C(64, uint64(len(st.coros)-1)), ctlRet
	})
	regRepo("vhCoroDone", func(ex *Exec, st *State, fr *Frame, args []Value) (Value, ctlT) {
		i := ex.intArg(st, args[0], "coroutine index")
		if i < 1 || i >= len(st.coros) {
			unsup("vhCoroDone(%d): no such coroutine", i)
		}
		return B(st.coros[i].status == CoDone), ctlRet
	})
	regRepo("vhCoroName", func(ex *Exec, st *State, fr *Frame, args []Value) (Value, ctlT) {
		i := ex.intArg(st, args[0], "coroutine index")
		if i < 1 || i >= len(st.coros) {
			unsup("vhCoroName(%d): no such coroutine", i)
		}
		n := st.coros[i].name
		if k := strings.LastIndex(n, "."); k >= 0 {
			n = n[k+1:]
		}
		return StrVal{S: n}, ctlRet
	})
	regRepo("vhCoroBlockedOn", func(ex *Exec, st *State, fr *Frame, args []Value) (Value, ctlT) {
		i := ex.intArg(st, args[0], "coroutine index")
		if i < 1 || i >= len(st.coros) {
			unsup("vhCoroBlockedOn(%d): no such coroutine", i)
		}
		c := st.coros[i]
		if c.status != CoBlocked {
			return StrVal{}, ctlRet
		}
		return StrVal{S: c.blockOn}, ctlRet
	})
	regRepo("vhRun", func(ex *Exec, st *State, fr *Frame, args []Value) (Value, ctlT) {
		i := ex.intArg(st, args[0], "coroutine index")
		if i < 1 || i >= len(st.coros) {
			unsup("vhRun(%d): no such coroutine", i)
		}
		c := st.coros[i]
		if c.status == CoDone {
			return nil, ctlRet
		}
		fr.ip++
		st.runStack = append(append([]int(nil), st.runStack...), st.cur)
		if c.status == CoBlocked {
			c.status = CoRunnable
		}
		st.cur = i
		return nil, ctlEnd
	})
	regRepo("vhRunNamed", func(ex *Exec, st *State, fr *Frame, args []Value) (Value, ctlT) {
		// run the k-th (0-based) not yet finished coroutine whose function name contains the given substring
		sub := strArg(args[0])
		k := ex.intArg(st, args[1], "vhRunNamed index")
		for i := 1; i < len(st.coros); i++ {
			c := st.coros[i]
			if c.status == CoDone || !strings.Contains(c.name, sub) {
				continue
			}
			if k > 0 {
				k--
				continue
			}
			if retReg := fr.info.idx[fr.curCall]; retReg >= 0 {
				fr.regs[retReg] = tTrue
			}
			fr.ip++
			st.runStack = append(append([]int(nil), st.runStack...), st.cur)
			if c.status == CoBlocked {
				c.status = CoRunnable
			}
			st.cur = i
			return nil, ctlEnd
		}
		return tFalse, ctlRet
	})
	regRepo("vhRunAll", func(ex *Exec, st *State, fr *Frame, args []Value) (Value, ctlT) {
		// run every non-finished coroutine (in id order) until it blocks or finishes; repeat until no progress.
		// implemented as: yield once to each runnable one; harnesses call it in a loop bounded by vhQuiescent().
		for i := 1; i < len(st.coros); i++ {
			c := st.coros[i]
			if c.status != CoDone && !c.tried {
				c.tried = true
				st.runStack = append(append([]int(nil), st.runStack...), st.cur)
				if c.status == CoBlocked {
					c.status = CoRunnable
				}
				st.cur = i
				return nil, ctlEnd // re-executes vhRunAll afterwards (ip not advanced)
			}
		}
		for _, c := range st.coros {
			c.tried = false
		}
		return nil, ctlRet
	})

	// ----- runtime / misc no-ops -----
	regAll([]string{"runtime.SetFinalizer", "runtime.KeepAlive", "runtime.Gosched", "runtime.GC", "(*sync.noCopy).Lock", "(*sync.noCopy).Unlock",
		"log.Printf", "log.Println", "log.Print", "(*log.Logger).Printf", "(*log.Logger).Println", "(*log.Logger).Print", "(*log.Logger).Output",
		"internal/race.Acquire", "internal/race.Release", "internal/race.ReleaseMerge", "internal/race.Disable", "internal/race.Enable", "internal/race.Read", "internal/race.Write", "internal/race.ReadRange", "internal/race.WriteRange",
		"runtime/pprof.Do", "runtime/pprof.SetGoroutineLabels"},
		func(ex *Exec, st *State, fr *Frame, args []Value) (Value, ctlT) { return nil, ctlRet })
	reg("runtime.NumGoroutine", func(ex *Exec, st *State, fr *Frame, args []Value) (Value, ctlT) { return C(64, 1), ctlRet })
	reg("runtime.GOMAXPROCS", func(ex *Exec, st *State, fr *Frame, args []Value) (Value, ctlT) { return C(64, 1), ctlRet })
	reg("time.runtimeNano", func(ex *Exec, st *State, fr *Frame, args []Value) (Value, ctlT) { return C(64, 1), ctlRet })
	reg("os.Getenv", func(ex *Exec, st *State, fr *Frame, args []Value) (Value, ctlT) { return StrVal{}, ctlRet })
	reg("os.Hostname", func(ex *Exec, st *State, fr *Frame, args []Value) (Value, ctlT) {
		return TupleVal{StrVal{S: "vhost"}, IfaceVal{}}, ctlRet
	})
	for _, n := range []string{"crypto/internal/boring/sig.StandardCrypto", "crypto/internal/boring/sig.BoringCrypto", "crypto/internal/boring/sig.FIPSOnly"} {
		reg(n, func(ex *Exec, st *State, fr *Frame, args []Value) (Value, ctlT) { return nil, ctlRet })
	}
	reg("os.Getpid", func(ex *Exec, st *State, fr *Frame, args []Value) (Value, ctlT) { return C(64, 4242), ctlRet })
	reg("os.Executable", func(ex *Exec, st *State, fr *Frame, args []Value) (Value, ctlT) {
		return TupleVal{StrVal{S: "/vh/exe"}, IfaceVal{}}, ctlRet
	})

	// math
	reg("math.Float64bits", func(ex *Exec, st *State, fr *Frame, args []Value) (Value, ctlT) {
		switch f := args[0].(type) {
		case FloatVal:
			return C(64, math.Float64bits(float64(f))), ctlRet
		case FloatBits:
			return f.T, ctlRet
		}
		unsup("Float64bits of %T", args[0])
		return nil, ctlRet
	})
	reg("math.Float64frombits", func(ex *Exec, st *State, fr *Frame, args []Value) (Value, ctlT) {
		t := args[0].(*Term)
		if t.IsConst() {
			return FloatVal(math.Float64frombits(t.Val)), ctlRet
		}
		return FloatBits{t}, ctlRet
	})
	reg("math.Float32bits", func(ex *Exec, st *State, fr *Frame, args []Value) (Value, ctlT) {
		return C(32, uint64(math.Float32bits(float32(args[0].(FloatVal))))), ctlRet
	})
	reg("math.Float32frombits", func(ex *Exec, st *State, fr *Frame, args []Value) (Value, ctlT) {
		t := args[0].(*Term)
		if !t.IsConst() {
			unsup("Float32frombits symbolic")
		}
		return FloatVal(math.Float32frombits(uint32(t.Val))), ctlRet
	})
	for name, f := range map[string]func(float64) float64{"math.Floor": math.Floor, "math.Ceil": math.Ceil, "math.Sqrt": math.Sqrt, "math.Abs": math.Abs, "math.Log": math.Log, "math.Exp": math.Exp, "math.Trunc": math.Trunc} {
		f := f
		reg(name, func(ex *Exec, st *State, fr *Frame, args []Value) (Value, ctlT) {
			return FloatVal(f(float64(args[0].(FloatVal)))), ctlRet
		})
	}
	reg("math.Pow", func(ex *Exec, st *State, fr *Frame, args []Value) (Value, ctlT) {
		return FloatVal(math.Pow(float64(args[0].(FloatVal)), float64(args[1].(FloatVal)))), ctlRet
	})

	// bytealg
	indexByte := func(ex *Exec, st *State, hay func(i int) *Term, n int, c *Term) Value {
		// first index i with hay[i]==c, else -1  (as an ite chain)
		r := C(64, ^uint64(0))
		for i := n - 1; i >= 0; i-- {
			r = ex.tt.Ite(ex.tt.Eq(hay(i), c), C(64, uint64(i)), r)
		}
		return r
	}
	reg("internal/bytealg.IndexByte", func(ex *Exec, st *State, fr *Frame, args []Value) (Value, ctlT) {
		s := args[0].(SliceVal)
		bs := st.sliceBytes(s)
		return indexByte(ex, st, func(i int) *Term { return bs[i] }, len(bs), args[1].(*Term)), ctlRet
	})
	reg("internal/bytealg.IndexByteString", func(ex *Exec, st *State, fr *Frame, args []Value) (Value, ctlT) {
		s := args[0].(StrVal)
		return indexByte(ex, st, s.At, s.Len(), args[1].(*Term)), ctlRet
	})
	reg("internal/bytealg.CountString", func(ex *Exec, st *State, fr *Frame, args []Value) (Value, ctlT) {
		s := args[0].(StrVal)
		r := C(64, 0)
		for i := 0; i < s.Len(); i++ {
			r = ex.tt.Add(r, ex.tt.BoolToBV(ex.tt.Eq(s.At(i), args[1].(*Term)), 64))
		}
		return r, ctlRet
	})
	reg("internal/bytealg.Count", func(ex *Exec, st *State, fr *Frame, args []Value) (Value, ctlT) {
		bs := st.sliceBytes(args[0].(SliceVal))
		r := C(64, 0)
		for _, b := range bs {
			r = ex.tt.Add(r, ex.tt.BoolToBV(ex.tt.Eq(b, args[1].(*Term)), 64))
		}
		return r, ctlRet
	})
	reg("internal/bytealg.Equal", func(ex *Exec, st *State, fr *Frame, args []Value) (Value, ctlT) {
		a, b := args[0].(SliceVal), args[1].(SliceVal)
		if a.Len != b.Len {
			return tFalse, ctlRet
		}
		x, y := st.sliceBytes(a), st.sliceBytes(b)
		r := tTrue
		for i := range x {
			r = ex.tt.And(r, ex.tt.Eq(x[i], y[i]))
		}
		return r, ctlRet
	})
	reg("internal/bytealg.Compare", func(ex *Exec, st *State, fr *Frame, args []Value) (Value, ctlT) {
		a, b := mkStr(st.sliceBytes(args[0].(SliceVal))), mkStr(st.sliceBytes(args[1].(SliceVal)))
		lt := ex.strLess(a, b)
		eq := ex.valEq(a, b)
		return ex.tt.Ite(lt, C(64, ^uint64(0)), ex.tt.Ite(eq, C(64, 0), C(64, 1))), ctlRet
	})
	reg("internal/bytealg.MakeNoZero", func(ex *Exec, st *State, fr *Frame, args []Value) (Value, ctlT) {
		n := ex.intArg(st, args[0], "MakeNoZero")
		s := st.makeSlice(C(8, 0), n, n)
		s.NonNil = true
		return s, ctlRet
	})
	reg("internal/bytealg.IndexString", func(ex *Exec, st *State, fr *Frame, args []Value) (Value, ctlT) {
		a, oka := args[0].(StrVal).Concrete()
		b, okb := args[1].(StrVal).Concrete()
		if !oka || !okb {
			unsup("bytealg.IndexString on symbolic strings")
		}
		return C(64, uint64(int64(strings.Index(a, b)))), ctlRet
	})
	reg("strings.Index", intrinsics["internal/bytealg.IndexString"])
	reg("internal/bytealg.Index", func(ex *Exec, st *State, fr *Frame, args []Value) (Value, ctlT) {
		a, oka := mkStr(st.sliceBytes(args[0].(SliceVal))).Concrete()
		b, okb := mkStr(st.sliceBytes(args[1].(SliceVal))).Concrete()
		if !oka || !okb {
			unsup("bytealg.Index on symbolic bytes")
		}
		return C(64, uint64(int64(strings.Index(a, b)))), ctlRet
	})
	reg("internal/stringslite.Index", intrinsics["internal/bytealg.IndexString"])
}

type FloatBits struct{ T *Term } // opaque float64 with symbolic bit pattern

// assume adds c to the path condition; ends the path when infeasible.
func (ex *Exec) assume(st *State, c *Term) {
	if c.IsConst() {
		if c.Val == 0 {
			st.done = true
			st.fail = &Failure{Kind: "infeasible"}
			panic(pathEnd{})
		}
		return
	}
	if st.decIdx < len(st.decs) {
		// replaying inside an instruction: the condition was already added to the clone's pc? no: assume is
		// never a decision point, it is simply re-applied (idempotent because pc entries are hash-consed).
	}
	for _, p := range st.pc {
		if p == c {
			return
		}
	}
	r := ex.check(st.pc, c)
	ex.donePending()
	if r == Unsat {
		st.done = true
		st.fail = &Failure{Kind: "infeasible"}
		panic(pathEnd{})
	}
	st.pc = append(st.pc, c)
}

// assert checks pc ⇒ c. A counterexample is recorded (with a model) and the path continues under c.
func (ex *Exec) assert(st *State, c *Term, id string) {
	ex.out.Asserts++
	if c.IsTrue() {
		ex.out.AssertsTrivial++
		return
	}
	nc := ex.tt.Not(c)
	var r SatResult
	if nc.IsTrue() {
		r = ex.check(st.pc, nil)
	} else {
		r = ex.check(st.pc, nc)
	}
	switch r {
	case Unsat:
		ex.out.AssertsProved++
		return
	case Unknown:
		ex.out.Inconclusive = append(ex.out.Inconclusive, fmt.Sprintf("assert %s: solver unknown", id))
		if os.Getenv("VH_DEBUG") != "" {
			fmt.Fprintf(os.Stderr, "UNKNOWN assert %s: %s\n  pc:\n", id, c)
			for _, p := range st.pc {
				fmt.Fprintf(os.Stderr, "    %s\n", p)
			}
		}
		return
	}
	// sat: counterexample
	var model Model
	if !ex.lastFromAlt {
		model = ex.solver.GetModel(ex.tt.Vars)
	} else {
		// verdict came from the secondary solver: ask it for the model
		model = ex.alt.GetModel(ex.tt.Vars)
	}
	ex.donePending()
	model = ex.preferSmall(st, nc, model)
	ex.recordViolation(st, "assert", id, "assertion "+id+" violated", model)
	if nc.IsTrue() {
		st.done = true
		st.fail = &Failure{Kind: "violation", ID: id}
		panic(pathEnd{})
	}
	// continue under c if possible
	if !ex.feasible(st, c) {
		st.done = true
		st.fail = &Failure{Kind: "violation", ID: id}
		panic(pathEnd{})
	}
	st.pc = append(st.pc, c)
}

func fieldIndex(t types.Type, name string) int {
	s := t.Underlying().(*types.Struct)
	for i := 0; i < s.NumFields(); i++ {
		if s.Field(i).Name() == name {
			return i
		}
	}
	panic("no field " + name + " in " + t.String())
}

var _ = ssa.NaiveForm
