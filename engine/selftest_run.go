package main

import (
	"encoding/json"
	"fmt"
	"os"
	"os/exec"
	"path/filepath"
	"strings"
	"time"

	"golang.org/x/tools/go/ssa"
)

// selfTest validates the translator: VT_SelfTest(seed) is run natively (go test with the overlay) and in the
// interpreter with the same concrete seed; the result vectors must be identical.
func (p *Program) selfTest(repo, scratch string, ov map[string][]byte, seed int64, verbose bool) (int, error) {
	fn := p.findFunc(repoPath, "VT_SelfTest")
	if fn == nil {
		return 0, nil
	}
	seeds := []int64{1, 2, 3 + seed%1000}
	// native run
	dir := filepath.Join(scratch, "selftest")
	os.MkdirAll(dir, 0o755)
	repl := map[string]string{}
	i := 0
	for path, content := range ov {
		real := filepath.Join(dir, fmt.Sprintf("f%d.go", i))
		i++
		os.WriteFile(real, content, 0o644)
		repl[path] = real
	}
	outFile := filepath.Join(dir, "native.json")
	var sb strings.Builder
	sb.WriteString("package kafka\n\nimport (\n\t\"encoding/json\"\n\t\"os\"\n\t\"testing\"\n)\n\nfunc TestVHSelfTest(t *testing.T) {\n\tout := map[string][]int64{}\n")
	for _, s := range seeds {
		fmt.Fprintf(&sb, "\tout[\"%d\"] = VT_SelfTest(%d)\n", s, s)
	}
	sb.WriteString("\tb, _ := json.Marshal(out)\n\tos.WriteFile(os.Getenv(\"VH_SELFTEST_OUT\"), b, 0o644)\n}\n")
	real := filepath.Join(dir, "selftest_test.go")
	os.WriteFile(real, []byte(sb.String()), 0o644)
	repl[filepath.Join(repo, "zz_verif_selftest_test.go")] = real
	ovj, _ := json.Marshal(map[string]interface{}{"Replace": repl})
	ovFile := filepath.Join(dir, "overlay.json")
	os.WriteFile(ovFile, ovj, 0o644)
	for _, f := range []string{"go.mod", "go.sum"} {
		b, _ := os.ReadFile(filepath.Join(repo, f))
		os.WriteFile(filepath.Join(dir, f), b, 0o644)
	}
	t0 := time.Now()
	cmd := exec.Command("go", "test", "-overlay", ovFile, "-modfile", filepath.Join(dir, "go.mod"), "-mod=mod", "-vet=off", "-count=1", "-run", "^TestVHSelfTest$", "-timeout", "120s", ".")
	cmd.Dir = repo
	cmd.Env = append(os.Environ(), "GOFLAGS=", "GOPROXY=off", "GOSUMDB=off", "GOTOOLCHAIN=local", "VH_SELFTEST_OUT="+outFile)
	if out, err := cmd.CombinedOutput(); err != nil {
		return 0, fmt.Errorf("native self-test run failed: %v: %s", err, lastLines(string(out), 8))
	}
	b, err := os.ReadFile(outFile)
	if err != nil {
		return 0, err
	}
	native := map[string][]int64{}
	if err := json.Unmarshal(b, &native); err != nil {
		return 0, err
	}
	tNative := time.Since(t0)
	// interpreter run
	n := 0
	for _, s := range seeds {
		ex := &Exec{prog: p, tt: NewTermTable(), out: &ItemResult{Reached: map[string]int{}}}
		ex.cfg = Config{Unwind: 1 << 30, MaxSteps: 1 << 40, TimeoutMs: 1000, SplitCap: 1, MaxAlloc: 1 << 26}
		st := p.newState(ex)
		st.concreteClock = true
		st.coros = []*Coro{{id: 0, status: CoRunnable, name: "selftest"}}
		res, err := ex.runConcreteCall(st, fn, []Value{C(64, uint64(s))})
		if err != nil {
			return n, fmt.Errorf("interpreter self-test run (seed %d): %v", s, err)
		}
		sl, ok := res.(SliceVal)
		if !ok {
			return n, fmt.Errorf("self-test: unexpected result %T", res)
		}
		want := native[fmt.Sprint(s)]
		if sl.Len != len(want) {
			return n, fmt.Errorf("self-test seed %d: interpreter produced %d values, native %d", s, sl.Len, len(want))
		}
		for k := 0; k < sl.Len; k++ {
			t, ok := st.sliceGet(sl, k).(*Term)
			if !ok || !t.IsConst() {
				return n, fmt.Errorf("self-test seed %d: value %d is not concrete in the interpreter", s, k)
			}
			if t.SVal() != want[k] {
				return n, fmt.Errorf("self-test seed %d: value %d differs: interpreter %d, native %d", s, k, t.SVal(), want[k])
			}
			n++
		}
	}
	if verbose {
		fmt.Fprintf(os.Stderr, "self-test: %d values agree (native run %.1fs)\n", n, tNative.Seconds())
	}
	return n, nil
}

// runConcreteCall runs fn(args) to completion; forks are errors. Returns the result value.
func (ex *Exec) runConcreteCall(st *State, fn *ssa.Function, args []Value) (res Value, err error) {
	defer func() {
		if r := recover(); r != nil {
			switch x := r.(type) {
			case unsupported:
				err = fmt.Errorf("unsupported: %s at %s", x.msg, st.where())
			case pathEnd:
				err = fmt.Errorf("path ended: %+v", st.fail)
			default:
				err = fmt.Errorf("engine panic: %v at %s", r, st.where())
			}
		}
	}()
	ex.pushFrame(st, fn, args, nil, -1)
	ex.work = nil
	for !st.done {
		ex.step(st)
		if len(ex.work) > 0 {
			ex.work = nil
			return nil, fmt.Errorf("fork during concrete execution at %s", st.where())
		}
	}
	if st.fail != nil {
		return nil, fmt.Errorf("%s: %s", st.fail.Kind, st.fail.Msg)
	}
	return st.coros[0].result, nil
}
