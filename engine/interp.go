package main

import (
	"fmt"
	"go/constant"
	"go/token"
	"go/types"
	"math"
	"strings"

	"golang.org/x/tools/go/ssa"
)

// ---------- operand evaluation ----------

func (ex *Exec) constValue(c *ssa.Const) Value {
	t := c.Type()
	if c.Value == nil {
		return ex.zero(t)
	}
	switch u := t.Underlying().(type) {
	case *types.Basic:
		if w, signed, ok := intWidth(t); ok {
			if w == 0 {
				return B(constant.BoolVal(c.Value))
			}
			v := constant.ToInt(c.Value)
			if signed {
				if i, exact := constant.Int64Val(v); exact {
					return C(w, uint64(i))
				}
			}
			if i, exact := constant.Uint64Val(v); exact {
				return C(w, i)
			}
			if i, exact := constant.Int64Val(v); exact {
				return C(w, uint64(i))
			}
			unsup("const %s out of range", c)
		}
		if u.Info()&types.IsString != 0 {
			return StrVal{S: constant.StringVal(c.Value)}
		}
		if u.Info()&types.IsFloat != 0 {
			f, _ := constant.Float64Val(c.Value)
			return FloatVal(f)
		}
	case *types.TypeParam:
		unsup("const of type param")
	}
	unsup("const %s of type %s", c, t)
	return nil
}

func (ex *Exec) get(fr *Frame, v ssa.Value) Value {
	switch x := v.(type) {
	case *ssa.Const:
		return ex.constValue(x)
	case *ssa.Global:
		return PtrVal{Obj: ex.prog.globalID(x)}
	case *ssa.Function:
		return &FuncVal{Fn: x}
	case *ssa.Builtin:
		return &FuncVal{Native: "builtin:" + x.Name()}
	}
	i, ok := fr.info.idx[v]
	if !ok {
		panic(fmt.Sprintf("no register for %s in %s", v.Name(), fr.fn))
	}
	return fr.regs[i]
}

func (ex *Exec) set(fr *Frame, v ssa.Value, val Value) {
	fr.regs[fr.info.idx[v]] = val
}

// ---------- frames ----------

func (ex *Exec) pushFrame(st *State, fn *ssa.Function, args []Value, env []Value, retReg int) *Frame {
	if fn.Blocks == nil {
		unsup("call of function without body: %s", fn.String())
	}
	fi := infoOf(fn)
	fr := &Frame{fn: fn, info: fi, block: fn.Blocks[0], regs: make([]Value, fi.nregs), retReg: retReg}
	if len(args) != len(fn.Params) {
		panic(fmt.Sprintf("arg count mismatch calling %s: %d vs %d", fn, len(args), len(fn.Params)))
	}
	copy(fr.regs, args)
	copy(fr.regs[len(fn.Params):], env)
	co := st.co()
	co.frames = append(co.frames, fr)
	if len(co.frames) > 400 {
		// unbounded recursion ends natively in "fatal error: stack overflow": its own failure kind, so that a spec
		// can make it a violation (C17/C20) instead of an inconclusive "unsupported"
		st.fail = &Failure{Kind: "stackdepth", ID: fn.String(), Msg: "call stack deeper than 400 frames (unbounded recursion?) in " + fn.String() + " at " + st.where()}
		st.done = true
		panic(pathEnd{})
	}
	ex.noteFunc(fn)
	return fr
}

// ---------- the step function ----------

func (ex *Exec) step(st *State) {
	st.decIdx = 0
	if !ex.schedule(st) {
		return
	}
	co := st.co()
	top := len(co.frames) - 1
	fr := co.frames[top]
	if co.inPanic && top == co.unwindDepth {
		ex.unwindStep(st, co, fr)
		st.decs = st.decs[:0]
		return
	}
	if fr.recovered {
		ex.recoveredStep(st, co, fr)
		st.decs = st.decs[:0]
		return
	}
	in := fr.block.Instrs[fr.ip]
	st.steps++
	ex.stats.Instrs++
	if st.steps > st.maxSteps {
		st.fail = &Failure{Kind: "steplimit", Msg: fmt.Sprintf("more than %d instructions on one path", st.maxSteps)}
		st.done = true
		return
	}
	if ex.cfg.Trace {
		fmt.Printf("[%d] %s: %s\n", st.cur, fr.fn.Name(), in.String())
	}
	ex.exec(st, co, fr, in)
	st.decs = st.decs[:0]
	if st.yieldTo > 0 {
		if tgt := st.yieldTo - 1; !st.done && tgt < len(st.coros) && st.coros[tgt].status != CoDone {
			if c := st.coros[tgt]; c.status == CoBlocked {
				c.status = CoRunnable // retry its instruction
			}
			st.cur = tgt
		}
		st.yieldTo = 0
	}
	if co.status == CoBlocked {
		st.blockedStreak++
	} else {
		st.blockedStreak = 0
		co.parked = false
	}
}

func (ex *Exec) jump(st *State, fr *Frame, to *ssa.BasicBlock, symbolic bool) {
	if to.Index <= fr.block.Index && symbolic {
		fr.iters++
		if fr.iters > st.unwind {
			st.fail = &Failure{Kind: "unwind", ID: fr.fn.String(), Msg: fmt.Sprintf("loop in %s exceeded %d symbolic iterations", fr.fn, st.unwind)}
			st.done = true
			return
		}
	}
	fr.prev = fr.block
	fr.block = to
	fr.ip = 0
	// evaluate phis simultaneously
	var vals []Value
	var phis []*ssa.Phi
	pi := -1
	for i, p := range to.Preds {
		if p == fr.prev {
			pi = i
			break
		}
	}
	for _, in := range to.Instrs {
		phi, ok := in.(*ssa.Phi)
		if !ok {
			break
		}
		phis = append(phis, phi)
		vals = append(vals, ex.get(fr, phi.Edges[pi]))
		fr.ip++
	}
	for i, phi := range phis {
		ex.set(fr, phi, vals[i])
	}
}

// forceSymLens: slices of symbolic length (b[:n] with many feasible n) are understood by slicing, len, cap, copy
// and by instructions that merely move values. Before any other instruction uses one as an operand its length is
// case split; this happens as a step of its own (the instruction is then executed at the next step) so that the
// register update does not precede a decision of the instruction itself. Returns true when it did something.
func (ex *Exec) forceSymLens(st *State, fr *Frame, in ssa.Instruction) bool {
	switch x := in.(type) {
	case *ssa.Slice, *ssa.Store, *ssa.Phi, *ssa.MakeInterface, *ssa.Return, *ssa.Extract, *ssa.ChangeType,
		*ssa.MakeClosure, *ssa.Send, *ssa.If, *ssa.Jump, *ssa.UnOp, *ssa.FieldAddr, *ssa.Field, *ssa.Defer, *ssa.Go,
		*ssa.MapUpdate, *ssa.DebugRef, *ssa.Alloc, *ssa.RunDefers, *ssa.Panic, *ssa.TypeAssert, *ssa.ChangeInterface:
		return false
	case *ssa.BinOp, *ssa.IndexAddr:
		return false // slices only compare with nil; IndexAddr checks the bounds against the symbolic length
	case *ssa.Call:
		switch f := x.Call.Value.(type) {
		case *ssa.Builtin:
			switch f.Name() {
			case "len", "cap", "copy":
				return false
			}
		case *ssa.Function:
			if _, ok := intrinsics[ex.prog.funcName(f)]; !ok && f.Blocks != nil {
				return false
			}
		default:
			return false
		}
	}
	var buf [12]*ssa.Value
	for _, op := range in.Operands(buf[:0]) {
		if *op == nil {
			continue
		}
		switch (*op).(type) {
		case *ssa.Const, *ssa.Global, *ssa.Function, *ssa.Builtin:
			continue
		}
		if s, ok := ex.get(fr, *op).(SliceVal); ok && s.SymLen() {
			ex.set(fr, *op, ex.forceLen(st, s))
			return true
		}
	}
	return false
}

func (ex *Exec) exec(st *State, co *Coro, fr *Frame, in ssa.Instruction) {
	if st.hasSymLen && ex.forceSymLens(st, fr, in) {
		return
	}
	switch x := in.(type) {
	case *ssa.DebugRef:
		fr.ip++
	case *ssa.Alloc:
		z := ex.zero(x.Type().(*types.Pointer).Elem())
		ex.set(fr, x, st.newPtr(z))
		fr.ip++
	case *ssa.BinOp:
		ex.set(fr, x, ex.binop(st, x.Op, x.X.Type(), ex.get(fr, x.X), ex.get(fr, x.Y), x.Y.Type()))
		fr.ip++
	case *ssa.UnOp:
		ex.execUnOp(st, co, fr, x)
	case *ssa.Convert:
		ex.set(fr, x, ex.convert(st, ex.get(fr, x.X), x.X.Type(), x.Type()))
		fr.ip++
	case *ssa.ChangeType:
		ex.set(fr, x, ex.get(fr, x.X))
		fr.ip++
	case *ssa.MultiConvert:
		ex.set(fr, x, ex.convert(st, ex.get(fr, x.X), x.X.Type(), x.Type()))
		fr.ip++
	case *ssa.ChangeInterface:
		ex.set(fr, x, ex.get(fr, x.X))
		fr.ip++
	case *ssa.MakeInterface:
		ex.set(fr, x, IfaceVal{T: x.X.Type(), V: ex.get(fr, x.X)})
		fr.ip++
	case *ssa.MakeClosure:
		env := make([]Value, len(x.Bindings))
		for i, b := range x.Bindings {
			env[i] = ex.get(fr, b)
		}
		ex.set(fr, x, &FuncVal{Fn: x.Fn.(*ssa.Function), Env: env})
		fr.ip++
	case *ssa.MakeSlice:
		ex.execMakeSlice(st, fr, x)
	case *ssa.MakeMap:
		id := st.alloc(&MapObj{})
		ex.set(fr, x, MapVal{Obj: id})
		fr.ip++
	case *ssa.MakeChan:
		n := ex.get(fr, x.Size).(*Term)
		sz := int(ex.concretize(st, n, "chan size"))
		id := st.alloc(&ChanObj{Cap: sz})
		ex.set(fr, x, ChanVal{Obj: id})
		fr.ip++
	case *ssa.FieldAddr:
		p := ex.get(fr, x.X).(PtrVal)
		if p.IsNil() {
			ex.runtimePanic(st, "nil pointer dereference (field address)")
			return
		}
		ex.set(fr, x, p.Field(x.Field))
		fr.ip++
	case *ssa.Field:
		sv := ex.get(fr, x.X).(StructVal)
		ex.set(fr, x, sv[x.Field])
		fr.ip++
	case *ssa.IndexAddr:
		ex.execIndexAddr(st, fr, x)
	case *ssa.Index:
		ex.execIndex(st, fr, x)
	case *ssa.Slice:
		ex.execSlice(st, fr, x)
	case *ssa.SliceToArrayPointer:
		s := ex.get(fr, x.X).(SliceVal)
		n := int(x.Type().(*types.Pointer).Elem().Underlying().(*types.Array).Len())
		if s.Len < n {
			ex.runtimePanic(st, "slice to array pointer: length too short")
			return
		}
		if s.IsNil() || s.Base.Obj == 0 {
			ex.set(fr, x, PtrVal{})
			fr.ip++
			return
		}
		unsup("SliceToArrayPointer on non-nil slice")
	case *ssa.Lookup:
		ex.execLookup(st, fr, x)
	case *ssa.MapUpdate:
		ex.execMapUpdate(st, fr, x)
	case *ssa.Store:
		p := ex.get(fr, x.Addr).(PtrVal)
		if p.IsNil() {
			ex.runtimePanic(st, "nil pointer dereference (store)")
			return
		}
		ex.guardCheck(st, fr, p, true)
		st.store(p, ex.get(fr, x.Val))
		fr.ip++
	case *ssa.Extract:
		ex.set(fr, x, ex.get(fr, x.Tuple).(TupleVal)[x.Index])
		fr.ip++
	case *ssa.TypeAssert:
		ex.execTypeAssert(st, fr, x)
	case *ssa.Phi:
		panic("phi reached by step")
	case *ssa.Jump:
		ex.jump(st, fr, fr.block.Succs[0], fr.symLoop)
	case *ssa.If:
		c := ex.get(fr, x.Cond).(*Term)
		sym := !c.IsConst()
		if sym {
			fr.symLoop = true
		}
		if ex.branch(st, c) {
			ex.jump(st, fr, fr.block.Succs[0], sym || fr.symLoop)
		} else {
			ex.jump(st, fr, fr.block.Succs[1], sym || fr.symLoop)
		}
	case *ssa.Return:
		ex.execReturn(st, co, fr, x)
	case *ssa.Call:
		ex.execCall(st, co, fr, x.Common(), fr.info.idx[x], x)
	case *ssa.Defer:
		fv, args := ex.resolveCall(st, fr, x.Common())
		if fv == nil {
			return
		}
		fr.defers = append(fr.defers, deferRec{fv, args})
		fr.ip++
	case *ssa.Go:
		fv, args := ex.resolveCall(st, fr, x.Common())
		if fv == nil {
			return
		}
		ex.spawn(st, fv, args)
		fr.ip++
	case *ssa.RunDefers:
		if n := len(fr.defers); n > 0 {
			d := fr.defers[n-1]
			fr.defers = fr.defers[:n-1]
			ex.invoke(st, co, fr, d.fv, d.args, -1, true)
			return // ip not advanced: comes back here
		}
		fr.ip++
	case *ssa.Panic:
		v := ex.get(fr, x.X)
		ex.startPanic(st, co, v)
	case *ssa.Range:
		ex.execRange(st, fr, x)
	case *ssa.Next:
		ex.execNext(st, fr, x)
	case *ssa.Select:
		ex.execSelect(st, co, fr, x)
	case *ssa.Send:
		ex.execSend(st, co, fr, x)
	default:
		unsup("instruction %T: %s", in, in)
	}
}

// ---------- return / panic ----------

func (ex *Exec) execReturn(st *State, co *Coro, fr *Frame, x *ssa.Return) {
	var res Value
	switch len(x.Results) {
	case 0:
	case 1:
		res = ex.get(fr, x.Results[0])
	default:
		tv := make(TupleVal, len(x.Results))
		for i, r := range x.Results {
			tv[i] = ex.get(fr, r)
		}
		res = tv
	}
	ex.popFrame(st, co, fr, res)
}

func (ex *Exec) popFrame(st *State, co *Coro, fr *Frame, res Value) {
	co.frames = co.frames[:len(co.frames)-1]
	if len(co.frames) == 0 {
		co.status = CoDone
		co.result = res
		if co.id == 0 {
			st.done = true
		}
		return
	}
	if fr.isDeferred {
		return // result discarded; the deferring frame re-executes RunDefers / continues unwinding
	}
	caller := co.frames[len(co.frames)-1]
	if fr.retReg >= 0 {
		caller.regs[fr.retReg] = res
	}
}

func (ex *Exec) startPanic(st *State, co *Coro, v Value) {
	co.inPanic = true
	co.panicVal = v
	co.unwindDepth = len(co.frames) - 1
	co.panicWhere = st.where()
}

func (ex *Exec) runtimePanic(st *State, msg string) {
	co := st.co()
	ex.startPanic(st, co, IfaceVal{T: ex.prog.runtimeErrorType(), V: StrVal{S: "runtime error: " + msg}})
}

// unwindStep: the coroutine is panicking and its top frame is the one being unwound.
func (ex *Exec) unwindStep(st *State, co *Coro, fr *Frame) {
	if n := len(fr.defers); n > 0 {
		d := fr.defers[n-1]
		fr.defers = fr.defers[:n-1]
		ex.invoke(st, co, fr, d.fv, d.args, -1, true)
		return
	}
	co.frames = co.frames[:len(co.frames)-1]
	if len(co.frames) == 0 {
		co.status = CoDone
		st.fail = &Failure{Kind: "panic", ID: "escaped", Msg: fmt.Sprintf("panic escaped goroutine %d (%s): %s raised at %s", co.id, co.name, fmtValue(co.panicVal), co.panicWhere)}
		st.done = true
		return
	}
	co.unwindDepth = len(co.frames) - 1
}

// recoveredStep: a deferred call of fr recovered the panic; finish the remaining defers, then leave fr.
func (ex *Exec) recoveredStep(st *State, co *Coro, fr *Frame) {
	if n := len(fr.defers); n > 0 {
		d := fr.defers[n-1]
		fr.defers = fr.defers[:n-1]
		ex.invoke(st, co, fr, d.fv, d.args, -1, true)
		return
	}
	fr.recovered = false
	if fr.fn.Recover != nil {
		fr.prev = fr.block
		fr.block = fr.fn.Recover
		fr.ip = 0
		return
	}
	var res Value
	rs := fr.fn.Signature.Results()
	switch rs.Len() {
	case 0:
	case 1:
		res = ex.zero(rs.At(0).Type())
	default:
		res = ex.zero(rs)
	}
	ex.popFrame(st, co, fr, res)
}

// ---------- calls ----------

// resolveCall evaluates the callee and arguments of a call. Returns nil fv after raising a panic.
func (ex *Exec) resolveCall(st *State, fr *Frame, cc *ssa.CallCommon) (*FuncVal, []Value) {
	args := make([]Value, 0, len(cc.Args)+1)
	if cc.IsInvoke() {
		recv := ex.get(fr, cc.Value).(IfaceVal)
		if recv.T == nil {
			ex.runtimePanic(st, "nil pointer dereference (method call on nil interface)")
			return nil, nil
		}
		if rt, ok := recv.V.(*RType); ok {
			// reflect.Type method
			args = append(args, rt)
			for _, a := range cc.Args {
				args = append(args, ex.get(fr, a))
			}
			return &FuncVal{Native: "reflect.Type." + cc.Method.Name()}, args
		}
		fn := ex.prog.lookupMethod(recv.T, cc.Method)
		if fn == nil {
			unsup("no method %s on %s", cc.Method.Name(), recv.T)
		}
		args = append(args, recv.V)
		for _, a := range cc.Args {
			args = append(args, ex.get(fr, a))
		}
		return &FuncVal{Fn: fn}, args
	}
	for _, a := range cc.Args {
		args = append(args, ex.get(fr, a))
	}
	switch f := cc.Value.(type) {
	case *ssa.Function:
		return &FuncVal{Fn: f}, args
	case *ssa.Builtin:
		return &FuncVal{Native: "builtin:" + f.Name()}, args
	}
	fv := ex.get(fr, cc.Value).(*FuncVal)
	if fv == nil {
		ex.runtimePanic(st, "call of nil func")
		return nil, nil
	}
	return fv, args
}

func (ex *Exec) execCall(st *State, co *Coro, fr *Frame, cc *ssa.CallCommon, retReg int, callInstr *ssa.Call) {
	fv, args := ex.resolveCall(st, fr, cc)
	if fv == nil {
		return
	}
	fr.curCall = callInstr
	ex.invoke(st, co, fr, fv, args, retReg, false)
}

// invoke calls fv. For normal calls the caller's ip is advanced (before pushing the callee frame).
func (ex *Exec) invoke(st *State, co *Coro, fr *Frame, fv *FuncVal, args []Value, retReg int, deferred bool) {
	name := fv.Native
	if fv.Fn != nil {
		name = ex.prog.funcName(fv.Fn)
	}
	if intr, ok := intrinsics[name]; ok {
		res, ctl := intr(ex, st, fr, args)
		switch ctl.kind {
		case ctlReturn:
			if !deferred {
				if retReg >= 0 {
					fr.regs[retReg] = res
				}
				fr.ip++
			}
		case ctlBlock:
			if deferred {
				fr.defers = append(fr.defers, deferRec{fv, args})
			}
			co.status = CoBlocked
			co.blockOn = name
		case ctlTail:
			if !deferred {
				fr.ip++
			}
			nf := ex.pushFrame(st, ctl.fv.Fn, ctl.args, ctl.fv.Env, retReg)
			nf.isDeferred = deferred
		case ctlDone:
			// intrinsic managed everything (ended the path, raised a panic, switched coroutine ...)
		}
		return
	}
	if fv.Fn == nil {
		unsup("no intrinsic for %s", name)
	}
	if len(ex.cfg.CutCalls) > 0 && fv.Fn.Pkg != nil {
		pp := fv.Fn.Pkg.Pkg.Path()
		for _, c := range ex.cfg.CutCalls {
			if strings.HasPrefix(pp, c) {
				st.fail = &Failure{Kind: "cut", ID: c}
				st.done = true
				panic(pathEnd{})
			}
		}
	}
	if fv.Fn.Blocks == nil {
		unsup("function without body and without intrinsic: %s", name)
	}
	if !deferred {
		fr.ip++
	}
	nf := ex.pushFrame(st, fv.Fn, args, fv.Env, retReg)
	nf.isDeferred = deferred
}

func (ex *Exec) spawn(st *State, fv *FuncVal, args []Value) *Coro {
	co := &Coro{id: len(st.coros), status: CoRunnable, manual: st.manualSpawn}
	st.coros = append(st.coros, co)
	if fv.Fn == nil {
		unsup("go with native function %s", fv.Native)
	}
	name := ex.prog.funcName(fv.Fn)
	co.name = name
	if _, ok := intrinsics[name]; ok {
		unsup("go with intrinsic function %s", name)
	}
	saved := st.cur
	st.cur = co.id
	ex.pushFrame(st, fv.Fn, args, fv.Env, -1)
	st.cur = saved
	st.spawned = append(append([]int(nil), st.spawned...), co.id)
	return co
}

// ---------- scheduling ----------

// schedule makes sure st.cur designates a coroutine that can take a step. Returns false when the state ended.
func (ex *Exec) schedule(st *State) bool {
	for {
		if st.done {
			return false
		}
		co := st.co()
		if co.status == CoRunnable && len(co.frames) > 0 {
			return true
		}
		// current coroutine blocked or finished
		if n := len(st.runStack); n > 0 && st.cur != st.runStack[n-1] {
			st.cur = st.runStack[n-1]
			st.runStack = append([]int(nil), st.runStack[:n-1]...)
			if c := st.co(); c.status == CoBlocked {
				c.status = CoRunnable
			}
			continue
		}
		if st.blockedStreak > len(st.coros)+1 {
			// nothing can run: let time pass - the oldest pending timer fires (level S rule)
			if !st.noAutoFire && ex.fireOldestTimer(st) {
				st.blockedStreak = 0
				continue
			}
			break
		}
		n := len(st.coros)
		picked := false
		for k := 1; k <= n; k++ {
			i := (st.cur + k) % n
			c := st.coros[i]
			if c.status == CoDone || (c.manual && i != 0) {
				continue
			}
			if c.status == CoBlocked {
				c.status = CoRunnable // retry its instruction
			}
			st.cur = i
			picked = true
			break
		}
		if !picked {
			break
		}
	}
	st.done = true
	var who string
	for _, c := range st.coros {
		if c.status != CoDone {
			who += fmt.Sprintf(" [%d %s on %s]", c.id, c.name, c.blockOn)
		}
	}
	st.fail = &Failure{Kind: "deadlock", Msg: "all goroutines blocked:" + who}
	return false
}

// ---------- misc instruction helpers ----------

func (ex *Exec) execUnOp(st *State, co *Coro, fr *Frame, x *ssa.UnOp) {
	tt := ex.tt
	v := ex.get(fr, x.X)
	switch x.Op {
	case token.MUL: // load
		p := v.(PtrVal)
		if p.IsNil() {
			ex.runtimePanic(st, "nil pointer dereference (load)")
			return
		}
		ex.guardCheck(st, fr, p, false)
		ex.set(fr, x, st.load(p))
	case token.NOT:
		ex.set(fr, x, tt.Not(v.(*Term)))
	case token.SUB:
		if f, ok := v.(FloatVal); ok {
			ex.set(fr, x, -f)
		} else {
			ex.set(fr, x, tt.Neg(v.(*Term)))
		}
	case token.XOR:
		ex.set(fr, x, tt.BvNot(v.(*Term)))
	case token.ARROW:
		ex.execRecv(st, co, fr, x, v.(ChanVal))
		return
	default:
		unsup("unop %s", x.Op)
	}
	fr.ip++
}

func (ex *Exec) execMakeSlice(st *State, fr *Frame, x *ssa.MakeSlice) {
	lt := ex.get(fr, x.Len).(*Term)
	ct := ex.get(fr, x.Cap).(*Term)
	elem := x.Type().Underlying().(*types.Slice).Elem()
	n, ok := ex.sizeValue(st, lt, "make len", elem)
	if !ok {
		return
	}
	c := n
	if ct != lt {
		c, ok = ex.sizeValue(st, ct, "make cap", elem)
		if !ok {
			return
		}
	}
	if n < 0 || c < n {
		ex.runtimePanic(st, "makeslice: len out of range")
		return
	}
	s := st.makeSlice(ex.zero(elem), n, c)
	s.NonNil = true
	ex.set(fr, x, s)
	fr.ip++
}

// sizeValue turns a (possibly symbolic) size into a concrete one by case split; checks the allocation obligation.
func (ex *Exec) sizeValue(st *State, t *Term, why string, elem types.Type) (int, bool) {
	if !t.IsConst() && st.allocLimit > 0 && st.decIdx >= len(st.decs) {
		// obligation: bytes requested <= limit, for every feasible value of t
		sz := uint64(types.SizesFor("gc", "amd64").Sizeof(elem))
		if sz == 0 {
			sz = 1
		}
		t64 := t
		if t.W < 64 {
			t64 = ex.tt.SExt(t, 64)
		}
		big := ex.tt.Slt(C(64, uint64(st.allocLimit)/sz), t64)
		r := ex.check(st.pc, big)
		if r == Sat {
			// prefer a witness whose allocation is unmistakable in a native replay (limit + 16 MiB)
			ex.donePending()
			huge := ex.tt.Slt(C(64, (uint64(st.allocLimit)+(16<<20))/sz), t64)
			if ex.check(st.pc, huge) != Sat {
				ex.donePending()
				ex.check(st.pc, big)
			}
			var model Model
			if ex.lastFromAlt {
				model = ex.alt.GetModel(ex.tt.Vars)
			} else {
				model = ex.solver.GetModel(ex.tt.Vars)
			}
			v := evalTerm(t64, model, nil, map[*Term]uint64{})
			ex.donePending()
			site := st.site()
			ex.recordViolation(st, "bigalloc", "alloc:"+site, fmt.Sprintf("%s: allocation of %d elements of %d bytes (%s) driven by input, limit %d bytes, at %s", why, int64(v), sz, elem, st.allocLimit, st.where()), model)
			st.fail = &Failure{Kind: "violation", ID: "alloc:" + site}
			st.done = true
			panic(pathEnd{})
		}
		ex.donePending()
		if r == Unknown {
			ex.out.Inconclusive = append(ex.out.Inconclusive, "allocation obligation: solver unknown at "+st.site())
		}
	}
	if !t.IsConst() {
		// a negative size is one path (every negative value behaves alike: the allocation panics); it must not be
		// lost among the "large" values that the cut policy drops
		if ex.branch(st, ex.tt.Slt(t, C(t.W, 0))) {
			return -1, true
		}
	}
	v := int64(ex.concretize(st, t, why))
	if t.W < 64 {
		v = sext64(uint64(v), t.W)
	}
	if v > int64(ex.cfg.MaxAlloc) {
		st.fail = &Failure{Kind: "bigalloc", ID: st.site(), Msg: fmt.Sprintf("%s of %d elements (%s)", why, v, elem)}
		st.done = true
		panic(pathEnd{})
	}
	if v < 0 {
		return -1, true
	}
	return int(v), true
}

func (ex *Exec) indexCheck(st *State, idx *Term, n int, what string) (int, *Term, bool) {
	// returns (concrete index, symbolic index, ok). Raises a panic path when out of range is feasible.
	tt := ex.tt
	if idx.IsConst() {
		v := idx.SVal()
		if v < 0 || v >= int64(n) {
			ex.runtimePanic(st, fmt.Sprintf("index out of range [%d] with length %d (%s)", v, n, what))
			return 0, nil, false
		}
		return int(v), nil, true
	}
	inb := tt.Ult(idx, C(idx.W, uint64(n)))
	if idx.W < 64 {
		// index of narrower type: compare zero/sign extended appropriately (values are already in their type)
		inb = tt.Ult(tt.SExt(idx, 64), C(64, uint64(n)))
	}
	if !ex.branch(st, inb) {
		ex.runtimePanic(st, fmt.Sprintf("index out of range (symbolic) with length %d (%s)", n, what))
		return 0, nil, false
	}
	return 0, idx, true
}

func (ex *Exec) execIndexAddr(st *State, fr *Frame, x *ssa.IndexAddr) {
	base := ex.get(fr, x.X)
	idx := ex.get(fr, x.Index).(*Term)
	switch b := base.(type) {
	case SliceVal:
		if b.Kind == SliceIota {
			tt := ex.tt
			i64 := idx
			if idx.W < 64 {
				i64 = tt.SExt(idx, 64)
			}
			inb := tt.And(tt.Sle(C(64, 0), i64), tt.Slt(i64, b.LenT))
			if !ex.branch(st, inb) {
				ex.runtimePanic(st, "index out of range (symbolic list)")
				return
			}
			ex.set(fr, x, PtrVal{Obj: iotaObj, Sym: i64})
			fr.ip++
			return
		}
		if b.Kind != SliceNormal {
			unsup("IndexAddr on blob slice")
		}
		if b.SymLen() {
			// bounds check against the symbolic length; the element itself needs a concrete index
			tt := ex.tt
			i64 := idx
			if idx.W < 64 {
				i64 = tt.SExt(idx, 64)
			}
			if !ex.branch(st, tt.And(tt.Sle(C(64, 0), i64), tt.Slt(i64, b.LenT))) {
				ex.runtimePanic(st, fmt.Sprintf("index out of range [%s] with length %s (slice)", i64, b.LenT))
				return
			}
			i := int(ex.concretize(st, i64, "index into slice of symbolic length"))
			ex.set(fr, x, b.elemPtr(i))
			fr.ip++
			return
		}
		i, sym, ok := ex.indexCheck(st, idx, b.Len, "slice")
		if !ok {
			return
		}
		if sym != nil {
			if b.Len <= 256 && ex.scalarElems(x.Type().(*types.Pointer).Elem()) {
				ex.set(fr, x, PtrVal{Obj: b.Base.Obj, Path: b.Base.Path, Sym: ex.tt.ZExt(sym, 64), SymLo: b.Off, SymN: b.Len})
				fr.ip++
				return
			}
			i = int(ex.symIndex(st, sym, b.Len))
		}
		ex.set(fr, x, b.elemPtr(i))
	case PtrVal: // pointer to array
		if b.IsNil() {
			ex.runtimePanic(st, "nil pointer dereference (index)")
			return
		}
		n := int(x.X.Type().Underlying().(*types.Pointer).Elem().Underlying().(*types.Array).Len())
		i, sym, ok := ex.indexCheck(st, idx, n, "array")
		if !ok {
			return
		}
		if sym != nil {
			if n <= 256 && ex.scalarElems(x.Type().(*types.Pointer).Elem()) {
				ex.set(fr, x, PtrVal{Obj: b.Obj, Path: b.Path, Sym: ex.tt.ZExt(sym, 64)})
				fr.ip++
				return
			}
			i = int(ex.symIndex(st, sym, n))
		}
		ex.set(fr, x, b.Field(i))
	default:
		unsup("IndexAddr on %T", base)
	}
	fr.ip++
}

// scalarElems: element values can be merged with ite (ints, bools, and structs of those).
func (ex *Exec) scalarElems(t types.Type) bool {
	switch u := t.Underlying().(type) {
	case *types.Basic:
		_, _, ok := intWidth(t)
		return ok
	case *types.Struct:
		for i := 0; i < u.NumFields(); i++ {
			if !ex.scalarElems(u.Field(i).Type()) {
				return false
			}
		}
		return true
	}
	return false
}

func (ex *Exec) symIndex(st *State, idx *Term, n int) uint64 {
	return ex.concretize(st, idx, "symbolic index")
}

func (ex *Exec) execIndex(st *State, fr *Frame, x *ssa.Index) {
	base := ex.get(fr, x.X)
	idx := ex.get(fr, x.Index).(*Term)
	switch b := base.(type) {
	case StrVal:
		i, sym, ok := ex.indexCheck(st, idx, b.Len(), "string")
		if !ok {
			return
		}
		if sym != nil {
			n := b.Len()
			r := b.At(n - 1)
			for k := n - 2; k >= 0; k-- {
				r = ex.tt.Ite(ex.tt.Eq(sym, C(sym.W, uint64(k))), b.At(k), r)
			}
			ex.set(fr, x, r)
		} else {
			ex.set(fr, x, b.At(i))
		}
	case *ArrVal:
		i, sym, ok := ex.indexCheck(st, idx, b.N, "array value")
		if !ok {
			return
		}
		if sym != nil {
			ex.set(fr, x, ex.selectElem(b, 0, b.N, sym))
		} else {
			ex.set(fr, x, b.Get(i))
		}
	default:
		unsup("Index on %T", base)
	}
	fr.ip++
}

func (ex *Exec) execSlice(st *State, fr *Frame, x *ssa.Slice) {
	base := ex.get(fr, x.X)
	tt := ex.tt
	var lo, hi, mx *Term
	if x.Low != nil {
		lo = ex.get(fr, x.Low).(*Term)
	}
	if x.High != nil {
		hi = ex.get(fr, x.High).(*Term)
	}
	if x.Max != nil {
		mx = ex.get(fr, x.Max).(*Term)
	}
	s64 := func(t *Term) *Term {
		if t.W < 64 {
			return tt.SExt(t, 64)
		}
		return t
	}
	// bounds(length/cap limits): 0 <= lo <= hi <= max <= limit, evaluated symbolically first
	var lenDefaultT *Term // overrides lenDefault (slice of symbolic length)
	symHigh := false      // the caller can represent a symbolic high bound
	var symHighT *Term    // set when the high bound stayed symbolic
	checkBounds := func(lenDefault, limit int) (int, int, int, bool) {
		lT, hT, mT := C(64, 0), C(64, uint64(lenDefault)), C(64, uint64(limit))
		if lenDefaultT != nil {
			hT = lenDefaultT
		}
		if lo != nil {
			lT = s64(lo)
		}
		if hi != nil {
			hT = s64(hi)
		}
		if mx != nil {
			mT = s64(mx)
		}
		upper := mT
		ok := tt.AndN(tt.Sle(C(64, 0), lT), tt.Sle(lT, hT), tt.Sle(hT, upper), tt.Sle(mT, C(64, uint64(limit))))
		if !ex.branch(st, ok) {
			ex.runtimePanic(st, fmt.Sprintf("slice bounds out of range [%s:%s:%s] with capacity %d", lT, hT, mT, limit))
			return 0, 0, 0, false
		}
		l := int(ex.concretize(st, lT, "slice low"))
		var h int
		if symHigh && !hT.IsConst() {
			if v, ok := ex.concretizeUpTo(st, hT, "slice high", 8); ok {
				h = int(v)
			} else {
				symHighT = hT
			}
		} else {
			h = int(ex.concretize(st, hT, "slice high"))
		}
		m := int(ex.concretize(st, mT, "slice max"))
		return l, h, m, true
	}
	switch b := base.(type) {
	case StrVal:
		l, h, _, ok := checkBounds(b.Len(), b.Len())
		if !ok {
			return
		}
		if b.T != nil {
			ex.set(fr, x, mkStr(b.T[l:h]))
		} else {
			ex.set(fr, x, StrVal{S: b.S[l:h]})
		}
	case SliceVal:
		if b.Kind != SliceNormal {
			unsup("slicing blob/iota slice")
		}
		if b.SymLen() {
			lenDefaultT = b.LenT
		}
		symHigh = !b.IsNil()
		l, h, m, ok := checkBounds(b.Len, b.Cap)
		if !ok {
			return
		}
		n := b
		n.Off = b.Off + l
		n.Len = h - l
		n.LenT = nil
		n.Cap = m - l
		if symHighT != nil {
			n.Len = symLenPoison
			n.LenT = tt.Sub(symHighT, C(64, uint64(l)))
			st.hasSymLen = true
		}
		if b.IsNil() {
			n = SliceVal{}
		}
		ex.set(fr, x, n)
	case PtrVal: // *array
		if b.IsNil() {
			ex.runtimePanic(st, "nil pointer dereference (slice of array pointer)")
			return
		}
		alen := int(x.X.Type().Underlying().(*types.Pointer).Elem().Underlying().(*types.Array).Len())
		l, h, m, ok := checkBounds(alen, alen)
		if !ok {
			return
		}
		ex.set(fr, x, SliceVal{Base: b, Off: l, Len: h - l, Cap: m - l, NonNil: true})
	default:
		unsup("Slice on %T", base)
	}
	fr.ip++
}

func (ex *Exec) execTypeAssert(st *State, fr *Frame, x *ssa.TypeAssert) {
	iv := ex.get(fr, x.X).(IfaceVal)
	ok := false
	var res Value
	if iv.T != nil {
		if types.IsInterface(x.AssertedType) {
			if ex.prog.implements(iv.T, x.AssertedType.Underlying().(*types.Interface)) {
				ok = true
				res = iv
			}
		} else if types.Identical(iv.T, x.AssertedType) {
			ok = true
			res = iv.V
		}
	}
	if x.CommaOk {
		if !ok {
			res = ex.zero(x.AssertedType)
		}
		ex.set(fr, x, TupleVal{res, B(ok)})
		fr.ip++
		return
	}
	if !ok {
		from := "nil"
		if iv.T != nil {
			from = iv.T.String()
		}
		ex.runtimePanic(st, fmt.Sprintf("interface conversion: %s is not %s", from, x.AssertedType))
		return
	}
	ex.set(fr, x, res)
	fr.ip++
}

// ---------- maps ----------

// mapFind returns the index of key in mo, forking on symbolic equality. -1 when absent.
func (ex *Exec) mapFind(st *State, mo *MapObj, key Value) int {
	for i, k := range mo.Keys {
		c := ex.valEq(k, key)
		if c.IsConst() {
			if c.Val != 0 {
				return i
			}
			continue
		}
		if ex.branch(st, c) {
			return i
		}
	}
	return -1
}

func (ex *Exec) execLookup(st *State, fr *Frame, x *ssa.Lookup) {
	base := ex.get(fr, x.X)
	if mv, ok := base.(MapVal); ok {
		ex.guardCheckMap(st, fr, mv, false)
	}
	if s, ok := base.(StrVal); ok {
		idx := ex.get(fr, x.Index).(*Term)
		i, sym, ok := ex.indexCheck(st, idx, s.Len(), "string")
		if !ok {
			return
		}
		if sym != nil {
			i = int(ex.symIndex(st, sym, s.Len()))
		}
		ex.set(fr, x, s.At(i))
		fr.ip++
		return
	}
	m := base.(MapVal)
	key := ex.get(fr, x.Index)
	elemT := x.X.Type().Underlying().(*types.Map).Elem()
	var res Value
	found := false
	if m.Obj != 0 {
		mo := st.objGet(m.Obj).(*MapObj)
		if i := ex.mapFind(st, mo, key); i >= 0 {
			res = mo.Vals[i]
			found = true
		}
	}
	if !found {
		res = ex.zero(elemT)
	}
	if x.CommaOk {
		ex.set(fr, x, TupleVal{res, B(found)})
	} else {
		ex.set(fr, x, res)
	}
	fr.ip++
}

func (ex *Exec) execMapUpdate(st *State, fr *Frame, x *ssa.MapUpdate) {
	m := ex.get(fr, x.Map).(MapVal)
	ex.guardCheckMap(st, fr, m, true)
	if m.Obj == 0 {
		ex.runtimePanic(st, "assignment to entry in nil map")
		return
	}
	key := ex.get(fr, x.Key)
	val := ex.get(fr, x.Value)
	mo := st.objGet(m.Obj).(*MapObj)
	i := ex.mapFind(st, mo, key)
	ex.mapSet(st, m, mo, i, key, val)
	fr.ip++
}

func (ex *Exec) mapSet(st *State, m MapVal, mo *MapObj, i int, key, val Value) {
	n := &MapObj{Keys: make([]Value, len(mo.Keys), len(mo.Keys)+1), Vals: make([]Value, len(mo.Vals), len(mo.Vals)+1)}
	copy(n.Keys, mo.Keys)
	copy(n.Vals, mo.Vals)
	if i >= 0 {
		n.Vals[i] = val
	} else {
		n.Keys = append(n.Keys, key)
		n.Vals = append(n.Vals, val)
	}
	st.objSet(m.Obj, n)
}

func (ex *Exec) mapDelete(st *State, m MapVal, key Value) {
	if m.Obj == 0 {
		return
	}
	mo := st.objGet(m.Obj).(*MapObj)
	i := ex.mapFind(st, mo, key)
	if i < 0 {
		return
	}
	n := &MapObj{}
	n.Keys = append(append(n.Keys, mo.Keys[:i]...), mo.Keys[i+1:]...)
	n.Vals = append(append(n.Vals, mo.Vals[:i]...), mo.Vals[i+1:]...)
	st.objSet(m.Obj, n)
}

// ---------- range ----------

func (ex *Exec) execRange(st *State, fr *Frame, x *ssa.Range) {
	v := ex.get(fr, x.X)
	rs := &rangeState{}
	switch b := v.(type) {
	case StrVal:
		rs.str = &b
	case MapVal:
		ex.guardCheckMap(st, fr, b, false)
		if b.Obj != 0 {
			mo := st.objGet(b.Obj).(*MapObj)
			n := len(mo.Keys)
			order := make([]int, n)
			for i := range order {
				order[i] = i
			}
			if st.mapOrderAll && n > 1 {
				// nondeterministic permutation: choose successively
				for i := 0; i < n-1; i++ {
					j := i + ex.chooseN(st, n-i)
					order[i], order[j] = order[j], order[i]
				}
			}
			for _, i := range order {
				rs.keys = append(rs.keys, mo.Keys[i])
				rs.vals = append(rs.vals, mo.Vals[i])
			}
		}
	default:
		unsup("range over %T", v)
	}
	if fr.rangeIter == nil {
		fr.rangeIter = map[int]*rangeState{}
	}
	ri := fr.info.idx[x]
	fr.rangeIter[ri] = rs
	fr.regs[ri] = C(64, uint64(ri))
	fr.ip++
}

func (ex *Exec) execNext(st *State, fr *Frame, x *ssa.Next) {
	ri := fr.info.idx[x.Iter.(*ssa.Range)]
	rs := fr.rangeIter[ri]
	tup := x.Type().(*types.Tuple)
	if rs.str != nil {
		s := *rs.str
		if rs.pos >= s.Len() {
			ex.set(fr, x, TupleVal{tFalse, C(64, 0), C(32, 0)})
			fr.ip++
			return
		}
		// decode one UTF-8 rune; only concrete or ASCII-constrained bytes are supported
		b0 := s.At(rs.pos)
		if !b0.IsConst() {
			// fork: ascii or not
			if !ex.branch(st, ex.tt.Ult(b0, C(8, 0x80))) {
				unsup("range over string with symbolic non-ASCII byte")
			}
			nrs := *rs
			nrs.pos++
			fr.rangeIter[ri] = &nrs
			ex.set(fr, x, TupleVal{tTrue, C(64, uint64(rs.pos)), ex.tt.ZExt(b0, 32)})
			fr.ip++
			return
		}
		cs, _ := StrVal{S: "", T: nil}, 0
		_ = cs
		str, ok := s.Concrete()
		var r rune
		var size int
		if ok {
			for i, rr := range str[rs.pos:] {
				if i == 0 {
					r = rr
					size = len(string(rr))
					if rr == 0xFFFD {
						size = 1
					}
					break
				}
			}
		} else {
			if b0.Val >= 0x80 {
				unsup("range over partially symbolic non-ASCII string")
			}
			r, size = rune(b0.Val), 1
		}
		nrs := *rs
		nrs.pos += size
		fr.rangeIter[ri] = &nrs
		ex.set(fr, x, TupleVal{tTrue, C(64, uint64(rs.pos)), C(32, uint64(r))})
		fr.ip++
		return
	}
	if rs.pos >= len(rs.keys) {
		ex.set(fr, x, TupleVal{tFalse, ex.zero(tup.At(1).Type()), ex.zero(tup.At(2).Type())})
		fr.ip++
		return
	}
	k, v := rs.keys[rs.pos], rs.vals[rs.pos]
	// Go semantics: entries deleted during iteration are not produced; re-read the current value
	m := ex.get(fr, x.Iter.(*ssa.Range).X).(MapVal)
	mo := st.objGet(m.Obj).(*MapObj)
	nrs := *rs
	nrs.pos++
	fr.rangeIter[ri] = &nrs
	present := false
	for i, kk := range mo.Keys {
		c := ex.valEq(kk, k)
		if c.IsTrue() {
			present = true
			v = mo.Vals[i]
			break
		}
	}
	if !present {
		// skip silently: re-execute Next
		return
	}
	if types.Identical(tup.At(1).Type(), types.Typ[types.Invalid]) {
		k = nil
	}
	ex.set(fr, x, TupleVal{tTrue, k, v})
	fr.ip++
}

var _ = math.MaxInt64
