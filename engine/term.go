package main

// Hash-consed bit-vector / boolean terms with local simplification.
// Sort: W == 0 is Bool, W in 1..64 is (_ BitVec W).

import (
	"fmt"
	"math/bits"
	"strings"
)

type Op uint8

const (
	OpConst Op = iota
	OpVar
	OpNot // bool
	OpAnd
	OpOr
	OpIte
	OpEq
	OpUlt
	OpUle
	OpSlt
	OpSle
	OpBvNot
	OpBvNeg
	OpBvAnd
	OpBvOr
	OpBvXor
	OpAdd
	OpSub
	OpMul
	OpUdiv
	OpUrem
	OpSdiv
	OpSrem
	OpShl
	OpLshr
	OpAshr
	OpConcat
	OpExtract // imm1=hi imm2=lo
	OpZExt
	OpSExt
	OpUF // imm1 = uf index; args
)

var opNames = [...]string{"const", "var", "not", "and", "or", "ite", "=", "bvult", "bvule", "bvslt", "bvsle", "bvnot", "bvneg", "bvand", "bvor", "bvxor", "bvadd", "bvsub", "bvmul", "bvudiv", "bvurem", "bvsdiv", "bvsrem", "bvshl", "bvlshr", "bvashr", "concat", "extract", "zext", "sext", "uf"}

type Term struct {
	Op   Op
	W    uint8 // 0 = bool
	Imm1 uint8
	Imm2 uint8
	Val  uint64 // const value (masked) ; var: index into table.vars
	A    [3]*Term
	ID   uint32 // 0 for constants
	Name string // var name
	Hard bool   // contains division/remainder by a symbolic divisor or symbolic*symbolic multiplication
	HardC bool  // contains division/remainder by a constant (not a power of two)
	HasUF bool  // contains an uninterpreted function application (CRC fold)
}

type argKey struct {
	tag uint32 // 0 none, 1 const (w in high bits), 2 id
	v   uint64
}

type termKey struct {
	op         Op
	w, i1, i2  uint8
	a0, a1, a2 argKey
	name       string
}

type UFDecl struct {
	Name string
	ArgW []uint8
	ResW uint8
}

type TermTable struct {
	m      map[termKey]*Term
	nextID uint32
	Vars   []*Term
	UFs    []UFDecl
	ufIdx  map[string]int
}

func NewTermTable() *TermTable {
	return &TermTable{m: make(map[termKey]*Term, 1<<12), nextID: 1, ufIdx: map[string]int{}}
}

func mask(w uint8) uint64 {
	if w >= 64 {
		return ^uint64(0)
	}
	return (uint64(1) << w) - 1
}

var smallConsts [65][258]*Term
var tTrue = &Term{Op: OpConst, W: 0, Val: 1}
var tFalse = &Term{Op: OpConst, W: 0, Val: 0}

func init() {
	for w := 1; w <= 64; w++ {
		for v := 0; v < 257; v++ {
			if w < 64 && uint64(v) > mask(uint8(w)) {
				break
			}
			smallConsts[w][v] = &Term{Op: OpConst, W: uint8(w), Val: uint64(v)}
		}
		smallConsts[w][257] = &Term{Op: OpConst, W: uint8(w), Val: mask(uint8(w))}
	}
}

// C makes a constant of width w (w==0: bool).
func C(w uint8, v uint64) *Term {
	if w == 0 {
		if v != 0 {
			return tTrue
		}
		return tFalse
	}
	v &= mask(w)
	if v < 257 {
		return smallConsts[w][v]
	}
	if v == mask(w) {
		return smallConsts[w][257]
	}
	return &Term{Op: OpConst, W: w, Val: v}
}

func B(b bool) *Term {
	if b {
		return tTrue
	}
	return tFalse
}

func (t *Term) IsConst() bool { return t.Op == OpConst }
func (t *Term) IsTrue() bool  { return t.Op == OpConst && t.W == 0 && t.Val == 1 }
func (t *Term) IsFalse() bool { return t.Op == OpConst && t.W == 0 && t.Val == 0 }

// SVal returns the sign-extended constant value.
func (t *Term) SVal() int64 {
	return sext64(t.Val, t.W)
}

func sext64(v uint64, w uint8) int64 {
	if w >= 64 {
		return int64(v)
	}
	sh := 64 - uint(w)
	return int64(v<<sh) >> sh
}

func ak(t *Term) argKey {
	if t == nil {
		return argKey{}
	}
	if t.Op == OpConst {
		return argKey{tag: 1 | uint32(t.W)<<8, v: t.Val}
	}
	return argKey{tag: 2, v: uint64(t.ID)}
}

func sameTerm(a, b *Term) bool {
	if a == b {
		return true
	}
	if a.Op == OpConst && b.Op == OpConst {
		return a.W == b.W && a.Val == b.Val
	}
	return false
}

func (tt *TermTable) mk(op Op, w uint8, i1, i2 uint8, a0, a1, a2 *Term) *Term {
	k := termKey{op: op, w: w, i1: i1, i2: i2, a0: ak(a0), a1: ak(a1), a2: ak(a2)}
	if t, ok := tt.m[k]; ok {
		return t
	}
	t := &Term{Op: op, W: w, Imm1: i1, Imm2: i2, A: [3]*Term{a0, a1, a2}, ID: tt.nextID}
	tt.nextID++
	switch op {
	case OpUdiv, OpUrem, OpSdiv, OpSrem:
		if a1.Op == OpConst {
			t.HardC = true
		} else {
			t.Hard = true
		}
	case OpMul:
		t.Hard = a0.Op != OpConst && a1.Op != OpConst
	}
	if !t.Hard {
		t.Hard = (a0 != nil && a0.Hard) || (a1 != nil && a1.Hard) || (a2 != nil && a2.Hard)
	}
	if !t.HardC {
		t.HardC = (a0 != nil && a0.HardC) || (a1 != nil && a1.HardC) || (a2 != nil && a2.HardC)
	}
	t.HasUF = op == OpUF || (a0 != nil && a0.HasUF) || (a1 != nil && a1.HasUF) || (a2 != nil && a2.HasUF)
	tt.m[k] = t
	return t
}

// Var declares (or returns) a symbolic variable.
func (tt *TermTable) Var(name string, w uint8) *Term {
	k := termKey{op: OpVar, w: w, name: name}
	if t, ok := tt.m[k]; ok {
		return t
	}
	t := &Term{Op: OpVar, W: w, ID: tt.nextID, Name: name, Val: uint64(len(tt.Vars))}
	tt.nextID++
	tt.m[k] = t
	tt.Vars = append(tt.Vars, t)
	return t
}

func (tt *TermTable) UFIndex(name string, argW []uint8, resW uint8) int {
	if i, ok := tt.ufIdx[name]; ok {
		return i
	}
	tt.UFs = append(tt.UFs, UFDecl{name, argW, resW})
	tt.ufIdx[name] = len(tt.UFs) - 1
	return len(tt.UFs) - 1
}

func (tt *TermTable) UF(idx int, args ...*Term) *Term {
	var a [3]*Term
	copy(a[:], args)
	return tt.mk(OpUF, tt.UFs[idx].ResW, uint8(idx), 0, a[0], a[1], a[2])
}

// ---------- boolean ----------

func (tt *TermTable) Not(a *Term) *Term {
	if a.Op == OpConst {
		return B(a.Val == 0)
	}
	if a.Op == OpNot {
		return a.A[0]
	}
	return tt.mk(OpNot, 0, 0, 0, a, nil, nil)
}

func (tt *TermTable) And(a, b *Term) *Term {
	if a.Op == OpConst {
		if a.Val == 0 {
			return tFalse
		}
		return b
	}
	if b.Op == OpConst {
		if b.Val == 0 {
			return tFalse
		}
		return a
	}
	if a == b {
		return a
	}
	if (a.Op == OpNot && a.A[0] == b) || (b.Op == OpNot && b.A[0] == a) {
		return tFalse
	}
	if a.ID > b.ID {
		a, b = b, a
	}
	return tt.mk(OpAnd, 0, 0, 0, a, b, nil)
}

func (tt *TermTable) Or(a, b *Term) *Term {
	if a.Op == OpConst {
		if a.Val != 0 {
			return tTrue
		}
		return b
	}
	if b.Op == OpConst {
		if b.Val != 0 {
			return tTrue
		}
		return a
	}
	if a == b {
		return a
	}
	if (a.Op == OpNot && a.A[0] == b) || (b.Op == OpNot && b.A[0] == a) {
		return tTrue
	}
	if a.ID > b.ID {
		a, b = b, a
	}
	return tt.mk(OpOr, 0, 0, 0, a, b, nil)
}

func (tt *TermTable) AndN(xs ...*Term) *Term {
	r := tTrue
	for _, x := range xs {
		r = tt.And(r, x)
	}
	return r
}

func (tt *TermTable) Ite(c, a, b *Term) *Term {
	if c.Op == OpConst {
		if c.Val != 0 {
			return a
		}
		return b
	}
	if sameTerm(a, b) {
		return a
	}
	if a.W == 0 {
		if a.IsTrue() && b.IsFalse() {
			return c
		}
		if a.IsFalse() && b.IsTrue() {
			return tt.Not(c)
		}
		if a.IsTrue() {
			return tt.Or(c, b)
		}
		if a.IsFalse() {
			return tt.And(tt.Not(c), b)
		}
		if b.IsTrue() {
			return tt.Or(tt.Not(c), a)
		}
		if b.IsFalse() {
			return tt.And(c, a)
		}
	}
	if c.Op == OpNot {
		return tt.Ite(c.A[0], b, a)
	}
	return tt.mk(OpIte, a.W, 0, 0, c, a, b)
}

func (tt *TermTable) Eq(a, b *Term) *Term {
	if a.W != b.W {
		panic(fmt.Sprintf("Eq width mismatch %d %d", a.W, b.W))
	}
	if sameTerm(a, b) {
		return tTrue
	}
	if a.Op == OpConst && b.Op == OpConst {
		return tFalse
	}
	// The CRC fold is modelled as a collision-free function (stated assumption): two folds are equal exactly
	// when their table, state and byte arguments are, and a fold never equals a constant.
	if a.Op == OpUF && b.Op == OpUF && a.Imm1 == b.Imm1 {
		r := tTrue
		for i := 0; i < 3 && a.A[i] != nil && b.A[i] != nil; i++ {
			r = tt.And(r, tt.Eq(a.A[i], b.A[i]))
		}
		return r
	}
	if (a.Op == OpUF && b.Op == OpConst) || (b.Op == OpUF && a.Op == OpConst) {
		return tFalse
	}
	if a.W == 0 {
		if a.Op == OpConst {
			if a.Val != 0 {
				return b
			}
			return tt.Not(b)
		}
		if b.Op == OpConst {
			if b.Val != 0 {
				return a
			}
			return tt.Not(a)
		}
	}
	if a.Op == OpConst {
		a, b = b, a
	}
	// a non-const here
	if b.Op == OpConst {
		switch a.Op {
		case OpZExt:
			iw := a.A[0].W
			if b.Val > mask(iw) {
				return tFalse
			}
			return tt.Eq(a.A[0], C(iw, b.Val))
		case OpSExt:
			iw := a.A[0].W
			if uint64(sext64(b.Val&mask(iw), iw))&mask(a.W) != b.Val {
				return tFalse
			}
			return tt.Eq(a.A[0], C(iw, b.Val))
		case OpConcat:
			lw := a.A[1].W
			return tt.And(tt.Eq(a.A[0], C(a.A[0].W, b.Val>>lw)), tt.Eq(a.A[1], C(lw, b.Val)))
		case OpIte:
			// ite(c, k1, k2) == k  with constants
			if a.A[1].Op == OpConst && a.A[2].Op == OpConst {
				e1 := a.A[1].Val == b.Val
				e2 := a.A[2].Val == b.Val
				switch {
				case e1 && e2:
					return tTrue
				case e1:
					return a.A[0]
				case e2:
					return tt.Not(a.A[0])
				default:
					return tFalse
				}
			}
		case OpAdd:
			if a.A[1].Op == OpConst {
				return tt.Eq(a.A[0], C(a.W, b.Val-a.A[1].Val))
			}
		case OpBvXor:
			if a.A[1].Op == OpConst {
				return tt.Eq(a.A[0], C(a.W, b.Val^a.A[1].Val))
			}
		}
	} else {
		if a.Op == OpZExt && b.Op == OpZExt && a.A[0].W == b.A[0].W {
			return tt.Eq(a.A[0], b.A[0])
		}
		if a.Op == OpSExt && b.Op == OpSExt && a.A[0].W == b.A[0].W {
			return tt.Eq(a.A[0], b.A[0])
		}
		if a.Op == OpConcat && b.Op == OpConcat && a.A[1].W == b.A[1].W {
			return tt.And(tt.Eq(a.A[0], b.A[0]), tt.Eq(a.A[1], b.A[1]))
		}
		if a.ID > b.ID {
			a, b = b, a
		}
	}
	return tt.mk(OpEq, 0, 0, 0, a, b, nil)
}

func (tt *TermTable) Ne(a, b *Term) *Term { return tt.Not(tt.Eq(a, b)) }

// knownMax returns an upper bound (unsigned) of the term's value.
func knownMax(t *Term) uint64 {
	switch t.Op {
	case OpConst:
		return t.Val
	case OpZExt:
		return knownMax(t.A[0])
	case OpBvAnd:
		a, b := knownMax(t.A[0]), knownMax(t.A[1])
		if a < b {
			return a
		}
		return b
	case OpLshr:
		if t.A[1].Op == OpConst && t.A[1].Val < 64 {
			return knownMax(t.A[0]) >> t.A[1].Val
		}
	case OpConcat:
		hm := knownMax(t.A[0])
		return hm<<t.A[1].W | mask(t.A[1].W)
	case OpIte:
		a, b := knownMax(t.A[1]), knownMax(t.A[2])
		if a > b {
			return a
		}
		return b
	case OpUrem:
		if t.A[1].Op == OpConst && t.A[1].Val > 0 {
			return t.A[1].Val - 1
		}
	case OpAdd:
		a, b := knownMax(t.A[0]), knownMax(t.A[1])
		if s := a + b; s >= a && s <= mask(t.W) {
			return s
		}
	}
	return mask(t.W)
}

func (tt *TermTable) Ult(a, b *Term) *Term {
	if a.Op == OpConst && b.Op == OpConst {
		return B(a.Val < b.Val)
	}
	if sameTerm(a, b) {
		return tFalse
	}
	if b.Op == OpConst && b.Val == 0 {
		return tFalse
	}
	if b.Op == OpConst && knownMax(a) < b.Val {
		return tTrue
	}
	if a.Op == OpConst && a.Val == mask(a.W) {
		return tFalse
	}
	if a.Op == OpZExt && b.Op == OpZExt && a.A[0].W == b.A[0].W {
		return tt.Ult(a.A[0], b.A[0])
	}
	if a.Op == OpZExt && b.Op == OpConst {
		iw := a.A[0].W
		if b.Val > mask(iw) {
			return tTrue
		}
		return tt.Ult(a.A[0], C(iw, b.Val))
	}
	if b.Op == OpZExt && a.Op == OpConst {
		iw := b.A[0].W
		if a.Val >= mask(iw) {
			return tFalse
		}
		return tt.Ult(C(iw, a.Val), b.A[0])
	}
	return tt.mk(OpUlt, 0, 0, 0, a, b, nil)
}

func (tt *TermTable) Ule(a, b *Term) *Term { return tt.Not(tt.Ult(b, a)) }

func (tt *TermTable) Slt(a, b *Term) *Term {
	if a.Op == OpConst && b.Op == OpConst {
		return B(a.SVal() < b.SVal())
	}
	if sameTerm(a, b) {
		return tFalse
	}
	// both provably non-negative: unsigned compare
	half := uint64(1) << (a.W - 1)
	if knownMax(a) < half && knownMax(b) < half {
		return tt.Ult(a, b)
	}
	if a.Op == OpSExt && b.Op == OpSExt && a.A[0].W == b.A[0].W {
		return tt.Slt(a.A[0], b.A[0])
	}
	if a.Op == OpSExt && b.Op == OpConst {
		iw := a.A[0].W
		bv := b.SVal()
		lo, hi := -(int64(1) << (iw - 1)), (int64(1)<<(iw-1))-1
		if bv > hi {
			return tTrue
		}
		if bv <= lo {
			return tFalse
		}
		return tt.Slt(a.A[0], C(iw, uint64(bv)))
	}
	if b.Op == OpSExt && a.Op == OpConst {
		iw := b.A[0].W
		av := a.SVal()
		lo, hi := -(int64(1) << (iw - 1)), (int64(1)<<(iw-1))-1
		if av >= hi {
			return tFalse
		}
		if av < lo {
			return tTrue
		}
		return tt.Slt(C(iw, uint64(av)), b.A[0])
	}
	return tt.mk(OpSlt, 0, 0, 0, a, b, nil)
}

func (tt *TermTable) Sle(a, b *Term) *Term { return tt.Not(tt.Slt(b, a)) }

// ---------- bit-vector ----------

func (tt *TermTable) BvNot(a *Term) *Term {
	if a.Op == OpConst {
		return C(a.W, ^a.Val)
	}
	if a.Op == OpBvNot {
		return a.A[0]
	}
	return tt.mk(OpBvNot, a.W, 0, 0, a, nil, nil)
}

func (tt *TermTable) Neg(a *Term) *Term {
	if a.Op == OpConst {
		return C(a.W, -a.Val)
	}
	if a.Op == OpBvNeg {
		return a.A[0]
	}
	return tt.mk(OpBvNeg, a.W, 0, 0, a, nil, nil)
}

func (tt *TermTable) bin(op Op, a, b *Term) *Term {
	if a.W != b.W {
		panic(fmt.Sprintf("width mismatch in %s: %d vs %d", opNames[op], a.W, b.W))
	}
	return tt.mk(op, a.W, 0, 0, a, b, nil)
}

func (tt *TermTable) BvAnd(a, b *Term) *Term {
	if a.Op == OpConst && b.Op == OpConst {
		return C(a.W, a.Val&b.Val)
	}
	if a.Op == OpConst {
		a, b = b, a
	}
	if b.Op == OpConst {
		if b.Val == 0 {
			return b
		}
		if b.Val == mask(a.W) {
			return a
		}
		// mask that is low ones: zext(extract)
		if b.Val&(b.Val+1) == 0 {
			k := uint8(bits.Len64(b.Val))
			if knownMax(a) <= b.Val {
				return a
			}
			return tt.ZExt(tt.Extract(a, k-1, 0), a.W)
		}
		if a.Op == OpBvAnd && a.A[1].Op == OpConst {
			return tt.BvAnd(a.A[0], C(a.W, b.Val&a.A[1].Val))
		}
		// piecewise: if a decomposes into pieces, and the mask is piece aligned
		if ps, ok := tt.pieces(a); ok {
			if r, ok := tt.maskPieces(ps, b.Val, a.W); ok {
				return r
			}
		}
	}
	if sameTerm(a, b) {
		return a
	}
	if a.Op != OpConst && b.Op != OpConst && a.ID > b.ID {
		a, b = b, a
	}
	return tt.bin(OpBvAnd, a, b)
}

func (tt *TermTable) BvOr(a, b *Term) *Term {
	if a.Op == OpConst && b.Op == OpConst {
		return C(a.W, a.Val|b.Val)
	}
	if a.Op == OpConst {
		a, b = b, a
	}
	if b.Op == OpConst {
		if b.Val == 0 {
			return a
		}
		if b.Val == mask(a.W) {
			return b
		}
	}
	if sameTerm(a, b) {
		return a
	}
	if r, ok := tt.mergeDisjoint(a, b); ok {
		return r
	}
	if a.Op != OpConst && b.Op != OpConst && a.ID > b.ID {
		a, b = b, a
	}
	return tt.bin(OpBvOr, a, b)
}

func (tt *TermTable) BvXor(a, b *Term) *Term {
	if a.Op == OpConst && b.Op == OpConst {
		return C(a.W, a.Val^b.Val)
	}
	if a.Op == OpConst {
		a, b = b, a
	}
	if b.Op == OpConst {
		if b.Val == 0 {
			return a
		}
		if b.Val == mask(a.W) {
			return tt.BvNot(a)
		}
		if a.Op == OpBvXor && a.A[1].Op == OpConst {
			return tt.BvXor(a.A[0], C(a.W, b.Val^a.A[1].Val))
		}
	}
	if sameTerm(a, b) {
		return C(a.W, 0)
	}
	if a.Op != OpConst && b.Op != OpConst && a.ID > b.ID {
		a, b = b, a
	}
	return tt.bin(OpBvXor, a, b)
}

func (tt *TermTable) Add(a, b *Term) *Term {
	if a.Op == OpConst && b.Op == OpConst {
		return C(a.W, a.Val+b.Val)
	}
	if a.Op == OpConst {
		a, b = b, a
	}
	if b.Op == OpConst {
		if b.Val == 0 {
			return a
		}
		if a.Op == OpAdd && a.A[1].Op == OpConst {
			return tt.Add(a.A[0], C(a.W, b.Val+a.A[1].Val))
		}
		if a.Op == OpSub && a.A[0].Op == OpConst {
			return tt.Sub(C(a.W, a.A[0].Val+b.Val), a.A[1])
		}
	} else {
		if r, ok := tt.mergeDisjoint(a, b); ok {
			return r
		}
		if a.Op == OpAdd && a.A[1].Op == OpConst {
			return tt.Add(tt.Add(a.A[0], b), a.A[1])
		}
		if b.Op == OpAdd && b.A[1].Op == OpConst {
			return tt.Add(tt.Add(a, b.A[0]), b.A[1])
		}
		if a.ID > b.ID {
			a, b = b, a
		}
	}
	return tt.bin(OpAdd, a, b)
}

func (tt *TermTable) Sub(a, b *Term) *Term {
	if a.Op == OpConst && b.Op == OpConst {
		return C(a.W, a.Val-b.Val)
	}
	if b.Op == OpConst {
		return tt.Add(a, C(a.W, -b.Val))
	}
	if sameTerm(a, b) {
		return C(a.W, 0)
	}
	// (x + c) - x = c ; (x+y)-x = y
	if a.Op == OpAdd {
		if a.A[0] == b {
			return a.A[1]
		}
		if a.A[1] == b {
			return a.A[0]
		}
		if a.A[1].Op == OpConst {
			return tt.Add(tt.Sub(a.A[0], b), a.A[1])
		}
	}
	if b.Op == OpAdd && b.A[1].Op == OpConst {
		return tt.Add(tt.Sub(a, b.A[0]), C(a.W, -b.A[1].Val))
	}
	return tt.bin(OpSub, a, b)
}

func (tt *TermTable) Mul(a, b *Term) *Term {
	if a.Op == OpConst && b.Op == OpConst {
		return C(a.W, a.Val*b.Val)
	}
	if a.Op == OpConst {
		a, b = b, a
	}
	if b.Op == OpConst {
		if b.Val == 0 {
			return b
		}
		if b.Val == 1 {
			return a
		}
		if b.Val&(b.Val-1) == 0 {
			return tt.Shl(a, C(a.W, uint64(bits.TrailingZeros64(b.Val))))
		}
	} else if a.ID > b.ID {
		a, b = b, a
	}
	return tt.bin(OpMul, a, b)
}

func (tt *TermTable) Udiv(a, b *Term) *Term {
	if b.Op == OpConst && b.Val != 0 {
		if a.Op == OpConst {
			return C(a.W, a.Val/b.Val)
		}
		if b.Val == 1 {
			return a
		}
		if b.Val&(b.Val-1) == 0 {
			return tt.Lshr(a, C(a.W, uint64(bits.TrailingZeros64(b.Val))))
		}
	}
	return tt.bin(OpUdiv, a, b)
}

func (tt *TermTable) Urem(a, b *Term) *Term {
	if b.Op == OpConst && b.Val != 0 {
		if a.Op == OpConst {
			return C(a.W, a.Val%b.Val)
		}
		if b.Val == 1 {
			return C(a.W, 0)
		}
		if b.Val&(b.Val-1) == 0 {
			return tt.BvAnd(a, C(a.W, b.Val-1))
		}
	}
	return tt.bin(OpUrem, a, b)
}

func (tt *TermTable) Sdiv(a, b *Term) *Term {
	if b.Op == OpConst && b.Val != 0 && a.Op == OpConst {
		x, y := a.SVal(), b.SVal()
		if y == -1 {
			return C(a.W, uint64(-x))
		}
		return C(a.W, uint64(x/y))
	}
	if b.Op == OpConst && b.Val == 1 {
		return a
	}
	half := uint64(1) << (a.W - 1)
	if knownMax(a) < half && knownMax(b) < half {
		return tt.Udiv(a, b)
	}
	return tt.bin(OpSdiv, a, b)
}

func (tt *TermTable) Srem(a, b *Term) *Term {
	if b.Op == OpConst && b.Val != 0 && a.Op == OpConst {
		x, y := a.SVal(), b.SVal()
		if y == -1 {
			return C(a.W, 0)
		}
		return C(a.W, uint64(x%y))
	}
	half := uint64(1) << (a.W - 1)
	if knownMax(a) < half && knownMax(b) < half {
		return tt.Urem(a, b)
	}
	return tt.bin(OpSrem, a, b)
}

// Shift amounts: b has the same width as a (callers convert).
func (tt *TermTable) Shl(a, b *Term) *Term {
	if b.Op == OpConst {
		if b.Val == 0 {
			return a
		}
		if b.Val >= uint64(a.W) {
			return C(a.W, 0)
		}
		if a.Op == OpConst {
			return C(a.W, a.Val<<b.Val)
		}
		k := uint8(b.Val)
		// concat(extract(w-k-1,0,a), 0_k)
		return tt.Concat(tt.Extract(a, a.W-k-1, 0), C(k, 0))
	}
	return tt.bin(OpShl, a, b)
}

func (tt *TermTable) Lshr(a, b *Term) *Term {
	if b.Op == OpConst {
		if b.Val == 0 {
			return a
		}
		if b.Val >= uint64(a.W) {
			return C(a.W, 0)
		}
		if a.Op == OpConst {
			return C(a.W, a.Val>>b.Val)
		}
		k := uint8(b.Val)
		return tt.ZExt(tt.Extract(a, a.W-1, k), a.W)
	}
	return tt.bin(OpLshr, a, b)
}

func (tt *TermTable) Ashr(a, b *Term) *Term {
	if b.Op == OpConst {
		if b.Val == 0 {
			return a
		}
		sh := b.Val
		if sh >= uint64(a.W) {
			sh = uint64(a.W) - 1
		}
		if a.Op == OpConst {
			return C(a.W, uint64(a.SVal()>>sh))
		}
		k := uint8(sh)
		return tt.SExt(tt.Extract(a, a.W-1, k), a.W)
	}
	return tt.bin(OpAshr, a, b)
}

func (tt *TermTable) Concat(hi, lo *Term) *Term {
	w := hi.W + lo.W
	if w > 64 {
		panic("concat wider than 64")
	}
	if hi.Op == OpConst && lo.Op == OpConst {
		return C(w, hi.Val<<lo.W|lo.Val)
	}
	// adjacent extracts of same term
	if hi.Op == OpExtract && lo.Op == OpExtract && hi.A[0] == lo.A[0] && hi.Imm2 == lo.Imm1+1 {
		return tt.Extract(hi.A[0], hi.Imm1, lo.Imm2)
	}
	// zero high part: zext
	if hi.Op == OpConst && hi.Val == 0 {
		return tt.ZExt(lo, w)
	}
	// hi extract adjoining the top piece of lo concat
	if lo.Op == OpConcat && hi.Op == OpExtract && lo.A[0].Op == OpExtract && hi.A[0] == lo.A[0].A[0] && hi.Imm2 == lo.A[0].Imm1+1 {
		return tt.Concat(tt.Extract(hi.A[0], hi.Imm1, lo.A[0].Imm2), lo.A[1])
	}
	// right-associate: concat(concat(a,b),c) -> concat(a,concat(b,c))
	if hi.Op == OpConcat {
		return tt.Concat(hi.A[0], tt.Concat(hi.A[1], lo))
	}
	if hi.Op == OpConst && lo.Op == OpConcat && lo.A[0].Op == OpConst {
		return tt.Concat(C(hi.W+lo.A[0].W, hi.Val<<lo.A[0].W|lo.A[0].Val), lo.A[1])
	}
	if hi.Op == OpZExt {
		// concat(zext(x), lo) = zext(concat(x, lo))
		return tt.ZExt(tt.Concat(hi.A[0], lo), w)
	}
	return tt.mk(OpConcat, w, 0, 0, hi, lo, nil)
}

func (tt *TermTable) Extract(a *Term, hi, lo uint8) *Term {
	if hi < lo || hi >= a.W {
		panic(fmt.Sprintf("bad extract %d %d of width %d", hi, lo, a.W))
	}
	w := hi - lo + 1
	if w == a.W {
		return a
	}
	switch a.Op {
	case OpConst:
		return C(w, a.Val>>lo)
	case OpExtract:
		return tt.Extract(a.A[0], a.Imm2+hi, a.Imm2+lo)
	case OpConcat:
		lw := a.A[1].W
		if hi < lw {
			return tt.Extract(a.A[1], hi, lo)
		}
		if lo >= lw {
			return tt.Extract(a.A[0], hi-lw, lo-lw)
		}
		return tt.Concat(tt.Extract(a.A[0], hi-lw, 0), tt.Extract(a.A[1], lw-1, lo))
	case OpZExt:
		iw := a.A[0].W
		if hi < iw {
			return tt.Extract(a.A[0], hi, lo)
		}
		if lo >= iw {
			return C(w, 0)
		}
		return tt.ZExt(tt.Extract(a.A[0], iw-1, lo), w)
	case OpSExt:
		iw := a.A[0].W
		if hi < iw {
			return tt.Extract(a.A[0], hi, lo)
		}
		if lo < iw {
			return tt.SExt(tt.Extract(a.A[0], iw-1, lo), w)
		}
	case OpBvAnd, OpBvOr, OpBvXor:
		x, y := tt.Extract(a.A[0], hi, lo), tt.Extract(a.A[1], hi, lo)
		switch a.Op {
		case OpBvAnd:
			return tt.BvAnd(x, y)
		case OpBvOr:
			return tt.BvOr(x, y)
		default:
			return tt.BvXor(x, y)
		}
	case OpBvNot:
		return tt.BvNot(tt.Extract(a.A[0], hi, lo))
	case OpIte:
		if a.A[1].Op == OpConst || a.A[2].Op == OpConst {
			return tt.Ite(a.A[0], tt.Extract(a.A[1], hi, lo), tt.Extract(a.A[2], hi, lo))
		}
	case OpAdd, OpSub, OpMul:
		if lo == 0 {
			// low bits of arithmetic only depend on low bits
			x, y := tt.Extract(a.A[0], hi, 0), tt.Extract(a.A[1], hi, 0)
			switch a.Op {
			case OpAdd:
				return tt.Add(x, y)
			case OpSub:
				return tt.Sub(x, y)
			default:
				return tt.Mul(x, y)
			}
		}
	}
	return tt.mk(OpExtract, w, hi, lo, a, nil, nil)
}

func (tt *TermTable) ZExt(a *Term, w uint8) *Term {
	if w == a.W {
		return a
	}
	if w < a.W {
		panic("zext narrower")
	}
	if a.Op == OpConst {
		return C(w, a.Val)
	}
	if a.Op == OpZExt {
		return tt.ZExt(a.A[0], w)
	}
	if a.Op == OpAdd {
		// zero extension distributes over an addition that cannot overflow
		ka, kb := knownMax(a.A[0]), knownMax(a.A[1])
		if s := ka + kb; s >= ka && s <= mask(a.W) {
			return tt.Add(tt.ZExt(a.A[0], w), tt.ZExt(a.A[1], w))
		}
	}
	if a.Op == OpExtract && a.Imm2 == 0 && a.A[0].W == w && knownMax(a.A[0]) <= mask(a.W) {
		return a.A[0]
	}
	return tt.mk(OpZExt, w, 0, 0, a, nil, nil)
}

func (tt *TermTable) SExt(a *Term, w uint8) *Term {
	if w == a.W {
		return a
	}
	if w < a.W {
		panic("sext narrower")
	}
	if a.Op == OpConst {
		return C(w, uint64(a.SVal()))
	}
	if a.Op == OpSExt {
		return tt.SExt(a.A[0], w)
	}
	if a.Op == OpZExt {
		return tt.ZExt(a.A[0], w)
	}
	if knownMax(a) < uint64(1)<<(a.W-1) {
		return tt.ZExt(a, w)
	}
	return tt.mk(OpSExt, w, 0, 0, a, nil, nil)
}

// BoolToBV gives 1/0 of width w.
func (tt *TermTable) BoolToBV(c *Term, w uint8) *Term {
	return tt.Ite(c, C(w, 1), C(w, 0))
}

// ---------- piece decomposition (for or/add of disjoint lanes) ----------

type piece struct {
	t *Term // nil => zero
	w uint8
}

// pieces decomposes t MSB-first into pieces; ok=false when t is opaque (single piece).
func (tt *TermTable) pieces(t *Term) ([]piece, bool) {
	switch t.Op {
	case OpConcat:
		var out []piece
		for t.Op == OpConcat {
			hp, _ := tt.pieces(t.A[0])
			out = append(out, hp...)
			t = t.A[1]
		}
		lp, _ := tt.pieces(t)
		out = append(out, lp...)
		return out, true
	case OpZExt:
		ip, _ := tt.pieces(t.A[0])
		return append([]piece{{nil, t.W - t.A[0].W}}, ip...), true
	case OpConst:
		if t.Val == 0 {
			return []piece{{nil, t.W}}, true
		}
	}
	return []piece{{t, t.W}}, false
}

func (tt *TermTable) fromPieces(ps []piece) *Term {
	var r *Term
	for _, p := range ps {
		x := p.t
		if x == nil {
			x = C(p.w, 0)
		}
		if r == nil {
			r = x
		} else {
			r = tt.Concat(r, x)
		}
	}
	return r
}

func splitPiece(tt *TermTable, p piece, lowW uint8) (piece, piece) {
	if p.t == nil {
		return piece{nil, p.w - lowW}, piece{nil, lowW}
	}
	return piece{tt.Extract(p.t, p.w-1, lowW), p.w - lowW}, piece{tt.Extract(p.t, lowW-1, 0), lowW}
}

// mergeDisjoint: a|b (or a+b) where in every lane at least one side is zero.
func (tt *TermTable) mergeDisjoint(a, b *Term) (*Term, bool) {
	pa, oka := tt.pieces(a)
	pb, okb := tt.pieces(b)
	if !oka && !okb {
		return nil, false
	}
	var out []piece
	i, j := 0, 0
	var ca, cb piece
	havea, haveb := false, false
	for {
		if !havea {
			if i >= len(pa) {
				break
			}
			ca = pa[i]
			i++
			havea = true
		}
		if !haveb {
			if j >= len(pb) {
				break
			}
			cb = pb[j]
			j++
			haveb = true
		}
		w := ca.w
		if cb.w < w {
			w = cb.w
		}
		var xa, xb piece
		if ca.w > w {
			xa, ca = splitPiece(tt, ca, ca.w-w)
		} else {
			xa = ca
			havea = false
		}
		if cb.w > w {
			xb, cb = splitPiece(tt, cb, cb.w-w)
		} else {
			xb = cb
			haveb = false
		}
		isZero := func(p piece) bool { return p.t == nil || (p.t.Op == OpConst && p.t.Val == 0) }
		switch {
		case isZero(xa):
			out = append(out, xb)
		case isZero(xb):
			out = append(out, xa)
		default:
			return nil, false
		}
	}
	return tt.fromPieces(out), true
}

func (tt *TermTable) maskPieces(ps []piece, m uint64, w uint8) (*Term, bool) {
	pos := w
	out := make([]piece, 0, len(ps))
	for _, p := range ps {
		pos -= p.w
		pm := (m >> pos) & mask(p.w)
		switch {
		case pm == 0:
			out = append(out, piece{nil, p.w})
		case pm == mask(p.w):
			out = append(out, p)
		default:
			return nil, false
		}
	}
	return tt.fromPieces(out), true
}

// ---------- evaluation ----------

type Model map[string]uint64

func evalTerm(t *Term, m Model, ufs func(idx int, args []uint64) uint64, memo map[*Term]uint64) uint64 {
	if t.Op == OpConst {
		return t.Val
	}
	if v, ok := memo[t]; ok {
		return v
	}
	var r uint64
	a := func(i int) uint64 { return evalTerm(t.A[i], m, ufs, memo) }
	sa := func(i int) int64 { return sext64(a(i), t.A[i].W) }
	b2u := func(b bool) uint64 {
		if b {
			return 1
		}
		return 0
	}
	switch t.Op {
	case OpVar:
		r = m[t.Name]
	case OpNot:
		r = 1 - a(0)
	case OpAnd:
		r = a(0) & a(1)
	case OpOr:
		r = a(0) | a(1)
	case OpIte:
		if a(0) != 0 {
			r = a(1)
		} else {
			r = a(2)
		}
	case OpEq:
		r = b2u(a(0) == a(1))
	case OpUlt:
		r = b2u(a(0) < a(1))
	case OpUle:
		r = b2u(a(0) <= a(1))
	case OpSlt:
		r = b2u(sa(0) < sa(1))
	case OpSle:
		r = b2u(sa(0) <= sa(1))
	case OpBvNot:
		r = ^a(0)
	case OpBvNeg:
		r = -a(0)
	case OpBvAnd:
		r = a(0) & a(1)
	case OpBvOr:
		r = a(0) | a(1)
	case OpBvXor:
		r = a(0) ^ a(1)
	case OpAdd:
		r = a(0) + a(1)
	case OpSub:
		r = a(0) - a(1)
	case OpMul:
		r = a(0) * a(1)
	case OpUdiv:
		if a(1) == 0 {
			r = mask(t.W)
		} else {
			r = a(0) / a(1)
		}
	case OpUrem:
		if a(1) == 0 {
			r = a(0)
		} else {
			r = a(0) % a(1)
		}
	case OpSdiv:
		x, y := sa(0), sa(1)
		switch {
		case y == 0:
			if x >= 0 {
				r = mask(t.W)
			} else {
				r = 1
			}
		case y == -1:
			r = uint64(-x)
		default:
			r = uint64(x / y)
		}
	case OpSrem:
		x, y := sa(0), sa(1)
		switch {
		case y == 0:
			r = uint64(x)
		case y == -1:
			r = 0
		default:
			r = uint64(x % y)
		}
	case OpShl:
		if a(1) >= uint64(t.W) {
			r = 0
		} else {
			r = a(0) << a(1)
		}
	case OpLshr:
		if a(1) >= uint64(t.W) {
			r = 0
		} else {
			r = a(0) >> a(1)
		}
	case OpAshr:
		sh := a(1)
		if sh >= uint64(t.W) {
			sh = uint64(t.W) - 1
		}
		r = uint64(sa(0) >> sh)
	case OpConcat:
		r = a(0)<<t.A[1].W | a(1)
	case OpExtract:
		r = a(0) >> t.Imm2
	case OpZExt:
		r = a(0)
	case OpSExt:
		r = uint64(sa(0))
	case OpUF:
		var args []uint64
		for i := 0; i < 3 && t.A[i] != nil; i++ {
			args = append(args, a(i))
		}
		if ufs == nil {
			panic("UF in evalTerm without interpretation")
		}
		r = ufs(int(t.Imm1), args)
	default:
		panic("evalTerm: op " + opNames[t.Op])
	}
	if t.W > 0 {
		r &= mask(t.W)
	} else {
		r &= 1
	}
	memo[t] = r
	return r
}

func (t *Term) String() string {
	var sb strings.Builder
	t.str(&sb, 0)
	return sb.String()
}

func (t *Term) str(sb *strings.Builder, depth int) {
	if depth > 6 {
		sb.WriteString("…")
		return
	}
	switch t.Op {
	case OpConst:
		if t.W == 0 {
			fmt.Fprintf(sb, "%v", t.Val != 0)
		} else {
			fmt.Fprintf(sb, "%d:%d", t.SVal(), t.W)
		}
	case OpVar:
		sb.WriteString(t.Name)
	case OpExtract:
		fmt.Fprintf(sb, "(extract %d %d ", t.Imm1, t.Imm2)
		t.A[0].str(sb, depth+1)
		sb.WriteString(")")
	default:
		sb.WriteString("(" + opNames[t.Op])
		if t.Op == OpZExt || t.Op == OpSExt {
			fmt.Fprintf(sb, "%d", t.W)
		}
		for i := 0; i < 3 && t.A[i] != nil; i++ {
			sb.WriteString(" ")
			t.A[i].str(sb, depth+1)
		}
		sb.WriteString(")")
	}
}
