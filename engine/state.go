package main

import (
	"fmt"
	"go/types"
	"sync"
	"sync/atomic"

	"golang.org/x/tools/go/ssa"
)

var epochCounter uint64

func newEpoch() uint64 { return atomic.AddUint64(&epochCounter, 1) }

type fnInfo struct {
	idx   map[ssa.Value]int
	nregs int
}

var fnInfos sync.Map // *ssa.Function -> *fnInfo

func infoOf(fn *ssa.Function) *fnInfo {
	if v, ok := fnInfos.Load(fn); ok {
		return v.(*fnInfo)
	}
	fi := &fnInfo{idx: map[ssa.Value]int{}}
	n := 0
	for _, p := range fn.Params {
		fi.idx[p] = n
		n++
	}
	for _, p := range fn.FreeVars {
		fi.idx[p] = n
		n++
	}
	for _, b := range fn.Blocks {
		for _, in := range b.Instrs {
			if v, ok := in.(ssa.Value); ok {
				fi.idx[v] = n
				n++
			}
		}
	}
	fi.nregs = n
	v, _ := fnInfos.LoadOrStore(fn, fi)
	return v.(*fnInfo)
}

type deferRec struct {
	fv   *FuncVal
	args []Value
	// builtin / invoke forms are normalised into fv+args before being recorded
}

type Frame struct {
	fn     *ssa.Function
	info   *fnInfo
	block  *ssa.BasicBlock
	prev   *ssa.BasicBlock
	ip     int
	regs   []Value
	defers []deferRec
	// where the result goes in the caller: register index, or -1
	retReg     int
	recovered  bool // a deferred call of this frame recovered a panic
	symLoop    bool // a symbolic branch was taken in this activation (loop iterations are counted from then on)
	curCall    *ssa.Call
	rangeIter  map[int]*rangeState // iterator states keyed by register index
	iters      int                 // back-edge counter (loop bound), per frame
	isDeferred bool                // this frame is a deferred call (its caller frame is the deferring one)
}

type rangeState struct {
	keys []Value
	vals []Value
	pos  int
	str  *StrVal
}

func (f *Frame) clone() *Frame {
	n := *f
	n.regs = make([]Value, len(f.regs))
	copy(n.regs, f.regs)
	if len(f.defers) > 0 {
		n.defers = append([]deferRec(nil), f.defers...)
	}
	if f.rangeIter != nil {
		n.rangeIter = make(map[int]*rangeState, len(f.rangeIter))
		for k, v := range f.rangeIter {
			c := *v
			n.rangeIter[k] = &c
		}
	}
	return &n
}

type CoroStatus uint8

const (
	CoRunnable CoroStatus = iota
	CoBlocked
	CoDone
)

type Coro struct {
	id          int
	frames      []*Frame
	status      CoroStatus
	blockOn     string // description
	panicVal    Value  // non-nil while panicking
	inPanic     bool
	unwindDepth int
	panicWhere  string
	name        string
	manual      bool // only runs when the harness says so (vhRun)
	tried       bool
	result      Value
	sleepCh     ChanVal        // one-shot timer channel of a time.Sleep in progress
	parked      bool           // blocked at a channel operation it has attempted (partner of a rendezvous on an unbuffered channel)
	held        map[string]int // mutexes (by pointer key) this goroutine holds, with counts (read locks nest)
}

func (c *Coro) hold(k string) {
	n := make(map[string]int, len(c.held)+1)
	for a, b := range c.held {
		n[a] = b
	}
	n[k]++
	c.held = n
}

func (c *Coro) release(k string) bool {
	if c.held[k] == 0 {
		return false
	}
	n := make(map[string]int, len(c.held))
	for a, b := range c.held {
		n[a] = b
	}
	if n[k]--; n[k] == 0 {
		delete(n, k)
	}
	c.held = n
	return true
}

// lockReleased: the current goroutine releases k; Go allows unlocking a mutex another goroutine locked.
func (st *State) lockReleased(k string) {
	if st.co().release(k) {
		return
	}
	for _, c := range st.coros {
		if c.status != CoDone && c.release(k) {
			return
		}
	}
}

func (c *Coro) clone() *Coro {
	n := *c
	n.frames = make([]*Frame, len(c.frames))
	for i, f := range c.frames {
		n.frames[i] = f.clone()
	}
	return &n
}

type InputRec struct {
	Name string
	Kind string // int64, byte, bool, choose, bytes...
	W    uint8
	Vars []*Term // symbolic variables (nil for forking choices)
	Val  int64   // concrete choice value (for forking choices)
}

type Heap struct {
	base  map[ObjID]Value
	delta map[ObjID]Value
}

type State struct {
	ex       *Exec
	heap     Heap
	nextObj  ObjID
	epoch    uint64
	coros    []*Coro
	cur      int
	pc       []*Term
	decs     []int // decisions taken inside the current instruction
	decIdx   int
	side     map[string]interface{}
	inputs   []InputRec
	reached  []string
	steps    int64
	maxSteps int64
	unwind   int
	// outcome
	done            bool
	fail            *Failure
	lockset         map[string]bool // currently held mutexes (by pointer key), for guard checks
	clock           *Term           // current symbolic time (ns, int64)
	nVar            int
	depth           int
	trace           []string
	tag             string
	guards          map[string]guardDecl
	guardOn         bool
	assumeOK        bool
	blockedStreak   int
	runStack        []int
	spawned         []int
	manualSpawn     bool
	mapOrderAll     bool
	allocHook       func(ex *Exec, st *State, n *Term, elem types.Type, why string) bool
	poolAdversarial bool
	hasSymLen       bool // a slice with symbolic length exists on this path (see forceSymLens)
	allocLimit      int
	splitCap        int // overrides Config.SplitCap when > 0 (vhSplitCap)
	concreteClock   bool
	noAutoFire      bool
	watch           map[ObjID]watchDecl // vhWatch: objects under lockset (Eraser) analysis
	handoff         bool                // vhHandoff: an Unlock yields the processor to the next other goroutine (one legal schedule among many)
	yieldTo         int                 // coroutine index + 1 to switch to after the current instruction (0: none)
	crcMismatch     bool
	appendHook      func(ex *Exec, st *State, newCap int)
}

type watchDecl struct {
	name string
	t    types.Type     // struct type of the object (field names for reports)
	skip map[int32]bool // fields left out (vhUnwatch): ordered by something other than a lock, stated in the harness
}

// eraserRec is the lockset state of one watched location (Savage et al., Eraser): exclusive to its first goroutine,
// then shared (read only) or shared-modified; `locks` is the intersection of the locks held at the accesses made
// since the location became shared.
type eraserRec struct {
	state uint8 // 1 exclusive, 2 shared, 3 shared-modified
	first int
	locks map[string]bool
	done  bool // already reported
}

type guardDecl struct {
	mu   string // mutex key, or "atomic"
	name string
}

type Failure struct {
	Kind string // assert | panic | unwind | unsupported | deadlock | unknown | oob-alloc
	ID   string
	Msg  string
	Cond *Term // violated condition (for assert): the state's pc ∧ ¬Cond is sat
}

func (h *Heap) get(id ObjID) (Value, bool) {
	if v, ok := h.delta[id]; ok {
		return v, true
	}
	if v, ok := h.base[id]; ok {
		return v, true
	}
	return nil, false
}

func (st *State) objGet(id ObjID) Value {
	if v, ok := st.heap.get(id); ok {
		return v
	}
	if g := st.ex.prog.globalByID(id); g != nil {
		z := st.ex.zero(g.Type().(*types.Pointer).Elem())
		return z
	}
	panic(fmt.Sprintf("objGet: no object %d", id))
}

func (st *State) objSet(id ObjID, v Value) { st.heap.delta[id] = v }

func (st *State) alloc(v Value) ObjID {
	id := st.nextObj
	st.nextObj++
	st.heap.delta[id] = v
	return id
}

func (st *State) newPtr(v Value) PtrVal { return PtrVal{Obj: st.alloc(v)} }

// fork clones the state; both the clone and the original get fresh epochs.
func (st *State) fork() *State {
	n := *st
	n.heap.delta = make(map[ObjID]Value, len(st.heap.delta)+8)
	for k, v := range st.heap.delta {
		n.heap.delta[k] = v
	}
	n.coros = make([]*Coro, len(st.coros))
	for i, c := range st.coros {
		if c.status == CoDone {
			n.coros[i] = c
		} else {
			n.coros[i] = c.clone()
		}
	}
	n.pc = append([]*Term(nil), st.pc...)
	n.decs = append([]int(nil), st.decs...)
	n.side = make(map[string]interface{}, len(st.side))
	for k, v := range st.side {
		n.side[k] = v
	}
	n.inputs = append([]InputRec(nil), st.inputs...)
	n.reached = append([]string(nil), st.reached...)
	n.lockset = make(map[string]bool, len(st.lockset))
	for k, v := range st.lockset {
		n.lockset[k] = v
	}
	if st.trace != nil {
		n.trace = append([]string(nil), st.trace...)
	}
	n.epoch = newEpoch()
	st.epoch = newEpoch()
	n.depth = st.depth + 1
	return &n
}

func (st *State) co() *Coro { return st.coros[st.cur] }

func (st *State) top() *Frame {
	c := st.co()
	return c.frames[len(c.frames)-1]
}

// ---------- memory access ----------

func getPath(v Value, path []int32) Value {
	for _, i := range path {
		switch x := v.(type) {
		case StructVal:
			v = x[i]
		case *ArrVal:
			v = x.Get(int(i))
		default:
			panic(fmt.Sprintf("getPath: cannot index %T with %d", v, i))
		}
	}
	return v
}

func setPath(v Value, path []int32, nv Value, epoch uint64) Value {
	if len(path) == 0 {
		return nv
	}
	i := int(path[0])
	switch x := v.(type) {
	case StructVal:
		n := make(StructVal, len(x))
		copy(n, x)
		n[i] = setPath(x[i], path[1:], nv, epoch)
		return n
	case *ArrVal:
		return x.Set(i, setPath(x.Get(i), path[1:], nv, epoch), epoch)
	}
	panic(fmt.Sprintf("setPath: cannot index %T", v))
}

const iotaObj = ObjID(-2)

func (st *State) load(p PtrVal) Value {
	if p.Obj == iotaObj {
		return p.Sym
	}
	if p.Obj == 0 {
		panic("load of nil pointer (caller must check)")
	}
	root := st.objGet(p.Obj)
	v := getPath(root, p.Path)
	if p.Sym != nil {
		arr := v.(*ArrVal)
		n := p.SymN
		if n == 0 {
			n = arr.N
		}
		return st.ex.selectElem(arr, p.SymLo, n, p.Sym)
	}
	switch v.(type) {
	case *ArrVal, StructVal:
		freeze(v)
	}
	return v
}

func (st *State) store(p PtrVal, nv Value) {
	if p.Obj == 0 {
		panic("store to nil pointer (caller must check)")
	}
	switch nv.(type) {
	case *ArrVal, StructVal:
		freeze(nv)
	}
	root := st.objGet(p.Obj)
	if p.Sym != nil {
		arr := getPath(root, p.Path).(*ArrVal)
		na := arr
		tt := st.ex.tt
		n := p.SymN
		if n == 0 {
			n = arr.N
		}
		for i := 0; i < n; i++ {
			old := arr.Get(p.SymLo + i)
			c := tt.Eq(p.Sym, C(p.Sym.W, uint64(i)))
			na = na.Set(p.SymLo+i, st.ex.iteValue(c, nv, old), st.epoch)
		}
		st.objSet(p.Obj, setPath(root, p.Path, na, st.epoch))
		return
	}
	st.objSet(p.Obj, setPath(root, p.Path, nv, st.epoch))
}

// elemPtr returns a pointer to element i of the slice.
func (s SliceVal) elemPtr(i int) PtrVal {
	return s.Base.Field(s.Off + i)
}

func (st *State) sliceGet(s SliceVal, i int) Value {
	return st.load(s.elemPtr(i))
}

func (st *State) sliceSet(s SliceVal, i int, v Value) {
	st.store(s.elemPtr(i), v)
}

func (st *State) makeSlice(elemZero Value, n, c int) SliceVal {
	arr := newArr(c, elemZero)
	id := st.alloc(arr)
	return SliceVal{Base: PtrVal{Obj: id}, Off: 0, Len: n, Cap: c}
}

func (st *State) bytesToSlice(ts []*Term) SliceVal {
	arr := newArr(len(ts), C(8, 0))
	arr.Elems = make([]Value, len(ts))
	for i, t := range ts {
		arr.Elems[i] = t
	}
	id := st.alloc(arr)
	return SliceVal{Base: PtrVal{Obj: id}, Len: len(ts), Cap: len(ts), NonNil: true}
}

func (st *State) sliceBytes(s SliceVal) []*Term {
	out := make([]*Term, s.Len)
	if s.Len == 0 {
		return out
	}
	arr := getPath(st.objGet(s.Base.Obj), s.Base.Path).(*ArrVal)
	for i := 0; i < s.Len; i++ {
		out[i] = arr.Get(s.Off + i).(*Term)
	}
	return out
}
