package main

import (
	"fmt"
	"go/types"
	"strings"
)

func ptrKey(v Value) string { return v.(PtrVal).Key() }

func (st *State) sideInt(k string) int {
	if v, ok := st.side[k]; ok {
		return v.(int)
	}
	return 0
}

type timerRec struct {
	ch      ChanVal
	active  bool
	fired   bool
	fn      *FuncVal // AfterFunc
	ticker  bool
	dur     *Term
	ptrKey  string
	created int
}

func (st *State) timers() []timerRec {
	if v, ok := st.side["timers"]; ok {
		return v.([]timerRec)
	}
	return nil
}

func (st *State) setTimers(ts []timerRec) { st.side["timers"] = ts }

func (st *State) findTimer(key string) int {
	for i, t := range st.timers() {
		if t.ptrKey == key {
			return i
		}
	}
	return -1
}

// fireTimer makes timer i deliver (send current time on its channel or spawn its function).
func (ex *Exec) fireTimer(st *State, i int) {
	ts := append([]timerRec(nil), st.timers()...)
	t := ts[i]
	if !t.active {
		return
	}
	if !t.ticker {
		t.active = false
	}
	t.fired = true
	ts[i] = t
	st.setTimers(ts)
	if st.concreteClock && t.dur != nil && t.dur.IsConst() && t.dur.SVal() > 0 {
		// the concrete clock moves on by the duration the timer was armed for (time.Sleep, deadlines, tickers)
		st.side["clockticks"] = st.sideInt("clockticks") + int(t.dur.SVal()/1000000)
	}
	if t.fn != nil {
		ex.spawn(st, t.fn, nil)
		return
	}
	c := ex.chanObj(st, t.ch)
	if len(c.Buf) < 1 {
		ex.doSend(st, t.ch, ex.nowValue(st))
	}
}

// nowValue produces a fresh symbolic instant, not earlier than the previous one.
func (ex *Exec) nowValue(st *State) Value {
	tt := ex.tt
	if st.concreteClock {
		// a fixed clock that advances by one millisecond per reading
		n := st.sideInt("clockticks") + 1
		st.side["clockticks"] = n
		var loc Value = PtrVal{}
		if g := ex.prog.byPath["time"].Var("localLoc"); g != nil {
			loc = PtrVal{Obj: ex.prog.globalID(g)}
		}
		const unixToInternal = (1969*365 + 1969/4 - 1969/100 + 1969/400) * 86400
		sec := uint64(1700000000 + n/1000)
		nsec := uint64(n%1000) * 1000000
		return StructVal{C(64, nsec), C(64, sec+unixToInternal), loc}
	}
	sec := ex.tt.Var(st.freshName("now.sec"), 64)
	nsec := ex.tt.Var(st.freshName("now.nsec"), 64)
	st.inputs = append(st.inputs, InputRec{Name: "now", Kind: "Time", W: 64, Vars: []*Term{sec, nsec}})
	c := tt.AndN(tt.Sle(C(64, 0), sec), tt.Slt(sec, C(64, 1<<33)), tt.Sle(C(64, 0), nsec), tt.Slt(nsec, C(64, 1000000000)))
	if prev, ok := st.side["clock"]; ok {
		p := prev.([2]*Term)
		c = tt.And(c, tt.Or(tt.Slt(p[0], sec), tt.And(tt.Eq(p[0], sec), tt.Sle(p[1], nsec))))
	}
	st.pc = append(st.pc, c)
	st.side["clock"] = [2]*Term{sec, nsec}
	var loc Value = PtrVal{}
	if g := ex.prog.byPath["time"].Var("localLoc"); g != nil {
		loc = PtrVal{Obj: ex.prog.globalID(g)}
	}
	// time.Time{wall: nsec, ext: sec + unixToInternal, loc: Local}
	const unixToInternal = (1969*365 + 1969/4 - 1969/100 + 1969/400) * 86400
	return StructVal{nsec, tt.Add(sec, C(64, uint64(unixToInternal))), loc}
}

// handoff (vhHandoff mode): after releasing a mutex the goroutine yields the processor to the next other
// goroutine that is not finished (round robin, the harness's main goroutine excepted). This is one of the
// schedules the Go runtime may produce; it lets lock/peek/unlock retry loops make progress under the serial
// scheduler. The switch happens after the current instruction completed (see step).
func (ex *Exec) handoff(st *State) {
	if !st.handoff {
		return
	}
	n := len(st.coros)
	for k := 1; k < n; k++ {
		i := (st.cur + k) % n
		c := st.coros[i]
		if i == 0 || c.status == CoDone || c.manual {
			continue
		}
		st.yieldTo = i + 1
		return
	}
}

func init() {
	// ----- sync.Mutex / RWMutex -----
	lock := func(kind string) intrinsic {
		return func(ex *Exec, st *State, fr *Frame, args []Value) (Value, ctlT) {
			p := args[0].(PtrVal)
			if p.IsNil() {
				ex.runtimePanic(st, "nil pointer dereference (mutex)")
				return nil, ctlEnd
			}
			k := p.Key()
			w, r := st.sideInt("mu:"+k), st.sideInt("rmu:"+k)
			switch kind {
			case "Lock":
				if w != 0 || r != 0 {
					return nil, ctlBlk
				}
				st.side["mu:"+k] = 1
				st.lockset[k] = true
				st.co().hold(k)
			case "TryLock":
				if w != 0 || r != 0 {
					return tFalse, ctlRet
				}
				st.side["mu:"+k] = 1
				st.lockset[k] = true
				st.co().hold(k)
				return tTrue, ctlRet
			case "Unlock":
				if w == 0 {
					st.fail = &Failure{Kind: "panic", ID: "unlock-of-unlocked", Msg: "sync: unlock of unlocked mutex"}
					st.done = true
					return nil, ctlEnd
				}
				delete(st.side, "mu:"+k)
				delete(st.lockset, k)
				st.lockReleased(k)
				ex.handoff(st)
			case "RLock":
				if w != 0 {
					return nil, ctlBlk
				}
				st.side["rmu:"+k] = r + 1
				st.lockset[k] = true
				st.co().hold(k)
			case "RUnlock":
				if r == 0 {
					st.fail = &Failure{Kind: "panic", ID: "runlock-of-unlocked", Msg: "sync: RUnlock of unlocked RWMutex"}
					st.done = true
					return nil, ctlEnd
				}
				if r == 1 {
					delete(st.side, "rmu:"+k)
					delete(st.lockset, k)
				} else {
					st.side["rmu:"+k] = r - 1
				}
				st.lockReleased(k)
				ex.handoff(st)
			}
			return nil, ctlRet
		}
	}
	reg("(*sync.Mutex).Lock", lock("Lock"))
	reg("(*sync.Mutex).TryLock", lock("TryLock"))
	reg("(*sync.Mutex).Unlock", lock("Unlock"))
	reg("(*sync.RWMutex).Lock", lock("Lock"))
	reg("(*sync.RWMutex).Unlock", lock("Unlock"))
	reg("(*sync.RWMutex).RLock", lock("RLock"))
	reg("(*sync.RWMutex).RUnlock", lock("RUnlock"))
	reg("(*sync.RWMutex).RLocker", func(ex *Exec, st *State, fr *Frame, args []Value) (Value, ctlT) {
		unsup("RWMutex.RLocker")
		return nil, ctlRet
	})

	// ----- WaitGroup -----
	reg("(*sync.WaitGroup).Add", func(ex *Exec, st *State, fr *Frame, args []Value) (Value, ctlT) {
		k := "wg:" + ptrKey(args[0])
		d := ex.intArg(st, args[1], "WaitGroup.Add")
		n := st.sideInt(k) + d
		if n < 0 {
			ex.startPanic(st, st.co(), IfaceVal{T: types.Typ[types.String], V: StrVal{S: "sync: negative WaitGroup counter"}})
			return nil, ctlEnd
		}
		st.side[k] = n
		return nil, ctlRet
	})
	reg("(*sync.WaitGroup).Done", func(ex *Exec, st *State, fr *Frame, args []Value) (Value, ctlT) {
		k := "wg:" + ptrKey(args[0])
		n := st.sideInt(k) - 1
		if n < 0 {
			ex.startPanic(st, st.co(), IfaceVal{T: types.Typ[types.String], V: StrVal{S: "sync: negative WaitGroup counter"}})
			return nil, ctlEnd
		}
		st.side[k] = n
		return nil, ctlRet
	})
	reg("(*sync.WaitGroup).Wait", func(ex *Exec, st *State, fr *Frame, args []Value) (Value, ctlT) {
		if st.sideInt("wg:"+ptrKey(args[0])) > 0 {
			return nil, ctlBlk
		}
		return nil, ctlRet
	})

	// ----- Once -----
	reg("(*sync.Once).Do", func(ex *Exec, st *State, fr *Frame, args []Value) (Value, ctlT) {
		k := "once:" + ptrKey(args[0])
		if st.sideInt(k) != 0 {
			return nil, ctlRet
		}
		st.side[k] = 1
		f := args[1].(*FuncVal)
		return nil, ctlT{kind: ctlTail, fv: f}
	})

	// ----- Pool -----
	reg("(*sync.Pool).Get", func(ex *Exec, st *State, fr *Frame, args []Value) (Value, ctlT) {
		p := args[0].(PtrVal)
		k := "pool:" + p.Key()
		var items []Value
		if v, ok := st.side[k]; ok {
			items = v.([]Value)
		}
		pick := -1
		if st.poolAdversarial {
			c := ex.chooseN(st, len(items)+1)
			pick = c - 1
		} else if len(items) > 0 {
			pick = len(items) - 1
		}
		if pick >= 0 {
			n := append(append([]Value(nil), items[:pick]...), items[pick+1:]...)
			st.side[k] = n
			return items[pick], ctlRet
		}
		pt := ex.prog.byPath["sync"].Type("Pool").Type()
		newf := st.load(p.Field(fieldIndex(pt, "New"))).(*FuncVal)
		if newf == nil {
			return IfaceVal{}, ctlRet
		}
		return nil, ctlT{kind: ctlTail, fv: newf}
	})
	reg("(*sync.Pool).Put", func(ex *Exec, st *State, fr *Frame, args []Value) (Value, ctlT) {
		k := "pool:" + ptrKey(args[0])
		var items []Value
		if v, ok := st.side[k]; ok {
			items = v.([]Value)
		}
		if iv, ok := args[1].(IfaceVal); ok && iv.T == nil {
			return nil, ctlRet
		}
		st.side[k] = append(append([]Value(nil), items...), args[1])
		return nil, ctlRet
	})

	// ----- klauspost zstd encoder as an opaque object (C16: the wrapper's pooling logic, not the algorithm) -----
	// NewWriter allocates a fresh encoder object; Reset/Close/Write/ReadFrom do not touch it. The stream an
	// encoder produces is not modelled (third-party compression loop, outside the claim): Write accepts everything.
	const kz = "github.com/klauspost/compress/zstd"
	reg(kz+".NewWriter", func(ex *Exec, st *State, fr *Frame, args []Value) (Value, ctlT) {
		et := ex.prog.byPath[kz].Type("Encoder").Type()
		return TupleVal{st.newPtr(ex.zero(et)), IfaceVal{}}, ctlRet
	})
	for _, n := range []string{"WithEncoderLevel", "WithEncoderConcurrency", "WithZeroFrames"} {
		reg(kz+"."+n, func(ex *Exec, st *State, fr *Frame, args []Value) (Value, ctlT) { return (*FuncVal)(nil), ctlRet })
	}
	reg(kz+".EncoderLevelFromZstd", func(ex *Exec, st *State, fr *Frame, args []Value) (Value, ctlT) { return C(64, 2), ctlRet })
	reg("(*"+kz+".Encoder).Reset", func(ex *Exec, st *State, fr *Frame, args []Value) (Value, ctlT) {
		if args[0].(PtrVal).IsNil() {
			ex.runtimePanic(st, "nil pointer dereference (zstd encoder)")
			return nil, ctlEnd
		}
		return nil, ctlRet
	})
	reg("(*"+kz+".Encoder).Close", func(ex *Exec, st *State, fr *Frame, args []Value) (Value, ctlT) {
		if args[0].(PtrVal).IsNil() {
			ex.runtimePanic(st, "nil pointer dereference (zstd encoder)")
			return nil, ctlEnd
		}
		return IfaceVal{}, ctlRet
	})
	reg("(*"+kz+".Encoder).Write", func(ex *Exec, st *State, fr *Frame, args []Value) (Value, ctlT) {
		if args[0].(PtrVal).IsNil() {
			ex.runtimePanic(st, "nil pointer dereference (zstd encoder)")
			return nil, ctlEnd
		}
		s := args[1].(SliceVal)
		var n *Term
		if s.LenT != nil {
			n = s.LenT
		} else {
			n = C(64, uint64(s.Len))
		}
		return TupleVal{n, IfaceVal{}}, ctlRet
	})

	// ----- pierrec lz4 reader/writer as opaque objects (C16: the wrapper's pooling logic, not the algorithm) -----
	const lz = "github.com/pierrec/lz4/v4"
	for _, tn := range []string{"Reader", "Writer"} {
		tn := tn
		reg(lz+".New"+tn, func(ex *Exec, st *State, fr *Frame, args []Value) (Value, ctlT) {
			t := ex.prog.byPath[lz].Type(tn).Type()
			return st.newPtr(ex.zero(t)), ctlRet
		})
		reg("(*"+lz+"."+tn+").Reset", func(ex *Exec, st *State, fr *Frame, args []Value) (Value, ctlT) {
			if args[0].(PtrVal).IsNil() {
				ex.runtimePanic(st, "nil pointer dereference (lz4 "+tn+")")
				return nil, ctlEnd
			}
			return nil, ctlRet
		})
	}
	reg("(*"+lz+".Writer).Close", func(ex *Exec, st *State, fr *Frame, args []Value) (Value, ctlT) {
		if args[0].(PtrVal).IsNil() {
			ex.runtimePanic(st, "nil pointer dereference (lz4 Writer)")
			return nil, ctlEnd
		}
		return IfaceVal{}, ctlRet
	})

	// SASLprep (xdg-go/stringprep over x/text Unicode tables, not interpreted): an injective marker function, so that
	// "was the credential prepared?" is decidable; harnesses compute their expectation through the same function and
	// the native replay uses the real one
	reg("(github.com/xdg-go/stringprep.Profile).Prepare", func(ex *Exec, st *State, fr *Frame, args []Value) (Value, ctlT) {
		in := strArg(args[1])
		ascii := true
		for i := 0; i < len(in); i++ {
			if in[i] >= 0x80 {
				ascii = false
			}
		}
		if ascii {
			return TupleVal{StrVal{S: in}, IfaceVal{}}, ctlRet // printable ASCII is its own prepared form (the harnesses use letters and digits)
		}
		return TupleVal{StrVal{S: "~" + in + "~"}, IfaceVal{}}, ctlRet
	})

	// ----- Cond -----
	// Cond: Wait = unlock L, block until the generation counter moves (Signal/Broadcast), lock L again.
	// Spurious wake-ups are legal in Go's contract (callers loop), Signal is modelled as Broadcast.
	reg("(*sync.Cond).Wait", func(ex *Exec, st *State, fr *Frame, args []Value) (Value, ctlT) {
		p := args[0].(PtrVal)
		ct := ex.prog.byPath["sync"].Type("Cond").Type()
		l := st.load(p.Field(fieldIndex(ct, "L"))).(IfaceVal)
		mk := l.V.(PtrVal).Key()
		wk := fmt.Sprintf("condwait:%s:%d", p.Key(), st.cur)
		gen := st.sideInt("cond:" + p.Key())
		saved, waiting := st.side[wk]
		if !waiting {
			if st.sideInt("mu:"+mk) == 0 {
				st.fail = &Failure{Kind: "panic", ID: "cond-wait-unlocked", Msg: "sync: Cond.Wait with unlocked L"}
				st.done = true
				return nil, ctlEnd
			}
			delete(st.side, "mu:"+mk)
			delete(st.lockset, mk)
			st.lockReleased(mk)
			st.side[wk] = gen
			return nil, ctlBlk
		}
		if saved.(int) == gen {
			return nil, ctlBlk // nobody signalled yet
		}
		if st.sideInt("mu:"+mk) != 0 || st.sideInt("rmu:"+mk) != 0 {
			return nil, ctlBlk // signalled, waiting for the lock
		}
		st.side["mu:"+mk] = 1
		st.lockset[mk] = true
		st.co().hold(mk)
		delete(st.side, wk)
		return nil, ctlRet
	})
	regAll([]string{"(*sync.Cond).Signal", "(*sync.Cond).Broadcast"}, func(ex *Exec, st *State, fr *Frame, args []Value) (Value, ctlT) {
		k := "cond:" + ptrKey(args[0])
		st.side[k] = st.sideInt(k) + 1
		return nil, ctlRet
	})

	// ----- sync/atomic -----
	for _, ty := range []string{"Int32", "Int64", "Uint32", "Uint64", "Uintptr", "Pointer"} {
		ty := ty
		reg("sync/atomic.Load"+ty, func(ex *Exec, st *State, fr *Frame, args []Value) (Value, ctlT) {
			p := args[0].(PtrVal)
			ex.guardAtomic(st, p)
			return st.load(p), ctlRet
		})
		reg("sync/atomic.Store"+ty, func(ex *Exec, st *State, fr *Frame, args []Value) (Value, ctlT) {
			p := args[0].(PtrVal)
			ex.guardAtomic(st, p)
			st.store(p, args[1])
			return nil, ctlRet
		})
		reg("sync/atomic.Swap"+ty, func(ex *Exec, st *State, fr *Frame, args []Value) (Value, ctlT) {
			p := args[0].(PtrVal)
			ex.guardAtomic(st, p)
			old := st.load(p)
			st.store(p, args[1])
			return old, ctlRet
		})
		reg("sync/atomic.CompareAndSwap"+ty, func(ex *Exec, st *State, fr *Frame, args []Value) (Value, ctlT) {
			p := args[0].(PtrVal)
			ex.guardAtomic(st, p)
			old := st.load(p)
			eq := ex.valEq(old, args[1])
			if ex.branch(st, eq) {
				st.store(p, args[2])
				return tTrue, ctlRet
			}
			return tFalse, ctlRet
		})
		if ty != "Pointer" {
			reg("sync/atomic.Add"+ty, func(ex *Exec, st *State, fr *Frame, args []Value) (Value, ctlT) {
				p := args[0].(PtrVal)
				ex.guardAtomic(st, p)
				nv := ex.tt.Add(st.load(p).(*Term), args[1].(*Term))
				st.store(p, nv)
				return nv, ctlRet
			})
			reg("sync/atomic.And"+ty, func(ex *Exec, st *State, fr *Frame, args []Value) (Value, ctlT) {
				p := args[0].(PtrVal)
				old := st.load(p).(*Term)
				st.store(p, ex.tt.BvAnd(old, args[1].(*Term)))
				return old, ctlRet
			})
			reg("sync/atomic.Or"+ty, func(ex *Exec, st *State, fr *Frame, args []Value) (Value, ctlT) {
				p := args[0].(PtrVal)
				old := st.load(p).(*Term)
				st.store(p, ex.tt.BvOr(old, args[1].(*Term)))
				return old, ctlRet
			})
		}
	}
	// atomic.Value: struct{ v any }
	reg("(*sync/atomic.Value).Load", func(ex *Exec, st *State, fr *Frame, args []Value) (Value, ctlT) {
		return st.load(args[0].(PtrVal).Field(0)), ctlRet
	})
	reg("(*sync/atomic.Value).Store", func(ex *Exec, st *State, fr *Frame, args []Value) (Value, ctlT) {
		if args[1].(IfaceVal).T == nil {
			ex.startPanic(st, st.co(), IfaceVal{T: types.Typ[types.String], V: StrVal{S: "sync/atomic: store of nil value into Value"}})
			return nil, ctlEnd
		}
		st.store(args[0].(PtrVal).Field(0), args[1])
		return nil, ctlRet
	})
	reg("(*sync/atomic.Value).Swap", func(ex *Exec, st *State, fr *Frame, args []Value) (Value, ctlT) {
		p := args[0].(PtrVal).Field(0)
		old := st.load(p)
		st.store(p, args[1])
		return old, ctlRet
	})
	reg("(*sync/atomic.Value).CompareAndSwap", func(ex *Exec, st *State, fr *Frame, args []Value) (Value, ctlT) {
		p := args[0].(PtrVal).Field(0)
		old := st.load(p)
		if ex.branch(st, ex.valEq(old, args[1])) {
			st.store(p, args[2])
			return tTrue, ctlRet
		}
		return tFalse, ctlRet
	})

	// ----- time -----
	reg("time.Now", func(ex *Exec, st *State, fr *Frame, args []Value) (Value, ctlT) {
		return ex.nowValue(st), ctlRet
	})
	// time.Sleep: the goroutine waits on a one-shot timer. Other goroutines run meanwhile; when nothing else can run
	// the timer fires (idle rule, shortest duration first). A non-positive duration returns at once.
	reg("time.Sleep", func(ex *Exec, st *State, fr *Frame, args []Value) (Value, ctlT) {
		co := st.co()
		if co.sleepCh.Obj == 0 {
			d := args[0].(*Term)
			if d.IsConst() && d.SVal() <= 0 {
				return nil, ctlRet
			}
			p := newTimerFn(ex, st, d, nil, false, "Timer").(PtrVal)
			tt := ex.prog.byPath["time"].Type("Timer").Type()
			co.sleepCh = st.load(p.Field(fieldIndex(tt, "C"))).(ChanVal)
		}
		if c := ex.chanObj(st, co.sleepCh); len(c.Buf) > 0 {
			ex.doRecv(st, co.sleepCh, nil)
			co.sleepCh = ChanVal{}
			return nil, ctlRet
		}
		return nil, ctlBlk
	})
	newTimer := func(ex *Exec, st *State, d *Term, fn *FuncVal, ticker bool, typeName string) Value {
		return newTimerFn(ex, st, d, fn, ticker, typeName)
	}
	newTimerFn = func(ex *Exec, st *State, d *Term, fn *FuncVal, ticker bool, typeName string) Value {
		tt := ex.prog.byPath["time"].Type(typeName).Type()
		obj := ex.zero(tt).(StructVal)
		chid := st.alloc(&ChanObj{Cap: 1})
		n := make(StructVal, len(obj))
		copy(n, obj)
		n[fieldIndex(tt, "C")] = ChanVal{Obj: chid}
		p := st.newPtr(n)
		ts := append([]timerRec(nil), st.timers()...)
		ts = append(ts, timerRec{ch: ChanVal{Obj: chid}, active: true, fn: fn, ticker: ticker, dur: d, ptrKey: p.Key(), created: len(ts)})
		st.setTimers(ts)
		return p
	}
	reg("time.NewTimer", func(ex *Exec, st *State, fr *Frame, args []Value) (Value, ctlT) {
		return newTimer(ex, st, args[0].(*Term), nil, false, "Timer"), ctlRet
	})
	reg("time.NewTicker", func(ex *Exec, st *State, fr *Frame, args []Value) (Value, ctlT) {
		return newTimer(ex, st, args[0].(*Term), nil, true, "Ticker"), ctlRet
	})
	reg("time.AfterFunc", func(ex *Exec, st *State, fr *Frame, args []Value) (Value, ctlT) {
		return newTimer(ex, st, args[0].(*Term), args[1].(*FuncVal), false, "Timer"), ctlRet
	})
	reg("time.After", func(ex *Exec, st *State, fr *Frame, args []Value) (Value, ctlT) {
		p := newTimer(ex, st, args[0].(*Term), nil, false, "Timer").(PtrVal)
		tt := ex.prog.byPath["time"].Type("Timer").Type()
		return st.load(p.Field(fieldIndex(tt, "C"))), ctlRet
	})
	reg("time.Tick", func(ex *Exec, st *State, fr *Frame, args []Value) (Value, ctlT) {
		p := newTimer(ex, st, args[0].(*Term), nil, true, "Ticker").(PtrVal)
		tt := ex.prog.byPath["time"].Type("Ticker").Type()
		return st.load(p.Field(fieldIndex(tt, "C"))), ctlRet
	})
	stop := func(ex *Exec, st *State, fr *Frame, args []Value) (Value, ctlT) {
		i := st.findTimer(ptrKey(args[0]))
		if i < 0 {
			return tFalse, ctlRet
		}
		ts := append([]timerRec(nil), st.timers()...)
		was := ts[i].active
		ts[i].active = false
		st.setTimers(ts)
		return B(was), ctlRet
	}
	reg("(*time.Timer).Stop", stop)
	reg("(*time.Ticker).Stop", func(ex *Exec, st *State, fr *Frame, args []Value) (Value, ctlT) {
		stop(ex, st, fr, args)
		return nil, ctlRet
	})
	reg("(*time.Timer).Reset", func(ex *Exec, st *State, fr *Frame, args []Value) (Value, ctlT) {
		i := st.findTimer(ptrKey(args[0]))
		if i < 0 {
			unsup("Reset of unknown timer")
		}
		ts := append([]timerRec(nil), st.timers()...)
		was := ts[i].active
		ts[i].active = true
		ts[i].fired = false
		st.setTimers(ts)
		return B(was), ctlRet
	})
	reg("(*time.Ticker).Reset", func(ex *Exec, st *State, fr *Frame, args []Value) (Value, ctlT) { return nil, ctlRet })
	regRepo("vhFire", func(ex *Exec, st *State, fr *Frame, args []Value) (Value, ctlT) {
		// argument: *time.Timer / *time.Ticker (as interface)
		iv := args[0].(IfaceVal)
		i := st.findTimer(iv.V.(PtrVal).Key())
		if i < 0 {
			unsup("vhFire of unknown timer")
		}
		was := st.timers()[i].active
		ex.fireTimer(st, i)
		return B(was), ctlRet
	})
	regRepo("vhTimers", func(ex *Exec, st *State, fr *Frame, args []Value) (Value, ctlT) {
		n := 0
		for _, t := range st.timers() {
			if t.active {
				n++
			}
		}
		return C(64, uint64(n)), ctlRet
	})
	regRepo("vhFireNext", func(ex *Exec, st *State, fr *Frame, args []Value) (Value, ctlT) {
		for i, t := range st.timers() {
			if t.active {
				ex.fireTimer(st, i)
				return tTrue, ctlRet
			}
		}
		return tFalse, ctlRet
	})

	// ----- fmt -----
	sprintf := func(ex *Exec, st *State, format string, va SliceVal) string {
		goargs := make([]interface{}, 0, va.Len)
		ok := true
		for i := 0; i < va.Len; i++ {
			iv := st.sliceGet(va, i).(IfaceVal)
			g, good := ex.toNative(st, iv)
			if !good {
				ok = false
				break
			}
			goargs = append(goargs, g)
		}
		if ok {
			return fmt.Sprintf(format, goargs...)
		}
		return "fmt(" + format + ")"
	}
	reg("fmt.Sprintf", func(ex *Exec, st *State, fr *Frame, args []Value) (Value, ctlT) {
		f, okf := args[0].(StrVal).Concrete()
		if !okf {
			return StrVal{S: "fmt(?)"}, ctlRet
		}
		if sv, ok := ex.sprintfSymbolic(st, f, args[1].(SliceVal)); ok {
			return sv, ctlRet
		}
		return StrVal{S: sprintf(ex, st, f, args[1].(SliceVal))}, ctlRet
	})
	reg("fmt.Sprint", func(ex *Exec, st *State, fr *Frame, args []Value) (Value, ctlT) {
		va := args[0].(SliceVal)
		return StrVal{S: sprintf(ex, st, strings.Repeat("%v", va.Len), va)}, ctlRet
	})
	reg("fmt.Sprintln", func(ex *Exec, st *State, fr *Frame, args []Value) (Value, ctlT) {
		return StrVal{S: "fmt(println)"}, ctlRet
	})
	regAll([]string{"fmt.Fprintf", "fmt.Printf", "fmt.Fprintln", "fmt.Println", "fmt.Fprint", "fmt.Print"}, func(ex *Exec, st *State, fr *Frame, args []Value) (Value, ctlT) {
		return TupleVal{C(64, 0), IfaceVal{}}, ctlRet
	})
	reg("fmt.Errorf", func(ex *Exec, st *State, fr *Frame, args []Value) (Value, ctlT) {
		f, _ := args[0].(StrVal).Concrete()
		va := args[1].(SliceVal)
		msg := sprintf(ex, st, strings.ReplaceAll(f, "%w", "%v"), va)
		if strings.Contains(f, "%w") {
			for i := 0; i < va.Len; i++ {
				iv := st.sliceGet(va, i).(IfaceVal)
				if iv.T != nil && ex.prog.implements(iv.T, errorIface) {
					wt := ex.prog.byPath["fmt"].Type("wrapError").Type()
					p := st.newPtr(StructVal{StrVal{S: msg}, iv})
					return IfaceVal{T: types.NewPointer(wt), V: p}, ctlRet
				}
			}
		}
		et := ex.prog.byPath["errors"].Type("errorString").Type()
		p := st.newPtr(StructVal{StrVal{S: msg}})
		return IfaceVal{T: types.NewPointer(et), V: p}, ctlRet
	})

	// ----- errors (shims written in Go, in the root package overlay) -----
	shim := func(name string) intrinsic {
		return func(ex *Exec, st *State, fr *Frame, args []Value) (Value, ctlT) {
			fn := ex.prog.findFunc(repoPath, name)
			if fn == nil {
				unsup("shim %s not found", name)
			}
			return nil, ctlT{kind: ctlTail, fv: &FuncVal{Fn: fn}, args: args}
		}
	}
	reg("errors.Is", shim("vhShimErrorsIs"))
	reg("errors.As", shim("vhShimErrorsAs"))
	reg("sort.Slice", shim("vhShimSortSlice"))
	reg("sort.SliceStable", shim("vhShimSortSlice"))
	reg("sort.Sort", shim("vhShimSortSort"))
	reg("sort.Stable", shim("vhShimSortSort"))
	reg("sort.Strings", shim("vhShimSortStrings"))
	reg("sort.Ints", shim("vhShimSortInts"))
	regRepo("vhAsAssign", func(ex *Exec, st *State, fr *Frame, args []Value) (Value, ctlT) {
		err := args[0].(IfaceVal)
		tgt := args[1].(IfaceVal)
		pt, ok := tgt.T.Underlying().(*types.Pointer)
		if !ok || err.T == nil {
			return tFalse, ctlRet
		}
		et := pt.Elem()
		if types.IsInterface(et) {
			if ex.prog.implements(err.T, et.Underlying().(*types.Interface)) {
				st.store(tgt.V.(PtrVal), err)
				return tTrue, ctlRet
			}
			return tFalse, ctlRet
		}
		if types.Identical(err.T, et) {
			st.store(tgt.V.(PtrVal), err.V)
			return tTrue, ctlRet
		}
		return tFalse, ctlRet
	})
	regRepo("vhLenAny", func(ex *Exec, st *State, fr *Frame, args []Value) (Value, ctlT) {
		return ex.valueLen(st, args[0].(IfaceVal).V), ctlRet
	})
	regRepo("vhSwapAny", func(ex *Exec, st *State, fr *Frame, args []Value) (Value, ctlT) {
		s := args[0].(IfaceVal).V.(SliceVal)
		i, j := ex.intArg(st, args[1], "swap i"), ex.intArg(st, args[2], "swap j")
		a, b := st.sliceGet(s, i), st.sliceGet(s, j)
		st.sliceSet(s, i, b)
		st.sliceSet(s, j, a)
		return nil, ctlRet
	})

	// ----- hash/crc32 as an uninterpreted fold -----
	crcUpdate := func(ex *Exec, st *State, crc *Term, tab Value, data []*Term) *Term {
		tabID := C(8, 0)
		if p, ok := tab.(PtrVal); ok {
			if g := ex.prog.byPath["hash/crc32"].Var("IEEETable"); g != nil {
				// IEEETable is *Table stored in a global; compare the pointer against its value
				iv := st.load(PtrVal{Obj: ex.prog.globalID(g)})
				if ip, ok := iv.(PtrVal); ok && samePtr(ip, p) {
					tabID = C(8, 1)
				} else {
					tabID = C(8, uint64(2+int(p.Obj)%250))
					st.side["crctab:"+p.Key()] = 1
				}
			}
		}
		uf := ex.tt.UFIndex("crc_step", []uint8{8, 32, 8}, 32)
		for _, b := range data {
			crc = ex.tt.UF(uf, tabID, crc, b)
		}
		return crc
	}
	reg("hash/crc32.Update", func(ex *Exec, st *State, fr *Frame, args []Value) (Value, ctlT) {
		return crcUpdate(ex, st, args[0].(*Term), args[1], st.sliceBytes(args[2].(SliceVal))), ctlRet
	})
	reg("hash/crc32.Checksum", func(ex *Exec, st *State, fr *Frame, args []Value) (Value, ctlT) {
		return crcUpdate(ex, st, C(32, 0), args[1], st.sliceBytes(args[0].(SliceVal))), ctlRet
	})
	reg("hash/crc32.ChecksumIEEE", func(ex *Exec, st *State, fr *Frame, args []Value) (Value, ctlT) {
		var tab Value = PtrVal{}
		if g := ex.prog.byPath["hash/crc32"].Var("IEEETable"); g != nil {
			tab = st.load(PtrVal{Obj: ex.prog.globalID(g)})
		}
		return crcUpdate(ex, st, C(32, 0), tab, st.sliceBytes(args[0].(SliceVal))), ctlRet
	})
	reg("hash/crc32.MakeTable", func(ex *Exec, st *State, fr *Frame, args []Value) (Value, ctlT) {
		poly := args[0].(*Term)
		k := fmt.Sprintf("crcmk:%d", poly.Val)
		if v, ok := st.side[k]; ok {
			return v.(PtrVal), ctlRet
		}
		p := st.newPtr(newArr(256, C(32, 0)))
		st.side[k] = p
		return p, ctlRet
	})

	// ----- math/rand -----
	randInt := func(w uint8, nonneg bool) intrinsic {
		return func(ex *Exec, st *State, fr *Frame, args []Value) (Value, ctlT) {
			v := ex.newInput(st, "rand", "Rand", w)
			if nonneg {
				st.pc = append(st.pc, ex.tt.Sle(C(w, 0), v))
			}
			return v, ctlRet
		}
	}
	reg("math/rand.Int", randInt(64, true))
	reg("math/rand.Int63", randInt(64, true))
	reg("math/rand.Int31", randInt(32, true))
	reg("math/rand.Uint32", randInt(32, false))
	reg("math/rand.Uint64", randInt(64, false))
	reg("(*math/rand.Rand).Int", func(ex *Exec, st *State, fr *Frame, args []Value) (Value, ctlT) {
		if p, ok := args[0].(PtrVal); ok && p.Obj > 0 && st.guardOn {
			ex.eraser(st, fr, PtrVal{Obj: p.Obj, Path: []int32{0}}, true, watchDecl{name: "rand.Rand", t: types.Typ[types.Int]})
		}
		return randInt(64, true)(ex, st, fr, nil)
	})
	randN := func(ex *Exec, st *State, fr *Frame, n *Term) (Value, ctlT) {
		v := ex.newInput(st, "randn", "Rand", n.W)
		st.pc = append(st.pc, ex.tt.And(ex.tt.Sle(C(n.W, 0), v), ex.tt.Slt(v, n)))
		return v, ctlRet
	}
	reg("math/rand.Intn", func(ex *Exec, st *State, fr *Frame, args []Value) (Value, ctlT) { return randN(ex, st, fr, args[0].(*Term)) })
	reg("math/rand.Int63n", func(ex *Exec, st *State, fr *Frame, args []Value) (Value, ctlT) { return randN(ex, st, fr, args[0].(*Term)) })
	reg("math/rand.Int31n", func(ex *Exec, st *State, fr *Frame, args []Value) (Value, ctlT) { return randN(ex, st, fr, args[0].(*Term)) })
	// a *rand.Rand is an opaque object (NewSource / New allocate); it is not safe for concurrent use, so every method
	// call counts as a write to the object for the lockset analysis whenever guard checking is on
	randTouch := func(ex *Exec, st *State, fr *Frame, recv Value) {
		p, ok := recv.(PtrVal)
		if !ok || p.Obj <= 0 || !st.guardOn {
			return
		}
		ex.eraser(st, fr, PtrVal{Obj: p.Obj, Path: []int32{0}}, true, watchDecl{name: "rand.Rand", t: types.Typ[types.Int]})
	}
	reg("math/rand.NewSource", func(ex *Exec, st *State, fr *Frame, args []Value) (Value, ctlT) {
		return IfaceVal{}, ctlRet
	})
	reg("math/rand.New", func(ex *Exec, st *State, fr *Frame, args []Value) (Value, ctlT) {
		rt := ex.prog.byPath["math/rand"].Type("Rand").Type()
		return st.newPtr(ex.zero(rt)), ctlRet
	})
	reg("(*math/rand.Rand).Intn", func(ex *Exec, st *State, fr *Frame, args []Value) (Value, ctlT) {
		randTouch(ex, st, fr, args[0])
		return randN(ex, st, fr, args[1].(*Term))
	})
	reg("(*math/rand.Rand).Int63n", func(ex *Exec, st *State, fr *Frame, args []Value) (Value, ctlT) {
		randTouch(ex, st, fr, args[0])
		return randN(ex, st, fr, args[1].(*Term))
	})
	reg("math/rand.Seed", func(ex *Exec, st *State, fr *Frame, args []Value) (Value, ctlT) { return nil, ctlRet })
}

var errorIface = types.Universe.Lookup("error").Type().Underlying().(*types.Interface)

// toNative converts a concrete interface payload into a Go value for fmt.
func (ex *Exec) toNative(st *State, iv IfaceVal) (interface{}, bool) {
	if iv.T == nil {
		return nil, true
	}
	switch v := iv.V.(type) {
	case *Term:
		if !v.IsConst() {
			return nil, false
		}
		w, signed, _ := intWidth(iv.T)
		if w == 0 {
			return v.Val != 0, true
		}
		if signed {
			return v.SVal(), true
		}
		return v.Val, true
	case StrVal:
		s, ok := v.Concrete()
		return s, ok
	case FloatVal:
		return float64(v), true
	case SliceVal:
		if b, ok := iv.T.Underlying().(*types.Slice); ok {
			if e, ok := b.Elem().Underlying().(*types.Basic); ok && e.Kind() == types.Uint8 && v.Kind == SliceNormal {
				s, ok := mkStr(st.sliceBytes(v)).Concrete()
				return []byte(s), ok
			}
		}
	}
	return "<" + iv.T.String() + ">", true
}

func (ex *Exec) guardAtomic(st *State, p PtrVal) {}

// sprintfSymbolic handles formats made of literals and plain %s / %v verbs whose arguments are strings or byte
// slices with symbolic content (e.g. "\x00%s\x00%s"); everything else falls back to the concrete formatter.
func (ex *Exec) sprintfSymbolic(st *State, format string, va SliceVal) (StrVal, bool) {
	anySym := false
	for i := 0; i < va.Len; i++ {
		iv := st.sliceGet(va, i).(IfaceVal)
		switch v := iv.V.(type) {
		case StrVal:
			if v.T != nil {
				anySym = true
			}
		case SliceVal:
			if v.Kind == SliceNormal && v.Len > 0 {
				for _, t := range st.sliceBytes(v) {
					if !t.IsConst() {
						anySym = true
					}
				}
			}
		}
	}
	if !anySym {
		return StrVal{}, false
	}
	var out []*Term
	arg := 0
	for i := 0; i < len(format); i++ {
		c := format[i]
		if c != '%' {
			out = append(out, C(8, uint64(c)))
			continue
		}
		if i+1 >= len(format) {
			return StrVal{}, false
		}
		i++
		switch format[i] {
		case '%':
			out = append(out, C(8, '%'))
		case 's', 'v':
			if arg >= va.Len {
				return StrVal{}, false
			}
			iv := st.sliceGet(va, arg).(IfaceVal)
			arg++
			switch v := iv.V.(type) {
			case StrVal:
				for k := 0; k < v.Len(); k++ {
					out = append(out, v.At(k))
				}
			case SliceVal:
				if format[i] != 's' {
					return StrVal{}, false
				}
				out = append(out, st.sliceBytes(v)...)
			default:
				return StrVal{}, false
			}
		default:
			return StrVal{}, false
		}
	}
	return mkStr(out), true
}

// fireOldestTimer lets time pass when nothing else can run: the pending timer with the shortest duration fires
// (ties: the oldest), which orders e.g. a 500 ms watchdog before a 10 s request timeout as real time would.
var newTimerFn func(ex *Exec, st *State, d *Term, fn *FuncVal, ticker bool, typeName string) Value

func (ex *Exec) fireOldestTimer(st *State) bool {
	best := -1
	var bestDur int64
	for i, t := range st.timers() {
		if !t.active {
			continue
		}
		if t.fn == nil && len(ex.chanObj(st, t.ch).Buf) >= 1 {
			continue // already delivered and not consumed: firing again changes nothing
		}
		d := int64(1) << 62
		if t.dur != nil && t.dur.IsConst() {
			d = t.dur.SVal()
		}
		if best < 0 || d < bestDur {
			best, bestDur = i, d
		}
	}
	if best < 0 {
		return false
	}
	ex.fireTimer(st, best)
	return true
}
