package main

import (
	"fmt"
	"go/token"
	"go/types"
	"os"
	"os/exec"
	"path/filepath"
	"sort"
	"strings"
	"sync"

	"golang.org/x/tools/go/packages"
	"golang.org/x/tools/go/ssa"
	"golang.org/x/tools/go/ssa/ssautil"
)

type Program struct {
	prog       *ssa.Program
	pkgs       []*packages.Package
	all        []*ssa.Package
	byPath     map[string]*ssa.Package
	globals    map[*ssa.Global]ObjID
	globalList []*ssa.Global // index = ObjID-1
	baseHeap   map[ObjID]Value
	baseNext   ObjID
	baseSide   map[string]interface{}
	haveCvc5   bool
	rtErrType  types.Type
	names      sync.Map // *ssa.Function -> string
	methods    sync.Map // methodKey -> *ssa.Function
	impl       sync.Map
	initLog    []string
	repoDir    string
	scratch    string
	overlay    map[string][]byte
}

const repoPath = "github.com/segmentio/kafka-go"

// LoadProgram loads /repo (current working tree) with the harness overlay and builds SSA for everything.
var loadBuildTags string

func LoadProgram(repoDir string, overlay map[string][]byte, patterns []string, scratch string) (*Program, error) {
	// private copy of go.mod/go.sum so that /repo is never written
	os.MkdirAll(scratch, 0o755)
	for _, f := range []string{"go.mod", "go.sum"} {
		b, err := os.ReadFile(filepath.Join(repoDir, f))
		if err != nil {
			return nil, err
		}
		if err := os.WriteFile(filepath.Join(scratch, f), b, 0o644); err != nil {
			return nil, err
		}
	}
	env := append(os.Environ(),
		"GOFLAGS=-mod=mod -modfile="+filepath.Join(scratch, "go.mod"),
		"GOPROXY=off", "GOSUMDB=off", "GOTOOLCHAIN=local", "CGO_ENABLED=0")
	cfg := &packages.Config{
		Mode:    packages.LoadAllSyntax,
		Dir:     repoDir,
		Env:     env,
		Overlay: overlay,
		Tests:   false,
	}
	if loadBuildTags != "" {
		// e.g. "purego": the standard library's pure-Go hash implementations instead of assembly (spec "build_tags")
		cfg.BuildFlags = []string{"-tags=" + loadBuildTags}
	}
	pkgs, err := packages.Load(cfg, patterns...)
	if err != nil {
		return nil, err
	}
	var errs []string
	packages.Visit(pkgs, nil, func(p *packages.Package) {
		for _, e := range p.Errors {
			if strings.HasPrefix(p.PkgPath, repoPath) {
				errs = append(errs, e.Error())
			}
		}
	})
	if len(errs) > 0 {
		return nil, fmt.Errorf("package errors (harness no longer compiles against the tree?):\n%s", strings.Join(errs, "\n"))
	}
	prog, _ := ssautil.AllPackages(pkgs, ssa.InstantiateGenerics|ssa.BareInits)
	prog.Build()
	p := &Program{prog: prog, pkgs: pkgs, byPath: map[string]*ssa.Package{}, globals: map[*ssa.Global]ObjID{}, repoDir: repoDir, scratch: scratch, overlay: overlay}
	p.all = prog.AllPackages()
	sort.Slice(p.all, func(i, j int) bool { return p.all[i].Pkg.Path() < p.all[j].Pkg.Path() })
	for _, sp := range p.all {
		p.byPath[sp.Pkg.Path()] = sp
		var names []string
		for n, m := range sp.Members {
			if _, ok := m.(*ssa.Global); ok {
				names = append(names, n)
			}
		}
		sort.Strings(names)
		for _, n := range names {
			g := sp.Members[n].(*ssa.Global)
			p.globalList = append(p.globalList, g)
			p.globals[g] = ObjID(len(p.globalList))
		}
	}
	p.baseNext = ObjID(len(p.globalList) + 1)
	if _, err := exec.LookPath("cvc5"); err == nil {
		p.haveCvc5 = true
	}
	rt := p.byPath["runtime"]
	var rtp *types.Package
	if rt != nil {
		rtp = rt.Pkg
	}
	p.rtErrType = types.NewNamed(types.NewTypeName(token.NoPos, rtp, "vhRuntimeError", nil), types.Typ[types.String], nil)
	return p, nil
}

func (p *Program) globalID(g *ssa.Global) ObjID {
	id, ok := p.globals[g]
	if !ok {
		panic("unknown global " + g.String())
	}
	return id
}

func (p *Program) globalByID(id ObjID) *ssa.Global {
	if id >= 1 && int(id) <= len(p.globalList) {
		return p.globalList[id-1]
	}
	return nil
}

func (p *Program) runtimeErrorType() types.Type { return p.rtErrType }

func (p *Program) funcName(fn *ssa.Function) string {
	if v, ok := p.names.Load(fn); ok {
		return v.(string)
	}
	f := fn
	if o := fn.Origin(); o != nil {
		f = o
	}
	n := f.String()
	// bound method closures and thunks keep their own names ("(T).m$bound")
	p.names.Store(fn, n)
	return n
}

type methodKey struct {
	t types.Type
	m *types.Func
}

func (p *Program) lookupMethod(t types.Type, m *types.Func) *ssa.Function {
	k := methodKey{t, m}
	if v, ok := p.methods.Load(k); ok {
		return v.(*ssa.Function)
	}
	ms := p.prog.MethodSets.MethodSet(t)
	sel := ms.Lookup(m.Pkg(), m.Name())
	if sel == nil {
		return nil
	}
	fn := p.prog.MethodValue(sel)
	if fn != nil {
		p.methods.Store(k, fn)
	}
	return fn
}

func (p *Program) lookupMethodByName(t types.Type, pkg *types.Package, name string) *ssa.Function {
	ms := p.prog.MethodSets.MethodSet(t)
	sel := ms.Lookup(pkg, name)
	if sel == nil {
		return nil
	}
	return p.prog.MethodValue(sel)
}

type implKey struct {
	t types.Type
	i *types.Interface
}

func (p *Program) implements(t types.Type, i *types.Interface) bool {
	k := implKey{t, i}
	if v, ok := p.impl.Load(k); ok {
		return v.(bool)
	}
	r := types.Implements(t, i)
	p.impl.Store(k, r)
	return r
}

func (p *Program) findFunc(pkgPath, name string) *ssa.Function {
	sp := p.byPath[pkgPath]
	if sp == nil {
		return nil
	}
	return sp.Func(name)
}

// initOrder returns packages in dependency order (imports first).
func (p *Program) initOrder() []*ssa.Package {
	var order []*ssa.Package
	seen := map[*types.Package]bool{}
	var visit func(tp *types.Package)
	visit = func(tp *types.Package) {
		if seen[tp] {
			return
		}
		seen[tp] = true
		imps := tp.Imports()
		sort.Slice(imps, func(i, j int) bool { return imps[i].Path() < imps[j].Path() })
		for _, ip := range imps {
			visit(ip)
		}
		if sp := p.prog.Package(tp); sp != nil {
			order = append(order, sp)
		}
	}
	for _, sp := range p.all {
		visit(sp.Pkg)
	}
	return order
}
