package main

// A concrete, type-level implementation of the subset of package reflect that kafka-go uses.
// Types are always concrete; values may be symbolic.

import (
	"fmt"
	"go/types"
)

// RType is the payload of a reflect.Type interface value.
type RType struct{ T types.Type }

// RValue is the engine's reflect.Value.
type RValue struct {
	T    types.Type
	V    Value  // the value (when not addressable)
	P    PtrVal // address (when addressable)
	Addr bool
}

func (r RValue) Valid() bool { return r.T != nil }

func (ex *Exec) rtypeIface(t types.Type) IfaceVal {
	rt := ex.prog.byPath["reflect"].Type("rtype").Type()
	return IfaceVal{T: types.NewPointer(rt), V: &RType{T: t}}
}

func (st *State) rget(r RValue) Value {
	if r.Addr {
		return st.load(r.P)
	}
	return r.V
}

func kindOf(t types.Type) int {
	switch u := t.Underlying().(type) {
	case *types.Basic:
		switch u.Kind() {
		case types.Bool:
			return 1
		case types.Int:
			return 2
		case types.Int8:
			return 3
		case types.Int16:
			return 4
		case types.Int32:
			return 5
		case types.Int64:
			return 6
		case types.Uint:
			return 7
		case types.Uint8:
			return 8
		case types.Uint16:
			return 9
		case types.Uint32:
			return 10
		case types.Uint64:
			return 11
		case types.Uintptr:
			return 12
		case types.Float32:
			return 13
		case types.Float64:
			return 14
		case types.String:
			return 24
		case types.UnsafePointer:
			return 26
		}
	case *types.Array:
		return 17
	case *types.Chan:
		return 18
	case *types.Signature:
		return 19
	case *types.Interface:
		return 20
	case *types.Map:
		return 21
	case *types.Pointer:
		return 22
	case *types.Slice:
		return 23
	case *types.Struct:
		return 25
	}
	return 0
}

func (ex *Exec) reflectPanic(st *State, msg string) (Value, ctlT) {
	ex.startPanic(st, st.co(), IfaceVal{T: types.Typ[types.String], V: StrVal{S: "reflect: " + msg}})
	return nil, ctlEnd
}

func (ex *Exec) structFieldValue(st *State, t types.Type, i int, index []int) Value {
	s := t.Underlying().(*types.Struct)
	f := s.Field(i)
	sft := ex.prog.byPath["reflect"].Type("StructField").Type()
	out := ex.zero(sft).(StructVal)
	n := make(StructVal, len(out))
	copy(n, out)
	n[fieldIndex(sft, "Name")] = StrVal{S: f.Name()}
	if !f.Exported() && f.Pkg() != nil {
		n[fieldIndex(sft, "PkgPath")] = StrVal{S: f.Pkg().Path()}
	}
	n[fieldIndex(sft, "Type")] = ex.rtypeIface(f.Type())
	n[fieldIndex(sft, "Tag")] = StrVal{S: s.Tag(i)}
	idx := st.makeSlice(C(64, 0), len(index), len(index))
	for k, v := range index {
		st.sliceSet(idx, k, C(64, uint64(v)))
	}
	idx.NonNil = true
	n[fieldIndex(sft, "Index")] = idx
	n[fieldIndex(sft, "Anonymous")] = B(f.Embedded())
	return n
}

func init() {
	T := func(v Value) types.Type { return v.(*RType).T }
	rt := func(name string, f intrinsic) { reg("reflect.Type."+name, f) }
	rv := func(name string, f intrinsic) { reg("(reflect.Value)."+name, f) }

	reg("reflect.TypeOf", func(ex *Exec, st *State, fr *Frame, args []Value) (Value, ctlT) {
		iv := args[0].(IfaceVal)
		if iv.T == nil {
			return IfaceVal{}, ctlRet
		}
		return ex.rtypeIface(iv.T), ctlRet
	})
	reg("internal/reflectlite.TypeOf", func(ex *Exec, st *State, fr *Frame, args []Value) (Value, ctlT) {
		iv := args[0].(IfaceVal)
		if iv.T == nil {
			return IfaceVal{}, ctlRet
		}
		rt := ex.prog.byPath["internal/reflectlite"].Type("rtype").Type()
		return IfaceVal{T: types.NewPointer(rt), V: &RType{T: iv.T}}, ctlRet
	})
	reg("reflect.ValueOf", func(ex *Exec, st *State, fr *Frame, args []Value) (Value, ctlT) {
		iv := args[0].(IfaceVal)
		if iv.T == nil {
			return RValue{}, ctlRet
		}
		return RValue{T: iv.T, V: iv.V}, ctlRet
	})
	ptrTo := func(ex *Exec, st *State, fr *Frame, args []Value) (Value, ctlT) {
		return ex.rtypeIface(types.NewPointer(T(args[0].(IfaceVal).V))), ctlRet
	}
	reg("reflect.PtrTo", ptrTo)
	reg("reflect.PointerTo", ptrTo)
	reg("reflect.SliceOf", func(ex *Exec, st *State, fr *Frame, args []Value) (Value, ctlT) {
		return ex.rtypeIface(types.NewSlice(T(args[0].(IfaceVal).V))), ctlRet
	})
	reg("reflect.New", func(ex *Exec, st *State, fr *Frame, args []Value) (Value, ctlT) {
		t := T(args[0].(IfaceVal).V)
		p := st.newPtr(ex.zero(t))
		return RValue{T: types.NewPointer(t), V: p}, ctlRet
	})
	reg("reflect.Zero", func(ex *Exec, st *State, fr *Frame, args []Value) (Value, ctlT) {
		t := T(args[0].(IfaceVal).V)
		return RValue{T: t, V: ex.zero(t)}, ctlRet
	})
	reg("reflect.Indirect", func(ex *Exec, st *State, fr *Frame, args []Value) (Value, ctlT) {
		r := args[0].(RValue)
		if pt, ok := r.T.Underlying().(*types.Pointer); ok {
			p := st.rget(r).(PtrVal)
			if p.IsNil() {
				return RValue{}, ctlRet
			}
			return RValue{T: pt.Elem(), P: p, Addr: true}, ctlRet
		}
		return r, ctlRet
	})
	reg("reflect.MakeSlice", func(ex *Exec, st *State, fr *Frame, args []Value) (Value, ctlT) {
		t := T(args[0].(IfaceVal).V)
		elem := t.Underlying().(*types.Slice).Elem()
		lt, ct := args[1].(*Term), args[2].(*Term)
		n, ok := ex.sizeValue(st, lt, "reflect.MakeSlice len", elem)
		if !ok {
			return nil, ctlEnd
		}
		c := n
		if ct != lt {
			c, ok = ex.sizeValue(st, ct, "reflect.MakeSlice cap", elem)
			if !ok {
				return nil, ctlEnd
			}
		}
		if n < 0 {
			return ex.reflectPanic(st, "MakeSlice: negative len")
		}
		if c < n {
			return ex.reflectPanic(st, "MakeSlice: len > cap")
		}
		s := st.makeSlice(ex.zero(elem), n, c)
		s.NonNil = true
		return RValue{T: t, V: s}, ctlRet
	})

	// ----- Type methods -----
	rt("Kind", func(ex *Exec, st *State, fr *Frame, args []Value) (Value, ctlT) {
		return C(64, uint64(kindOf(T(args[0])))), ctlRet
	})
	rt("Elem", func(ex *Exec, st *State, fr *Frame, args []Value) (Value, ctlT) {
		switch u := T(args[0]).Underlying().(type) {
		case *types.Pointer:
			return ex.rtypeIface(u.Elem()), ctlRet
		case *types.Slice:
			return ex.rtypeIface(u.Elem()), ctlRet
		case *types.Array:
			return ex.rtypeIface(u.Elem()), ctlRet
		case *types.Map:
			return ex.rtypeIface(u.Elem()), ctlRet
		case *types.Chan:
			return ex.rtypeIface(u.Elem()), ctlRet
		}
		return ex.reflectPanic(st, "Elem of invalid type "+T(args[0]).String())
	})
	rt("Key", func(ex *Exec, st *State, fr *Frame, args []Value) (Value, ctlT) {
		return ex.rtypeIface(T(args[0]).Underlying().(*types.Map).Key()), ctlRet
	})
	rt("Len", func(ex *Exec, st *State, fr *Frame, args []Value) (Value, ctlT) {
		return C(64, uint64(T(args[0]).Underlying().(*types.Array).Len())), ctlRet
	})
	rt("NumField", func(ex *Exec, st *State, fr *Frame, args []Value) (Value, ctlT) {
		s, ok := T(args[0]).Underlying().(*types.Struct)
		if !ok {
			return ex.reflectPanic(st, "NumField of non-struct type "+T(args[0]).String())
		}
		return C(64, uint64(s.NumFields())), ctlRet
	})
	rt("Field", func(ex *Exec, st *State, fr *Frame, args []Value) (Value, ctlT) {
		i := ex.intArg(st, args[1], "Type.Field index")
		return ex.structFieldValue(st, T(args[0]), i, []int{i}), ctlRet
	})
	rt("String", func(ex *Exec, st *State, fr *Frame, args []Value) (Value, ctlT) {
		return StrVal{S: types.TypeString(T(args[0]), func(p *types.Package) string { return p.Name() })}, ctlRet
	})
	rt("Name", func(ex *Exec, st *State, fr *Frame, args []Value) (Value, ctlT) {
		switch n := T(args[0]).(type) {
		case *types.Named:
			return StrVal{S: n.Obj().Name()}, ctlRet
		case *types.Basic:
			return StrVal{S: n.Name()}, ctlRet
		}
		return StrVal{}, ctlRet
	})
	rt("PkgPath", func(ex *Exec, st *State, fr *Frame, args []Value) (Value, ctlT) {
		if n, ok := T(args[0]).(*types.Named); ok && n.Obj().Pkg() != nil {
			return StrVal{S: n.Obj().Pkg().Path()}, ctlRet
		}
		return StrVal{}, ctlRet
	})
	rt("Implements", func(ex *Exec, st *State, fr *Frame, args []Value) (Value, ctlT) {
		u := T(args[1].(IfaceVal).V)
		it, ok := u.Underlying().(*types.Interface)
		if !ok {
			return ex.reflectPanic(st, "non-interface type passed to Type.Implements")
		}
		return B(types.Implements(T(args[0]), it)), ctlRet
	})
	rt("AssignableTo", func(ex *Exec, st *State, fr *Frame, args []Value) (Value, ctlT) {
		return B(types.AssignableTo(T(args[0]), T(args[1].(IfaceVal).V))), ctlRet
	})
	rt("ConvertibleTo", func(ex *Exec, st *State, fr *Frame, args []Value) (Value, ctlT) {
		return B(types.ConvertibleTo(T(args[0]), T(args[1].(IfaceVal).V))), ctlRet
	})
	rt("Comparable", func(ex *Exec, st *State, fr *Frame, args []Value) (Value, ctlT) {
		return B(types.Comparable(T(args[0]))), ctlRet
	})
	rt("Size", func(ex *Exec, st *State, fr *Frame, args []Value) (Value, ctlT) {
		sz := types.SizesFor("gc", "amd64").Sizeof(T(args[0]))
		return C(64, uint64(sz)), ctlRet
	})
	rt("NumMethod", func(ex *Exec, st *State, fr *Frame, args []Value) (Value, ctlT) {
		return C(64, uint64(ex.prog.prog.MethodSets.MethodSet(T(args[0])).Len())), ctlRet
	})

	// ----- Value methods -----
	rv("IsValid", func(ex *Exec, st *State, fr *Frame, args []Value) (Value, ctlT) {
		return B(args[0].(RValue).Valid()), ctlRet
	})
	rv("Kind", func(ex *Exec, st *State, fr *Frame, args []Value) (Value, ctlT) {
		r := args[0].(RValue)
		if !r.Valid() {
			return C(64, 0), ctlRet
		}
		return C(64, uint64(kindOf(r.T))), ctlRet
	})
	rv("Type", func(ex *Exec, st *State, fr *Frame, args []Value) (Value, ctlT) {
		r := args[0].(RValue)
		if !r.Valid() {
			return ex.reflectPanic(st, "call of reflect.Value.Type on zero Value")
		}
		return ex.rtypeIface(r.T), ctlRet
	})
	rv("CanAddr", func(ex *Exec, st *State, fr *Frame, args []Value) (Value, ctlT) {
		return B(args[0].(RValue).Addr), ctlRet
	})
	rv("CanSet", func(ex *Exec, st *State, fr *Frame, args []Value) (Value, ctlT) {
		return B(args[0].(RValue).Addr), ctlRet
	})
	rv("CanInterface", func(ex *Exec, st *State, fr *Frame, args []Value) (Value, ctlT) {
		return tTrue, ctlRet
	})
	rv("Elem", func(ex *Exec, st *State, fr *Frame, args []Value) (Value, ctlT) {
		r := args[0].(RValue)
		if !r.Valid() {
			return ex.reflectPanic(st, "call of reflect.Value.Elem on zero Value")
		}
		switch u := r.T.Underlying().(type) {
		case *types.Pointer:
			p := st.rget(r).(PtrVal)
			if p.IsNil() {
				return RValue{}, ctlRet
			}
			return RValue{T: u.Elem(), P: p, Addr: true}, ctlRet
		case *types.Interface:
			iv := st.rget(r).(IfaceVal)
			if iv.T == nil {
				return RValue{}, ctlRet
			}
			return RValue{T: iv.T, V: iv.V}, ctlRet
		}
		return ex.reflectPanic(st, "call of reflect.Value.Elem on "+r.T.String())
	})
	rv("Addr", func(ex *Exec, st *State, fr *Frame, args []Value) (Value, ctlT) {
		r := args[0].(RValue)
		if !r.Addr {
			return ex.reflectPanic(st, "reflect.Value.Addr of unaddressable value")
		}
		return RValue{T: types.NewPointer(r.T), V: r.P}, ctlRet
	})
	rv("Interface", func(ex *Exec, st *State, fr *Frame, args []Value) (Value, ctlT) {
		r := args[0].(RValue)
		if !r.Valid() {
			return ex.reflectPanic(st, "call of reflect.Value.Interface on zero Value")
		}
		v := st.rget(r)
		if types.IsInterface(r.T) {
			return v, ctlRet
		}
		return IfaceVal{T: r.T, V: v}, ctlRet
	})
	rv("NumField", func(ex *Exec, st *State, fr *Frame, args []Value) (Value, ctlT) {
		r := args[0].(RValue)
		s, ok := r.T.Underlying().(*types.Struct)
		if !ok {
			return ex.reflectPanic(st, "call of reflect.Value.NumField on non-struct")
		}
		return C(64, uint64(s.NumFields())), ctlRet
	})
	field := func(ex *Exec, st *State, r RValue, i int) (RValue, bool) {
		s, ok := r.T.Underlying().(*types.Struct)
		if !ok || i < 0 || i >= s.NumFields() {
			return RValue{}, false
		}
		ft := s.Field(i).Type()
		if r.Addr {
			return RValue{T: ft, P: r.P.Field(i), Addr: true}, true
		}
		return RValue{T: ft, V: r.V.(StructVal)[i]}, true
	}
	rv("Field", func(ex *Exec, st *State, fr *Frame, args []Value) (Value, ctlT) {
		i := ex.intArg(st, args[1], "Value.Field index")
		f, ok := field(ex, st, args[0].(RValue), i)
		if !ok {
			return ex.reflectPanic(st, "Field index out of range / non-struct")
		}
		return f, ctlRet
	})
	rv("FieldByIndex", func(ex *Exec, st *State, fr *Frame, args []Value) (Value, ctlT) {
		r := args[0].(RValue)
		idx := args[1].(SliceVal)
		for k := 0; k < idx.Len; k++ {
			i := ex.intArg(st, st.sliceGet(idx, k), "FieldByIndex")
			if k > 0 {
				if pt, ok := r.T.Underlying().(*types.Pointer); ok {
					p := st.rget(r).(PtrVal)
					if p.IsNil() {
						return ex.reflectPanic(st, "indirection through nil pointer to embedded struct")
					}
					r = RValue{T: pt.Elem(), P: p, Addr: true}
				}
			}
			var ok bool
			r, ok = field(ex, st, r, i)
			if !ok {
				return ex.reflectPanic(st, "FieldByIndex on non-struct")
			}
		}
		return r, ctlRet
	})
	rv("Len", func(ex *Exec, st *State, fr *Frame, args []Value) (Value, ctlT) {
		r := args[0].(RValue)
		return ex.valueLen(st, st.rget(r)), ctlRet
	})
	rv("Cap", func(ex *Exec, st *State, fr *Frame, args []Value) (Value, ctlT) {
		r := args[0].(RValue)
		if s, ok := st.rget(r).(SliceVal); ok {
			return C(64, uint64(s.Cap)), ctlRet
		}
		return ex.reflectPanic(st, "Cap of non-slice")
	})
	rv("IsNil", func(ex *Exec, st *State, fr *Frame, args []Value) (Value, ctlT) {
		r := args[0].(RValue)
		if !r.Valid() {
			return ex.reflectPanic(st, "call of reflect.Value.IsNil on zero Value")
		}
		switch v := st.rget(r).(type) {
		case PtrVal:
			return B(v.IsNil()), ctlRet
		case SliceVal:
			return B(v.IsNil()), ctlRet
		case MapVal:
			return B(v.Obj == 0), ctlRet
		case ChanVal:
			return B(v.Obj == 0), ctlRet
		case IfaceVal:
			return B(v.T == nil), ctlRet
		case *FuncVal:
			return B(v == nil), ctlRet
		}
		return ex.reflectPanic(st, "IsNil of "+r.T.String())
	})
	rv("IsZero", func(ex *Exec, st *State, fr *Frame, args []Value) (Value, ctlT) {
		r := args[0].(RValue)
		return ex.valEq(st.rget(r), ex.zero(r.T)), ctlRet
	})
	rv("Index", func(ex *Exec, st *State, fr *Frame, args []Value) (Value, ctlT) {
		r := args[0].(RValue)
		idx := args[1].(*Term)
		switch u := r.T.Underlying().(type) {
		case *types.Slice:
			s := st.rget(r).(SliceVal)
			i, sym, ok := ex.indexCheck(st, idx, s.Len, "reflect slice")
			if !ok {
				return nil, ctlEnd
			}
			if sym != nil {
				i = int(ex.symIndex(st, sym, s.Len))
			}
			return RValue{T: u.Elem(), P: s.elemPtr(i), Addr: true}, ctlRet
		case *types.Array:
			i := ex.intArg(st, idx, "reflect array index")
			if i < 0 || i >= int(u.Len()) {
				return ex.reflectPanic(st, "array index out of range")
			}
			if r.Addr {
				return RValue{T: u.Elem(), P: r.P.Field(i), Addr: true}, ctlRet
			}
			return RValue{T: u.Elem(), V: r.V.(*ArrVal).Get(i)}, ctlRet
		case *types.Basic:
			s := st.rget(r).(StrVal)
			i := ex.intArg(st, idx, "reflect string index")
			if i < 0 || i >= s.Len() {
				return ex.reflectPanic(st, "string index out of range")
			}
			return RValue{T: types.Typ[types.Uint8], V: s.At(i)}, ctlRet
		}
		return ex.reflectPanic(st, "Index of "+r.T.String())
	})
	rv("Bool", func(ex *Exec, st *State, fr *Frame, args []Value) (Value, ctlT) {
		return st.rget(args[0].(RValue)), ctlRet
	})
	rv("Int", func(ex *Exec, st *State, fr *Frame, args []Value) (Value, ctlT) {
		r := args[0].(RValue)
		k := kindOf(r.T)
		if k < 2 || k > 6 {
			return ex.reflectPanic(st, "call of reflect.Value.Int on "+r.T.String())
		}
		return ex.tt.SExt(st.rget(r).(*Term), 64), ctlRet
	})
	rv("Uint", func(ex *Exec, st *State, fr *Frame, args []Value) (Value, ctlT) {
		r := args[0].(RValue)
		k := kindOf(r.T)
		if k < 7 || k > 12 {
			return ex.reflectPanic(st, "call of reflect.Value.Uint on "+r.T.String())
		}
		return ex.tt.ZExt(st.rget(r).(*Term), 64), ctlRet
	})
	rv("Float", func(ex *Exec, st *State, fr *Frame, args []Value) (Value, ctlT) {
		return st.rget(args[0].(RValue)), ctlRet
	})
	rv("String", func(ex *Exec, st *State, fr *Frame, args []Value) (Value, ctlT) {
		r := args[0].(RValue)
		if !r.Valid() {
			return StrVal{S: "<invalid Value>"}, ctlRet
		}
		if kindOf(r.T) == 24 {
			return st.rget(r), ctlRet
		}
		return StrVal{S: "<" + r.T.String() + " Value>"}, ctlRet
	})
	rv("Bytes", func(ex *Exec, st *State, fr *Frame, args []Value) (Value, ctlT) {
		r := args[0].(RValue)
		if s, ok := st.rget(r).(SliceVal); ok {
			return s, ctlRet
		}
		return ex.reflectPanic(st, "Bytes of non-byte-slice")
	})
	rv("Pointer", func(ex *Exec, st *State, fr *Frame, args []Value) (Value, ctlT) {
		r := args[0].(RValue)
		switch v := st.rget(r).(type) {
		case PtrVal:
			return C(64, uint64(v.Obj)<<20), ctlRet
		case SliceVal:
			return C(64, uint64(v.Base.Obj)<<20+uint64(v.Off)), ctlRet
		}
		return C(64, 0), ctlRet
	})
	setter := func(name string, conv func(ex *Exec, r RValue, v Value) Value) {
		rv(name, func(ex *Exec, st *State, fr *Frame, args []Value) (Value, ctlT) {
			r := args[0].(RValue)
			if !r.Addr {
				return ex.reflectPanic(st, "reflect.Value."+name+" using unaddressable value")
			}
			st.store(r.P, conv(ex, r, args[1]))
			return nil, ctlRet
		})
	}
	ident := func(ex *Exec, r RValue, v Value) Value { return v }
	setter("SetBool", ident)
	setter("SetString", ident)
	setter("SetBytes", ident)
	setter("SetFloat", ident)
	trunc := func(ex *Exec, r RValue, v Value) Value {
		w, _, _ := intWidth(r.T)
		t := v.(*Term)
		if w < 64 {
			return ex.tt.Extract(t, w-1, 0)
		}
		return t
	}
	setter("SetInt", trunc)
	setter("SetUint", trunc)
	rv("Set", func(ex *Exec, st *State, fr *Frame, args []Value) (Value, ctlT) {
		r := args[0].(RValue)
		x := args[1].(RValue)
		if !r.Addr {
			return ex.reflectPanic(st, "reflect.Value.Set using unaddressable value")
		}
		if !x.Valid() {
			return ex.reflectPanic(st, "reflect.Value.Set with zero Value")
		}
		v := st.rget(x)
		if types.IsInterface(r.T) && !types.IsInterface(x.T) {
			v = IfaceVal{T: x.T, V: v}
		} else if !types.AssignableTo(x.T, r.T) {
			return ex.reflectPanic(st, fmt.Sprintf("value of type %s is not assignable to type %s", x.T, r.T))
		}
		st.store(r.P, v)
		return nil, ctlRet
	})
	rv("SetLen", func(ex *Exec, st *State, fr *Frame, args []Value) (Value, ctlT) {
		r := args[0].(RValue)
		s := st.rget(r).(SliceVal)
		n := ex.intArg(st, args[1], "SetLen")
		if n < 0 || n > s.Cap {
			return ex.reflectPanic(st, "slice length out of range in SetLen")
		}
		s.Len = n
		st.store(r.P, s)
		return nil, ctlRet
	})
	reg("reflect.DeepEqual", func(ex *Exec, st *State, fr *Frame, args []Value) (Value, ctlT) {
		unsup("reflect.DeepEqual")
		return nil, ctlRet
	})
	reg("reflect.Copy", func(ex *Exec, st *State, fr *Frame, args []Value) (Value, ctlT) {
		d, s := args[0].(RValue), args[1].(RValue)
		return ex.builtinCopy(st, st.rget(d).(SliceVal), st.rget(s)), ctlRet
	})
}
