package main

import (
	"crypto/sha1"
	"encoding/json"
	"fmt"
	"os"
	"path/filepath"
	"runtime/debug"
	"sort"
	"strings"
	"sync"
	"time"

	"golang.org/x/tools/go/ssa"
)

// ---------- spec ----------

type HarnessSpec struct {
	Func     string            `json:"func"`
	Pkg      string            `json:"pkg"` // import path suffix relative to the repo ("" = root)
	Quick    [][]int           `json:"quick"`
	Thorough [][]int           `json:"thorough"`
	Unwind   int               `json:"unwind"`
	MaxSteps int64             `json:"max_steps"`
	Policy   map[string]string `json:"policy"` // failure kind -> violation|inconclusive|ok
	Reach    []string          `json:"reach"`  // witnesses that must be reached by at least one path (over all items)
	Timeout  int               `json:"timeout_s"`
	Desc     string            `json:"desc"`
	SplitCap int               `json:"split_cap"`
	MaxAlloc int               `json:"max_alloc"`
	Native   bool              `json:"native_replay"` // counterexamples can be replayed natively
	SolverMs int               `json:"solver_ms"`
	Bounds   string            `json:"bounds"`
	Gen      *GenSpec          `json:"gen"`
	CutCalls []string          `json:"cut_calls"` // package path prefixes: a path entering one of them ends there (outside the claim, counted)
}

// GenSpec generates work items from the registry of API message types found in the tree (after running init).
type GenSpec struct {
	Kind          string  `json:"kind"`  // api_versions
	Which         string  `json:"which"` // requests | responses
	QuickKeys     []int   `json:"quick_keys"`
	ThoroughKeys  []int   `json:"thorough_keys"` // nil = all registered
	QuickExtra    [][]int `json:"quick_extra"`
	ThoroughExtra [][]int `json:"thorough_extra"`
	FlexibleOnly  bool    `json:"flexible_only"`
	// additional argument tuples generated only for non-flexible versions (deeper frames: tagged-field parsing
	// of flexible versions multiplies paths by roughly 2 per body byte)
	QuickExtraNonFlex    [][]int `json:"quick_extra_nonflexible"`
	ThoroughExtraNonFlex [][]int `json:"thorough_extra_nonflexible"`
}

type PropSpec struct {
	ID        string            `json:"id"`
	Harnesses []HarnessSpec     `json:"harnesses"`
	Stubs     []string          `json:"stubs"`
	Assume    []string          `json:"assumptions"`
	Outside   []string          `json:"outside_bounds"`
	Bounds    map[string]string `json:"bounds"`
	BuildTags string            `json:"build_tags"` // extra build tags for loading the tree (e.g. purego)
}

type WorkItem struct {
	Spec *HarnessSpec
	Args []int
	Idx  int
}

type InputVal struct {
	Name string   `json:"name"`
	Kind string   `json:"kind"`
	Vals []uint64 `json:"vals"`
	W    uint8    `json:"w"`
}

type Violation struct {
	Harness string     `json:"harness"`
	Pkg     string     `json:"pkg"`
	Args    []int      `json:"args"`
	Kind    string     `json:"kind"`
	ID      string     `json:"id"`
	Msg     string     `json:"msg"`
	Inputs  []InputVal `json:"inputs"`
	Site    string     `json:"site"`
	Replay  string     `json:"replay_file,omitempty"`
	Status  string     `json:"status,omitempty"` // reproduced | spurious | engine-only | known
	Known   string     `json:"known,omitempty"`
}

type ItemResult struct {
	Item             WorkItem
	Paths            int
	PathsOK          int
	Infeasible       int
	Instrs           int64
	Asserts          int
	AssertsTrivial   int
	AssertsProved    int
	UnknownBranch    int
	AltDecided       int
	AbsDecided       int
	Inconclusive     []string
	Violations       []Violation
	Reached          map[string]int
	Samples          []map[string]interface{}
	Solver           SolverStats
	AltSolver        SolverStats
	Wall             time.Duration
	Funcs            map[string]int
	Fatal            string
	Forks            int
	DupViolations    int
	InconclusiveMore int
	Cuts             map[string]int
	CrossChecked     int
	CrossUnknown     int
}

// ---------- running one work item ----------

func (p *Program) newState(ex *Exec) *State {
	st := &State{
		ex:       ex,
		heap:     Heap{base: p.baseHeap, delta: map[ObjID]Value{}},
		nextObj:  p.baseNext,
		epoch:    newEpoch(),
		side:     map[string]interface{}{},
		lockset:  map[string]bool{},
		maxSteps: ex.cfg.MaxSteps,
		unwind:   ex.cfg.Unwind,
	}
	for k, v := range p.baseSide {
		st.side[k] = v
	}
	return st
}

func (ex *Exec) policyOf(spec *HarnessSpec, kind string) string {
	if spec != nil && spec.Policy != nil {
		if v, ok := spec.Policy[kind]; ok {
			return v
		}
	}
	switch kind {
	case "panic", "stackdepth":
		return "violation"
	case "infeasible":
		return "ok"
	}
	return "inconclusive"
}

func (ex *Exec) recordViolation(st *State, kind, id, msg string, model Model) {
	v := Violation{Kind: kind, ID: id, Msg: msg}
	if ex.out.Item.Spec != nil {
		v.Harness = ex.out.Item.Spec.Func
		v.Pkg = ex.out.Item.Spec.Pkg
		v.Args = ex.out.Item.Args
	}
	v.Inputs = inputsFromModel(st, model)
	if co := st.co(); len(co.frames) > 0 {
		v.Site = co.frames[len(co.frames)-1].fn.String()
	}
	// de-duplicate by id within the item: keep the first
	for _, o := range ex.out.Violations {
		if o.ID == v.ID && o.Kind == v.Kind {
			ex.out.DupViolations++
			return
		}
	}
	ex.out.Violations = append(ex.out.Violations, v)
}

func inputsFromModel(st *State, model Model) []InputVal {
	var out []InputVal
	for _, in := range st.inputs {
		iv := InputVal{Name: in.Name, Kind: in.Kind, W: in.W}
		if in.Kind == "Choose" {
			iv.Vals = []uint64{uint64(in.Val)}
		} else {
			for _, v := range in.Vars {
				iv.Vals = append(iv.Vals, model[v.Name])
			}
		}
		out = append(out, iv)
	}
	return out
}

// finishPath classifies the end of a path.
func (ex *Exec) finishPath(st *State) {
	ex.stats.Paths++
	ex.out.Paths++
	for _, r := range st.reached {
		ex.out.Reached[r]++
	}
	if st.fail == nil {
		ex.out.PathsOK++
		if len(ex.out.Samples) < 3 && len(st.inputs) > 0 && ex.out.PathsOK%7 == 1 {
			if ex.check(st.pc, nil) == Sat {
				m := ex.solver.GetModel(ex.tt.Vars)
				ex.out.Samples = append(ex.out.Samples, map[string]interface{}{"harness": ex.out.Item.Spec.Func, "args": ex.out.Item.Args, "path_witness_inputs": inputsFromModel(st, m), "reached": st.reached})
			}
		}
		return
	}
	f := st.fail
	switch f.Kind {
	case "infeasible":
		ex.out.Infeasible++
		return
	case "violation":
		return // already recorded by assert
	case "cut":
		if ex.out.Cuts == nil {
			ex.out.Cuts = map[string]int{}
		}
		ex.out.Cuts[f.ID]++
		ex.out.PathsOK++
		return
	}
	pol := ex.policyOf(ex.out.Item.Spec, f.Kind)
	switch pol {
	case "ok":
		ex.out.PathsOK++
	case "violation":
		var model Model
		if r := ex.check(st.pc, nil); r == Sat {
			if f.Kind == "unwind" || f.Kind == "steplimit" {
				model = ex.greedyModel(st) // a loop driven by input: prefer the input that makes it run longest
			} else {
				model = ex.smallModel(st)
			}
		} else if r == Unsat {
			ex.out.Infeasible++
			return
		} else {
			ex.out.Inconclusive = append(ex.out.Inconclusive, fmt.Sprintf("%s %s: solver unknown on final path condition", f.Kind, f.ID))
			return
		}
		id := f.Kind
		if f.ID != "" {
			id += ":" + f.ID
		}
		ex.recordViolation(st, f.Kind, id, f.Msg, model)
	default:
		msg := f.Kind + ": " + f.Msg
		if len(ex.out.Inconclusive) < 50 {
			ex.out.Inconclusive = append(ex.out.Inconclusive, msg)
		} else {
			ex.out.InconclusiveMore++
		}
	}
}

// smallModel returns a model of the current pc, preferring small sizes for blobs/iotas so that native replay is cheap.
// preferSmall: a counterexample whose blob / list lengths are small enough for a native replay (vhIota refuses
// more than 2^24 elements) is preferred; `first` is returned when the solvers find none within 5 s per attempt.
func (ex *Exec) preferSmall(st *State, extra *Term, first Model) Model {
	var lens []*Term
	for _, in := range st.inputs {
		if (in.Kind == "BlobLen" || in.Kind == "IotaLen") && in.Vars[0].W > 16 {
			lens = append(lens, in.Vars[0])
		}
	}
	if len(lens) == 0 {
		return first
	}
	for _, bound := range []uint64{1 << 12, 1 << 20} {
		small := extra
		if small == nil || small.IsTrue() {
			small = tTrue
		}
		already := true
		for _, v := range lens {
			small = ex.tt.And(small, ex.tt.Ult(v, C(v.W, bound)))
			if first[v.Name] >= bound {
				already = false
			}
		}
		if already {
			return first
		}
		r := ex.checkT(st.pc, small, 5000)
		if r == Sat {
			var m Model
			if ex.lastFromAlt {
				m = ex.alt.GetModel(ex.tt.Vars)
			} else {
				m = ex.solver.GetModel(ex.tt.Vars)
			}
			ex.donePending()
			return m
		}
		ex.donePending()
	}
	return first
}

// greedyModel: for unbounded-loop findings the witness should make the native run visibly long. Heuristic: push the
// symbolic inputs towards their largest values one after the other (counts and varint continuation bits grow),
// keeping the path condition satisfiable; at most 64 extra queries of 2 s.
func (ex *Exec) greedyModel(st *State) Model {
	extra := tTrue
	n := 0
	for _, in := range st.inputs {
		if in.Kind == "Choose" {
			continue
		}
		for _, v := range in.Vars {
			if n >= 64 || v.IsConst() || v.W == 0 {
				continue
			}
			n++
			try := ex.tt.And(extra, ex.tt.Eq(v, C(v.W, mask(v.W))))
			if ex.checkT(st.pc, try, 2000) == Sat {
				extra = try
			}
			ex.donePending()
		}
	}
	if ex.checkT(st.pc, extra, 5000) == Sat {
		var m Model
		if ex.lastFromAlt {
			m = ex.alt.GetModel(ex.tt.Vars)
		} else {
			m = ex.solver.GetModel(ex.tt.Vars)
		}
		ex.donePending()
		return m
	}
	ex.donePending()
	return ex.smallModel(st)
}

func (ex *Exec) smallModel(st *State) Model {
	var small *Term = tTrue
	for _, in := range st.inputs {
		if in.Kind == "BlobLen" || in.Kind == "IotaLen" {
			v := in.Vars[0]
			if v.W > 16 {
				small = ex.tt.And(small, ex.tt.Ult(v, C(v.W, 1<<16)))
			}
		}
	}
	if !small.IsTrue() {
		if ex.solver.Check(st.pc, small) == Sat {
			m := ex.solver.GetModel(ex.tt.Vars)
			ex.solver.DonePending()
			return m
		}
	}
	ex.solver.Check(st.pc, nil)
	return ex.solver.GetModel(ex.tt.Vars)
}

func (ex *Exec) runItem(p *Program, item WorkItem, fn *ssa.Function) (res *ItemResult) {
	t0 := time.Now()
	res = &ItemResult{Item: item, Reached: map[string]int{}, Funcs: map[string]int{}}
	ex.out = res
	ex.funcs = res.Funcs
	ex.tt = NewTermTable()
	ex.stats = ExecStats{}
	if ex.solver == nil {
		ex.solver = NewSolver("z3", ex.cfg.TimeoutMs, ex.tt)
	} else {
		ex.solver.Reset(ex.tt)
	}
	if ex.alt != nil {
		ex.alt.Close()
		ex.alt = nil
	}
	if ex.abs != nil {
		ex.abs.Close()
		ex.abs = nil
	}
	if ex.cross != nil {
		ex.cross.Close()
		ex.cross = nil
	}
	defer func() {
		res.Wall = time.Since(t0)
		res.Instrs = ex.stats.Instrs
		res.Forks = ex.stats.Forks
		res.Solver = ex.solver.Stats
		ex.solver.Stats = SolverStats{}
		if ex.alt != nil {
			res.AltSolver = ex.alt.Stats
		}
		if r := recover(); r != nil {
			if _, ok := r.(deadlineHit); ok {
				res.Inconclusive = append(res.Inconclusive, fmt.Sprintf("time limit hit with %d states pending", len(ex.work)))
				return
			}
			res.Fatal = fmt.Sprintf("engine panic: %v\n%s", r, debug.Stack())
		}
	}()
	st := p.newState(ex)
	st.coros = []*Coro{{id: 0, status: CoRunnable, name: "harness"}}
	args := make([]Value, len(item.Args))
	for i, a := range item.Args {
		args[i] = C(64, uint64(int64(a)))
	}
	if len(args) != len(fn.Params) {
		res.Fatal = fmt.Sprintf("harness %s takes %d parameters, spec gives %d", fn.Name(), len(fn.Params), len(args))
		return
	}
	ex.pushFrame(st, fn, args, nil, -1)
	ex.work = []*State{st}
	for len(ex.work) > 0 {
		s := ex.work[len(ex.work)-1]
		ex.work = ex.work[:len(ex.work)-1]
		ex.runState(s)
		if ex.cfg.MaxPaths > 0 && ex.stats.Paths >= ex.cfg.MaxPaths {
			res.Inconclusive = append(res.Inconclusive, fmt.Sprintf("path limit %d hit with %d states pending", ex.cfg.MaxPaths, len(ex.work)))
			break
		}
	}
	return
}

func (ex *Exec) runState(st *State) {
	defer func() {
		if r := recover(); r != nil {
			switch x := r.(type) {
			case pathEnd:
			case unsupported:
				st.fail = &Failure{Kind: "unsupported", Msg: x.msg + " at " + st.where()}
			case deadlineHit:
				panic(r)
			default:
				panic(fmt.Sprintf("%v (at %s)", r, st.where()))
			}
			st.done = true
		}
		ex.finishPath(st)
	}()
	for !st.done {
		ex.step(st)
	}
}

// site names the innermost repository function on the current stack (skipping harness and stdlib frames).
func (st *State) site() string {
	co := st.co()
	for i := len(co.frames) - 1; i >= 0; i-- {
		f := co.frames[i].fn
		if f.Pkg != nil && strings.HasPrefix(f.Pkg.Pkg.Path(), repoPath) && !strings.Contains(f.Name(), "VH_") && !strings.HasPrefix(f.Name(), "vh") {
			n := f.String()
			return strings.ReplaceAll(n, repoPath, "kafka")
		}
		if f.Pkg == nil && f.Parent() != nil {
			// closure: use the enclosing function's name
			n := f.String()
			if strings.Contains(n, repoPath) {
				return strings.ReplaceAll(n, repoPath, "kafka")
			}
		}
	}
	if len(co.frames) > 0 {
		return co.frames[len(co.frames)-1].fn.String()
	}
	return "?"
}

func (st *State) where() string {
	if len(st.coros) == 0 {
		return "?"
	}
	co := st.co()
	var parts []string
	for i := len(co.frames) - 1; i >= 0 && i >= len(co.frames)-6; i-- {
		f := co.frames[i]
		pos := ""
		if f.ip < len(f.block.Instrs) {
			pos = st.ex.prog.prog.Fset.Position(f.block.Instrs[f.ip].Pos()).String()
			if k := strings.LastIndex(pos, "/"); k >= 0 {
				pos = pos[k+1:]
			}
		}
		parts = append(parts, f.fn.String()+"@"+pos)
	}
	return strings.Join(parts, " < ")
}

// ---------- running a property ----------

type RunOptions struct {
	Prop     string
	Tier     string
	Workers  int
	Only     string
	Verbose  bool
	Seed     int64
	BudgetS  int
	NoReplay bool
}

func runProperty(p *Program, spec *PropSpec, opt RunOptions) []*ItemResult {
	var items []WorkItem
	for hi := range spec.Harnesses {
		h := &spec.Harnesses[hi]
		if opt.Only != "" && !strings.Contains(h.Func, opt.Only) {
			continue
		}
		sets := h.Quick
		if opt.Tier == "thorough" && h.Thorough != nil {
			sets = h.Thorough
		}
		if h.Gen != nil {
			sets = p.genItems(h.Gen, opt.Tier)
		}
		if sets == nil {
			sets = [][]int{{}}
		}
		for _, a := range sets {
			if f := os.Getenv("VH_ARGS"); f != "" && f != strings.Trim(fmt.Sprint(a), "[]") {
				continue // debugging aid: VH_ARGS="28 1 0" runs only the item with these arguments
			}
			items = append(items, WorkItem{Spec: h, Args: a, Idx: len(items)})
		}
	}
	results := make([]*ItemResult, len(items))
	ch := make(chan int)
	var wg sync.WaitGroup
	nw := opt.Workers
	if nw > len(items) {
		nw = len(items)
	}
	var mu sync.Mutex
	for w := 0; w < nw; w++ {
		wg.Add(1)
		go func() {
			defer wg.Done()
			ex := &Exec{prog: p}
			defer func() {
				if ex.solver != nil {
					ex.solver.Close()
				}
				if ex.alt != nil {
					ex.alt.Close()
				}
				if ex.abs != nil {
					ex.abs.Close()
				}
				if ex.cross != nil {
					ex.cross.Close()
				}
			}()
			for i := range ch {
				it := items[i]
				h := it.Spec
				ex.cfg = Config{Unwind: 64, MaxSteps: 20_000_000, TimeoutMs: 10000, SplitCap: 64, MaxAlloc: 1 << 24}
				if opt.Tier == "thorough" {
					ex.cfg.TimeoutMs = 60000
				}
				if h.Unwind > 0 {
					ex.cfg.Unwind = h.Unwind
				}
				if h.MaxSteps > 0 {
					ex.cfg.MaxSteps = h.MaxSteps
				}
				if h.SplitCap > 0 {
					ex.cfg.SplitCap = h.SplitCap
				}
				if h.MaxAlloc > 0 {
					ex.cfg.MaxAlloc = h.MaxAlloc
				}
				if h.SolverMs > 0 {
					ex.cfg.TimeoutMs = h.SolverMs
				}
				ex.cfg.CutCalls = h.CutCalls
				ex.cfg.SplitCutLarge = h.Policy["splitcap"] == "cut"
				to := h.Timeout
				if to == 0 {
					to = 600
				}
				if opt.Tier == "thorough" {
					to *= 6
				}
				ex.cfg.Deadline = time.Now().Add(time.Duration(to) * time.Second)
				ex.cfg.Trace = opt.Verbose && os.Getenv("VH_TRACE") != ""
				pkgPath := repoPath
				if h.Pkg != "" {
					pkgPath += "/" + h.Pkg
				}
				fn := p.findFunc(pkgPath, h.Func)
				var r *ItemResult
				if fn == nil {
					r = &ItemResult{Item: it, Fatal: "harness function not found: " + pkgPath + "." + h.Func}
				} else {
					r = ex.runItem(p, it, fn)
				}
				mu.Lock()
				results[i] = r
				if opt.Verbose {
					fmt.Fprintf(os.Stderr, "  item %s%v: paths=%d ok=%d viol=%d inconcl=%d asserts=%d(proved %d) queries=%d solver=%.1fs model=%.1fs alt=%.1fs wall=%.1fs %s\n",
						h.Func, it.Args, r.Paths, r.PathsOK, len(r.Violations), len(r.Inconclusive), r.Asserts, r.AssertsProved, r.Solver.Queries, r.Solver.Time.Seconds(), r.Solver.ModelTime.Seconds(), r.AltSolver.Time.Seconds(), r.Wall.Seconds(), firstLine(r.Fatal))
					for _, m := range r.Inconclusive {
						fmt.Fprintf(os.Stderr, "      inconclusive: %s\n", m)
					}
					for _, v := range r.Violations {
						m := v.Msg
						if len(m) > 160 {
							m = m[:160]
						}
						fmt.Fprintf(os.Stderr, "      violation: %s %s %s\n", v.Kind, v.ID, m)
					}
				}
				mu.Unlock()
			}
		}()
	}
	for i := range items {
		ch <- i
	}
	close(ch)
	wg.Wait()
	return results
}

func firstLine(s string) string {
	if i := strings.Index(s, "\n"); i >= 0 {
		return s[:i]
	}
	return s
}

// ---------- evidence ----------

type KnownFinding struct {
	Property string                 `json:"property"`
	ID       string                 `json:"id"`
	Harness  string                 `json:"harness"`
	Assert   string                 `json:"assertion"`
	ArgsLike []int                  `json:"args,omitempty"` // optional: exact args
	Status   string                 `json:"status"`         // open | fixed
	Commit   string                 `json:"commit,omitempty"`
	What     string                 `json:"what"`
	Pred     map[string]interface{} `json:"predicate,omitempty"`
}

func loadKnown(path string) []KnownFinding {
	b, err := os.ReadFile(path)
	if err != nil {
		return nil
	}
	var f struct {
		Findings []KnownFinding `json:"findings"`
	}
	if json.Unmarshal(b, &f) != nil {
		return nil
	}
	return f.Findings
}

func matchKnown(kf []KnownFinding, prop string, v *Violation) *KnownFinding {
	for i := range kf {
		k := &kf[i]
		if k.Status != "open" || k.Property != prop || k.Harness != v.Harness || k.Assert != v.ID {
			continue
		}
		if k.ArgsLike != nil {
			if fmt.Sprint(k.ArgsLike) != fmt.Sprint(v.Args) {
				continue
			}
		}
		return k
	}
	return nil
}

func hashOf(v interface{}) string {
	b, _ := json.Marshal(v)
	return fmt.Sprintf("%x", sha1.Sum(b))[:12]
}

func writeJSON(path string, v interface{}) error {
	b, err := json.MarshalIndent(v, "", " ")
	if err != nil {
		return err
	}
	os.MkdirAll(filepath.Dir(path), 0o755)
	return os.WriteFile(path, b, 0o644)
}

func sortedKeys(m map[string]int) []string {
	var ks []string
	for k := range m {
		ks = append(ks, k)
	}
	sort.Strings(ks)
	return ks
}
