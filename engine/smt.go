package main

// SMT-LIB2 back end: one solver process per worker, kept alive; assertion stack aligned with the path condition.

import (
	"bufio"
	"fmt"
	"io"
	"os"
	"os/exec"
	"strconv"
	"strings"
	"sync"
	"time"
)

type SatResult int

const (
	Unsat SatResult = iota
	Sat
	Unknown
)

func (r SatResult) String() string { return [...]string{"unsat", "sat", "unknown"}[r] }

type SolverStats struct {
	Queries, SatN, UnsatN, UnknownN int
	Time                            time.Duration
	Restarts                        int
	ModelTime                       time.Duration
}

type Solver struct {
	kind       string // z3 | z3-new | cvc5 | cvc5-int
	timeoutMs  int
	cmd        *exec.Cmd
	in         io.WriteCloser
	out        *bufio.Reader
	tt         *TermTable
	defined    map[uint32]bool
	declVars   int
	declUFs    int
	stack      []*Term
	Stats      SolverStats
	buf        strings.Builder
	log        io.Writer
	dead       bool
	lastExtra  bool
	curTimeout int
	abstract   bool                // emit div/rem by symbolic divisors as uninterpreted functions + lemmas (over-approximation)
	absIn      map[uint32][]uint32 // term id -> abstracted sub-terms below it
	absTerm    map[uint32]*Term
	lemmaAt    map[uint32]int // abstract term id -> stack depth its lemma was asserted at
	absDecl    map[string]bool
}

func NewSolver(kind string, timeoutMs int, tt *TermTable) *Solver {
	s := &Solver{kind: kind, timeoutMs: timeoutMs, tt: tt}
	s.start()
	return s
}

func (s *Solver) start() {
	var args []string
	var bin string
	switch s.kind {
	case "z3":
		bin = z3Binary()
		args = []string{"-in", "-memory:3072"}
	case "z3-old":
		bin = "/usr/bin/z3"
		args = []string{"-in", "-memory:3072"}
	case "z3-new":
		bin = "z3-new"
		args = []string{"-in", "-memory:3072"}
	case "cvc5":
		bin = "cvc5"
		args = []string{"--incremental", "--produce-models", "--lang=smt2", fmt.Sprintf("--tlimit-per=%d", s.timeoutMs), "-q"}
	case "cvc5-int":
		bin = "cvc5"
		args = []string{"--incremental", "--produce-models", "--lang=smt2", "--solve-bv-as-int=sum", fmt.Sprintf("--tlimit-per=%d", s.timeoutMs), "-q"}
	default:
		panic("unknown solver " + s.kind)
	}
	cmd := exec.Command(bin, args...)
	in, _ := cmd.StdinPipe()
	out, _ := cmd.StdoutPipe()
	cmd.Stderr = nil
	if err := cmd.Start(); err != nil {
		panic(err)
	}
	s.cmd, s.in, s.out = cmd, in, bufio.NewReaderSize(out, 1<<16)
	s.defined = map[uint32]bool{}
	s.absIn = map[uint32][]uint32{}
	s.absTerm = map[uint32]*Term{}
	s.lemmaAt = map[uint32]int{}
	s.absDecl = map[string]bool{}
	s.declVars, s.declUFs = 0, 0
	s.stack = nil
	s.dead = false
	if f := os.Getenv("VH_SMTLOG"); f != "" && s.log == nil && s.kind == "z3" && !s.abstract {
		s.log, _ = os.Create(fmt.Sprintf("%s.%d", f, time.Now().UnixNano()))
	}
	s.send("(set-option :global-declarations true)\n")
	if strings.HasPrefix(s.kind, "z3") {
		s.send(fmt.Sprintf("(set-option :timeout %d)\n", s.timeoutMs))
	} else {
		s.send("(set-logic ALL)\n")
	}
}

func (s *Solver) Close() {
	if s.cmd != nil {
		s.in.Close()
		s.cmd.Process.Kill()
		s.cmd.Wait()
		s.cmd = nil
	}
}

// Reset drops everything and rebinds to a new term table.
func (s *Solver) Reset(tt *TermTable) {
	s.Close()
	s.tt = tt
	s.start()
	s.Stats.Restarts++
}

func (s *Solver) send(txt string) {
	if s.log != nil {
		io.WriteString(s.log, txt)
	}
	if _, err := io.WriteString(s.in, txt); err != nil {
		s.dead = true
	}
}

func (s *Solver) readLine() string {
	line, err := s.out.ReadString('\n')
	if err != nil {
		s.dead = true
		return "(error \"solver died\")"
	}
	return strings.TrimSpace(line)
}

func sortOf(w uint8) string {
	if w == 0 {
		return "Bool"
	}
	return fmt.Sprintf("(_ BitVec %d)", w)
}

func constStr(t *Term) string {
	if t.W == 0 {
		if t.Val != 0 {
			return "true"
		}
		return "false"
	}
	if t.W%4 == 0 {
		return fmt.Sprintf("#x%0*x", int(t.W/4), t.Val)
	}
	return fmt.Sprintf("#b%0*b", int(t.W), t.Val)
}

func smtName(n string) string {
	ok := true
	for _, c := range n {
		if !(c >= 'a' && c <= 'z' || c >= 'A' && c <= 'Z' || c >= '0' && c <= '9' || c == '_' || c == '.' || c == '-') {
			ok = false
		}
	}
	if ok {
		return n
	}
	return "|" + strings.ReplaceAll(n, "|", "!") + "|"
}

// ref returns the textual reference to a term, emitting definitions for it as needed.
func (s *Solver) ref(t *Term) string {
	switch t.Op {
	case OpConst:
		return constStr(t)
	case OpVar:
		if !s.defined[t.ID] {
			s.defined[t.ID] = true
			fmt.Fprintf(&s.buf, "(declare-const %s %s)\n", smtName(t.Name), sortOf(t.W))
		}
		return smtName(t.Name)
	}
	if s.defined[t.ID] {
		return "t" + strconv.Itoa(int(t.ID))
	}
	// iterative post-order to avoid deep recursion
	type fr struct {
		t *Term
		i int
	}
	st := []fr{{t, 0}}
	for len(st) > 0 {
		f := &st[len(st)-1]
		if f.i < 3 && f.t.A[f.i] != nil {
			c := f.t.A[f.i]
			f.i++
			if c.Op != OpConst && !s.defined[c.ID] {
				if c.Op == OpVar {
					s.ref(c)
				} else {
					st = append(st, fr{c, 0})
				}
			}
			continue
		}
		x := f.t
		st = st[:len(st)-1]
		if s.defined[x.ID] {
			continue
		}
		s.defined[x.ID] = true
		if s.abstract && x.Hard {
			var set []uint32
			for i := 0; i < 3 && x.A[i] != nil; i++ {
				if c := x.A[i]; c.Hard {
					set = mergeIDs(set, s.absIn[c.ID])
				}
			}
			if isAbsOp(x) {
				set = mergeIDs(set, []uint32{x.ID})
				s.absTerm[x.ID] = x
				name := fmt.Sprintf("abs_%s_%d", opNames[x.Op], x.W)
				if !s.absDecl[name] {
					s.absDecl[name] = true
					fmt.Fprintf(&s.buf, "(declare-fun %s (%s %s) %s)\n", name, sortOf(x.W), sortOf(x.W), sortOf(x.W))
				}
			}
			s.absIn[x.ID] = set
		}
		fmt.Fprintf(&s.buf, "(define-fun t%d () %s ", x.ID, sortOf(x.W))
		s.body(x)
		s.buf.WriteString(")\n")
	}
	return "t" + strconv.Itoa(int(t.ID))
}

func (s *Solver) aref(t *Term) string {
	switch t.Op {
	case OpConst:
		return constStr(t)
	case OpVar:
		return smtName(t.Name)
	}
	return "t" + strconv.Itoa(int(t.ID))
}

func isAbsOp(x *Term) bool {
	switch x.Op {
	case OpUdiv, OpUrem, OpSdiv, OpSrem:
		return x.A[1].Op != OpConst
	case OpMul:
		return x.A[0].Op != OpConst && x.A[1].Op != OpConst
	}
	return false
}

func mergeIDs(a, b []uint32) []uint32 {
	if len(a) == 0 {
		return b
	}
	if len(b) == 0 {
		return a
	}
	out := make([]uint32, 0, len(a)+len(b))
	i, j := 0, 0
	for i < len(a) && j < len(b) {
		switch {
		case a[i] == b[j]:
			out = append(out, a[i])
			i++
			j++
		case a[i] < b[j]:
			out = append(out, a[i])
			i++
		default:
			out = append(out, b[j])
			j++
		}
	}
	out = append(out, a[i:]...)
	out = append(out, b[j:]...)
	return out
}

// lemmas emits valid facts about an abstracted term (so that range reasoning does not need the divider circuit).
func (s *Solver) lemmas(x *Term) string {
	t := "t" + strconv.Itoa(int(x.ID))
	a, b := s.aref(x.A[0]), s.aref(x.A[1])
	z := constStr(C(x.W, 0))
	switch x.Op {
	case OpUrem:
		return fmt.Sprintf("(and (=> (not (= %s %s)) (bvult %s %s)) (=> (= %s %s) (= %s %s)) (bvule %s %s))", b, z, t, b, b, z, t, a, t, a)
	case OpUdiv:
		return fmt.Sprintf("(and (=> (not (= %s %s)) (bvule %s %s)) (=> (bvult %s %s) (= %s %s)))", b, z, t, a, a, b, t, z)
	case OpSrem:
		return fmt.Sprintf("(and (=> (bvsgt %s %s) (and (bvslt %s %s) (bvslt (bvneg %s) %s))) (=> (bvsge %s %s) (bvsge %s %s)) (=> (bvsle %s %s) (bvsle %s %s)))",
			b, z, t, b, b, t, a, z, t, z, a, z, t, z)
	case OpSdiv:
		return fmt.Sprintf("(=> (and (bvsge %s %s) (bvsgt %s %s)) (and (bvsge %s %s) (bvsle %s %s)))", a, z, b, z, t, z, t, a)
	}
	return "true"
}

func (s *Solver) body(x *Term) {
	b := &s.buf
	if s.abstract && isAbsOp(x) {
		fmt.Fprintf(b, "(abs_%s_%d %s %s)", opNames[x.Op], x.W, s.aref(x.A[0]), s.aref(x.A[1]))
		return
	}
	switch x.Op {
	case OpExtract:
		fmt.Fprintf(b, "((_ extract %d %d) %s)", x.Imm1, x.Imm2, s.aref(x.A[0]))
	case OpZExt:
		fmt.Fprintf(b, "((_ zero_extend %d) %s)", x.W-x.A[0].W, s.aref(x.A[0]))
	case OpSExt:
		fmt.Fprintf(b, "((_ sign_extend %d) %s)", x.W-x.A[0].W, s.aref(x.A[0]))
	case OpUF:
		d := s.tt.UFs[x.Imm1]
		fmt.Fprintf(b, "(%s", d.Name)
		for i := 0; i < 3 && x.A[i] != nil; i++ {
			b.WriteString(" " + s.aref(x.A[i]))
		}
		b.WriteString(")")
	default:
		b.WriteString("(" + opNames[x.Op])
		for i := 0; i < 3 && x.A[i] != nil; i++ {
			b.WriteString(" " + s.aref(x.A[i]))
		}
		b.WriteString(")")
	}
}

func (s *Solver) declareUFs() {
	for s.declUFs < len(s.tt.UFs) {
		d := s.tt.UFs[s.declUFs]
		fmt.Fprintf(&s.buf, "(declare-fun %s (", d.Name)
		for _, w := range d.ArgW {
			s.buf.WriteString(sortOf(w) + " ")
		}
		fmt.Fprintf(&s.buf, ") %s)\n", sortOf(d.ResW))
		s.declUFs++
	}
}

func (s *Solver) flush() {
	if s.buf.Len() > 0 {
		s.send(s.buf.String())
		s.buf.Reset()
	}
}

// syncStack aligns the solver's assertion stack with pc.
func (s *Solver) syncStack(pc []*Term) {
	k := 0
	for k < len(pc) && k < len(s.stack) && pc[k] == s.stack[k] {
		k++
	}
	if n := len(s.stack) - k; n > 0 {
		fmt.Fprintf(&s.buf, "(pop %d)\n", n)
		s.stack = s.stack[:k]
		for id, lvl := range s.lemmaAt {
			if lvl > k {
				delete(s.lemmaAt, id)
			}
		}
	}
	s.declareUFs()
	for _, t := range pc[k:] {
		r := s.ref(t)
		fmt.Fprintf(&s.buf, "(push 1)\n(assert %s)\n", r)
		s.stack = append(s.stack, t)
		s.assertLemmas(t, len(s.stack))
	}
}

func (s *Solver) assertLemmas(t *Term, level int) {
	if !s.abstract || !t.Hard {
		return
	}
	for _, id := range s.absIn[t.ID] {
		if _, ok := s.lemmaAt[id]; ok {
			continue
		}
		s.lemmaAt[id] = level
		fmt.Fprintf(&s.buf, "(assert %s)\n", s.lemmas(s.absTerm[id]))
	}
}

// Check decides pc ∧ extra. extra may be nil.
func (s *Solver) Check(pc []*Term, extra *Term) SatResult {
	if s.dead {
		s.Reset(s.tt)
	}
	t0 := time.Now()
	s.syncStack(pc)
	if extra != nil {
		r := s.ref(extra)
		fmt.Fprintf(&s.buf, "(push 1)\n(assert %s)\n", r)
		s.assertLemmas(extra, len(s.stack)+1)
	}
	s.buf.WriteString("(check-sat)\n")
	s.flush()
	// hard watchdog: the solvers' own time limit is cooperative and some preprocessing steps never look at it
	// (a single query of C13's thorough tier ran for 18 CPU-minutes). Twice the budget plus 10 s, then the
	// process is killed, the answer is "unknown" and the next query starts a fresh process.
	budget := s.curTimeout
	if budget <= 0 {
		budget = s.timeoutMs
	}
	proc := s.cmd.Process
	watchdog := time.AfterFunc(time.Duration(2*budget)*time.Millisecond+10*time.Second, func() {
		if proc != nil {
			proc.Kill()
		}
	})
	defer watchdog.Stop()
	res := Unknown
	for {
		line := s.readLine()
		if line == "" {
			continue
		}
		switch {
		case line == "sat":
			res = Sat
		case line == "unsat":
			res = Unsat
		case line == "unknown" || line == "timeout":
			res = Unknown
		case strings.HasPrefix(line, "(error"):
			res = Unknown
			if s.log != nil {
				fmt.Fprintf(s.log, "; ERROR %s\n", line)
			}
			if !s.dead {
				// there may be a following verdict line; consume it
				continue
			}
		case line == "unsupported" || line == "success":
			continue
		default:
			continue
		}
		break
	}
	s.lastExtra = extra != nil
	if extra != nil && res != Sat {
		s.send("(pop 1)\n")
		s.lastExtra = false
		s.dropLemmasAbove(len(s.stack))
	}
	s.Stats.Queries++
	switch res {
	case Sat:
		s.Stats.SatN++
	case Unsat:
		s.Stats.UnsatN++
	default:
		s.Stats.UnknownN++
	}
	s.Stats.Time += time.Since(t0)
	if slowLog && time.Since(t0) > 2*time.Second {
		x := ""
		if extra != nil {
			x = extra.String()
			if len(x) > 600 {
				x = x[:600]
			}
		}
		fmt.Fprintf(os.Stderr, "SLOW %s %.1fs res=%v pc=%d extra=%s\n", s.kind, time.Since(t0).Seconds(), res, len(pc), x)
	}
	return res
}

var slowLog = os.Getenv("VH_SLOW") != ""

// After a Sat result with extra != nil the extra frame is still pushed so that GetModel can be asked;
// DonePending pops it.
func (s *Solver) DonePending() {
	if s.lastExtra {
		s.send("(pop 1)\n")
		s.lastExtra = false
		s.dropLemmasAbove(len(s.stack))
	}
}

func (s *Solver) dropLemmasAbove(k int) {
	for id, lvl := range s.lemmaAt {
		if lvl > k {
			delete(s.lemmaAt, id)
		}
	}
}

// SetTimeout changes the per-query timeout (z3 only).
func (s *Solver) SetTimeout(ms int) {
	if strings.HasPrefix(s.kind, "z3") && ms != s.curTimeout {
		s.send(fmt.Sprintf("(set-option :timeout %d)\n", ms))
		s.curTimeout = ms
	}
}

// GetModel returns values for the given variables (must follow a Sat result, before DonePending).
func (s *Solver) GetModel(vars []*Term) Model {
	t0 := time.Now()
	defer func() { s.Stats.ModelTime += time.Since(t0) }()
	return s.getModelRaw(vars)
}

func (s *Solver) getModelRaw(vars []*Term) Model {
	m := Model{}
	if len(vars) == 0 {
		return m
	}
	var sb strings.Builder
	sb.WriteString("(get-value (")
	for _, v := range vars {
		if !s.defined[v.ID] {
			// never sent to the solver: unconstrained
			m[v.Name] = 0
			continue
		}
		sb.WriteString(smtName(v.Name) + " ")
	}
	sb.WriteString("))\n")
	s.send(sb.String())
	// read balanced s-expression
	depth := 0
	started := false
	var acc strings.Builder
	for {
		line := s.readLine()
		if strings.HasPrefix(line, "(error") {
			break
		}
		acc.WriteString(line + " ")
		for _, c := range line {
			if c == '(' {
				depth++
				started = true
			} else if c == ')' {
				depth--
			}
		}
		if started && depth <= 0 {
			break
		}
		if s.dead {
			break
		}
	}
	parseModel(acc.String(), m)
	return m
}

func parseModel(txt string, m Model) {
	// tokens: ( ( name value ) ( name value ) )
	toks := tokenize(txt)
	for i := 0; i+3 < len(toks); i++ {
		if toks[i] == "(" && toks[i+1] != "(" && toks[i+3] == ")" {
			name := strings.Trim(toks[i+1], "|")
			val := toks[i+2]
			var v uint64
			switch {
			case strings.HasPrefix(val, "#x"):
				v, _ = strconv.ParseUint(val[2:], 16, 64)
			case strings.HasPrefix(val, "#b"):
				v, _ = strconv.ParseUint(val[2:], 2, 64)
			case val == "true":
				v = 1
			case val == "false":
				v = 0
			default:
				continue
			}
			m[name] = v
		}
	}
}

func tokenize(txt string) []string {
	var toks []string
	i := 0
	for i < len(txt) {
		c := txt[i]
		switch {
		case c == '(' || c == ')':
			toks = append(toks, string(c))
			i++
		case c == ' ' || c == '\n' || c == '\t' || c == '\r':
			i++
		case c == '|':
			j := strings.IndexByte(txt[i+1:], '|')
			if j < 0 {
				return toks
			}
			toks = append(toks, txt[i:i+j+2])
			i += j + 2
		default:
			j := i
			for j < len(txt) && txt[j] != '(' && txt[j] != ')' && txt[j] != ' ' && txt[j] != '\n' {
				j++
			}
			toks = append(toks, txt[i:j])
			i = j
		}
	}
	return toks
}

// GetValue returns the value of an arbitrary term in the current model (after Sat).
func (s *Solver) GetValue(t *Term) uint64 {
	if t.IsConst() {
		return t.Val
	}
	t0 := time.Now()
	defer func() { s.Stats.ModelTime += time.Since(t0) }()
	if !t.HasUF && !s.abstract {
		// evaluating a large shared term inside the solver is slow (macro expansion per call): fetch the values
		// of the variables it depends on and evaluate here
		var vars []*Term
		seen := map[*Term]bool{}
		var walk func(x *Term)
		walk = func(x *Term) {
			if x == nil || seen[x] {
				return
			}
			seen[x] = true
			if x.Op == OpVar {
				vars = append(vars, x)
				return
			}
			for _, a := range x.A {
				walk(a)
			}
		}
		walk(t)
		if len(vars) <= 64 {
			m := s.getModelRaw(vars)
			return evalTerm(t, m, nil, map[*Term]uint64{})
		}
	}
	r := s.ref(t)
	s.flush()
	s.send("(get-value (" + r + "))\n")
	depth := 0
	started := false
	var acc strings.Builder
	for {
		line := s.readLine()
		if strings.HasPrefix(line, "(error") {
			break
		}
		acc.WriteString(line + " ")
		for _, c := range line {
			if c == '(' {
				depth++
				started = true
			} else if c == ')' {
				depth--
			}
		}
		if (started && depth <= 0) || s.dead {
			break
		}
	}
	m := Model{}
	parseModel(acc.String(), m)
	for _, v := range m {
		return v
	}
	return 0
}

// z3Binary: the primary z3. z3 4.8.12 (/usr/bin/z3) spends ~12 ms in every get-value once a few thousand
// define-funs exist; the 5.1.0 build (z3-new) does not, so it is preferred when present. VH_Z3 overrides.
var z3BinOnce sync.Once
var z3Bin string

func z3Binary() string {
	z3BinOnce.Do(func() {
		z3Bin = os.Getenv("VH_Z3")
		if z3Bin == "" {
			z3Bin = "z3"
			if _, err := exec.LookPath("z3-new"); err == nil {
				z3Bin = "z3-new"
			}
		}
	})
	return z3Bin
}
