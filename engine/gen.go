package main

import "go/types"

type apiVer struct {
	Key      int
	Version  int
	Flexible bool
}

// apiVersions reads protocol.apiTypes from the post-init heap: what the tree registers right now.
func (p *Program) apiVersions(which string) []apiVer {
	pk := p.byPath[repoPath+"/protocol"]
	g := pk.Var("apiTypes")
	st := &State{heap: Heap{base: p.baseHeap, delta: map[ObjID]Value{}}}
	st.ex = &Exec{prog: p, tt: NewTermTable()}
	arr := st.objGet(p.globalID(g)).(*ArrVal)
	at := pk.Type("apiType").Type()
	mt := pk.Type("messageType").Type()
	fi := fieldIndex(at, which)
	vi, fl := fieldIndex(mt, "version"), fieldIndex(mt, "flexible")
	var out []apiVer
	for k := 0; k < arr.N; k++ {
		sv := arr.Get(k).(StructVal)
		sl := sv[fi].(SliceVal)
		for i := 0; i < sl.Len; i++ {
			m := st.sliceGet(sl, i).(StructVal)
			out = append(out, apiVer{Key: k, Version: int(m[vi].(*Term).SVal()), Flexible: m[fl].(*Term).IsTrue()})
		}
	}
	return out
}

func (p *Program) genItems(g *GenSpec, tier string) [][]int {
	keys := g.QuickKeys
	extra := g.QuickExtra
	nonflex := g.QuickExtraNonFlex
	if tier == "thorough" {
		nonflex = g.ThoroughExtraNonFlex
		keys = g.ThoroughKeys
		if g.ThoroughExtra != nil {
			extra = g.ThoroughExtra
		}
	}
	if extra == nil {
		extra = [][]int{{}}
	}
	want := map[int]bool{}
	for _, k := range keys {
		want[k] = true
	}
	var items [][]int
	for _, av := range p.apiVersions(g.Which) {
		if keys != nil && !want[av.Key] {
			continue
		}
		if g.FlexibleOnly && !av.Flexible {
			continue
		}
		for _, e := range extra {
			it := append([]int{av.Key, av.Version}, e...)
			items = append(items, it)
		}
		if !av.Flexible {
			for _, e := range nonflex {
				items = append(items, append([]int{av.Key, av.Version}, e...))
			}
		}
	}
	return items
}

var _ = types.Typ
