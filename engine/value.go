package main

import (
	"fmt"
	"go/types"
	"strings"

	"golang.org/x/tools/go/ssa"
)

// Value is one of: *Term, StrVal, SliceVal, PtrVal, StructVal, *ArrVal, IfaceVal, *FuncVal, MapVal, ChanVal,
// TupleVal, FloatVal, *RType (reflect.Type payload), RValue (reflect.Value payload), nil (absent).
type Value interface{}

type ObjID int32

type StrVal struct {
	S string
	T []*Term // non-nil => symbolic bytes (len(T) is the length); S ignored
}

func (s StrVal) Len() int {
	if s.T != nil {
		return len(s.T)
	}
	return len(s.S)
}

func (s StrVal) At(i int) *Term {
	if s.T != nil {
		return s.T[i]
	}
	return C(8, uint64(s.S[i]))
}

func (s StrVal) Concrete() (string, bool) {
	if s.T == nil {
		return s.S, true
	}
	b := make([]byte, len(s.T))
	for i, t := range s.T {
		if !t.IsConst() {
			return "", false
		}
		b[i] = byte(t.Val)
	}
	return string(b), true
}

func mkStr(ts []*Term) StrVal {
	b := make([]byte, len(ts))
	for i, t := range ts {
		if !t.IsConst() {
			if len(ts) == 0 {
				return StrVal{}
			}
			return StrVal{T: ts}
		}
		b[i] = byte(t.Val)
	}
	return StrVal{S: string(b)}
}

type PtrVal struct {
	Obj  ObjID
	Path []int32
	Sym  *Term // optional symbolic final index (array element); Path then addresses the array
	SymLo, SymN int // window of the array the symbolic index ranges over (SymN == 0: whole array)
}

func (p PtrVal) IsNil() bool { return p.Obj == 0 }

func (p PtrVal) Field(i int) PtrVal {
	np := make([]int32, len(p.Path)+1)
	copy(np, p.Path)
	np[len(p.Path)] = int32(i)
	return PtrVal{Obj: p.Obj, Path: np}
}

func (p PtrVal) Key() string {
	var sb strings.Builder
	fmt.Fprintf(&sb, "%d", p.Obj)
	for _, x := range p.Path {
		fmt.Fprintf(&sb, ".%d", x)
	}
	return sb.String()
}

func samePtr(a, b PtrVal) bool {
	if a.Obj != b.Obj || len(a.Path) != len(b.Path) {
		return false
	}
	for i := range a.Path {
		if a.Path[i] != b.Path[i] {
			return false
		}
	}
	return a.Sym == b.Sym && a.SymLo == b.SymLo
}

const (
	SliceNormal = iota
	SliceBlob   // symbolic length, contents unreadable
	SliceIota   // symbolic length, s[i] == i
)

type SliceVal struct {
	Base          PtrVal // pointer to the backing *ArrVal; Obj==0 => nil slice
	Off, Len, Cap int
	Kind          uint8
	LenT          *Term // Blob/Iota: the length (width 64); SliceNormal: non-nil => the length is symbolic (0<=LenT<=Cap), Len is poisoned
	NonNil        bool  // zero-length but non-nil slice without backing
}

// symLenPoison is stored in Len of a slice whose length is symbolic, so that code unaware of LenT fails loudly.
const symLenPoison = 1 << 40

func (s SliceVal) SymLen() bool { return s.Kind == SliceNormal && s.LenT != nil }

func (s SliceVal) IsNil() bool { return s.Base.Obj == 0 && !s.NonNil && s.Kind == SliceNormal }

type StructVal []Value

type ArrVal struct {
	N      int
	Def    Value
	Elems  []Value   // flat, len N, when N <= arrFlatMax (nil => all default)
	Chunks [][]Value // chunked, when N > arrFlatMax
	owner  uint64
	sharedChunks bool
	ownedChunks  map[int]bool
}

const arrFlatMax = 2048
const arrChunk = 256

func newArr(n int, def Value) *ArrVal { return &ArrVal{N: n, Def: def} }

func (a *ArrVal) Get(i int) Value {
	if a.N <= arrFlatMax {
		if a.Elems == nil {
			return a.Def
		}
		return a.Elems[i]
	}
	if a.Chunks == nil {
		return a.Def
	}
	c := a.Chunks[i/arrChunk]
	if c == nil {
		return a.Def
	}
	return c[i%arrChunk]
}

// Set returns an array with element i replaced; in place when owned by epoch.
func (a *ArrVal) Set(i int, v Value, epoch uint64) *ArrVal {
	r := a
	if a.owner != epoch || epoch == 0 {
		r = &ArrVal{N: a.N, Def: a.Def, owner: epoch}
		if a.N <= arrFlatMax {
			if a.Elems != nil {
				r.Elems = make([]Value, a.N)
				copy(r.Elems, a.Elems)
			}
		} else if a.Chunks != nil {
			r.Chunks = make([][]Value, len(a.Chunks))
			copy(r.Chunks, a.Chunks) // chunks shared; copied on write below
			r.sharedChunks = true
		}
	}
	if r.N <= arrFlatMax {
		if r.Elems == nil {
			r.Elems = make([]Value, r.N)
			for k := range r.Elems {
				r.Elems[k] = r.Def
			}
		}
		r.Elems[i] = v
		return r
	}
	if r.Chunks == nil {
		r.Chunks = make([][]Value, (r.N+arrChunk-1)/arrChunk)
	}
	ci := i / arrChunk
	c := r.Chunks[ci]
	if c == nil {
		c = make([]Value, arrChunk)
		for k := range c {
			c[k] = r.Def
		}
		r.Chunks[ci] = c
		r.markOwned(ci)
	} else if !r.chunkOwned(ci) {
		nc := make([]Value, arrChunk)
		copy(nc, c)
		c = nc
		r.Chunks[ci] = c
		r.markOwned(ci)
	}
	c[i%arrChunk] = v
	return r
}

func (a *ArrVal) chunkOwned(ci int) bool {
	if !a.sharedChunks {
		return true
	}
	return a.ownedChunks != nil && a.ownedChunks[ci]
}

func (a *ArrVal) markOwned(ci int) {
	if !a.sharedChunks {
		return
	}
	if a.ownedChunks == nil {
		a.ownedChunks = map[int]bool{}
	}
	a.ownedChunks[ci] = true
}

type IfaceVal struct {
	T types.Type // nil => nil interface
	V Value
}

type FuncVal struct {
	Fn     *ssa.Function
	Env    []Value
	Native string // intrinsic name when Fn == nil
}

type MapVal struct{ Obj ObjID }
type ChanVal struct{ Obj ObjID }
type TupleVal []Value
type FloatVal float64

type MapObj struct {
	Keys []Value
	Vals []Value
}

type ChanObj struct {
	Cap    int
	Buf    []Value
	Closed bool
}

// freeze clears in-place ownership of arrays nested in an aggregate that is being copied by value.
func freeze(v Value) {
	switch x := v.(type) {
	case *ArrVal:
		if x.owner != 0 {
			x.owner = 0
		}
		if x.N <= 64 && x.Elems != nil {
			for _, e := range x.Elems {
				switch e.(type) {
				case *ArrVal, StructVal:
					freeze(e)
				}
			}
		}
	case StructVal:
		for _, f := range x {
			switch f.(type) {
			case *ArrVal, StructVal:
				freeze(f)
			}
		}
	}
}

// ---------- types ----------

func intWidth(t types.Type) (w uint8, signed bool, ok bool) {
	b, isb := t.Underlying().(*types.Basic)
	if !isb {
		return 0, false, false
	}
	switch b.Kind() {
	case types.Bool, types.UntypedBool:
		return 0, false, true
	case types.Int8:
		return 8, true, true
	case types.Int16:
		return 16, true, true
	case types.Int32, types.UntypedRune:
		return 32, true, true
	case types.Int64, types.Int, types.UntypedInt:
		return 64, true, true
	case types.Uint8:
		return 8, false, true
	case types.Uint16:
		return 16, false, true
	case types.Uint32:
		return 32, false, true
	case types.Uint64, types.Uint, types.Uintptr:
		return 64, false, true
	}
	return 0, false, false
}

func isFloat(t types.Type) bool {
	b, ok := t.Underlying().(*types.Basic)
	return ok && b.Info()&types.IsFloat != 0
}

func isString(t types.Type) bool {
	b, ok := t.Underlying().(*types.Basic)
	return ok && b.Info()&types.IsString != 0
}

func (ex *Exec) zero(t types.Type) Value {
	switch u := t.Underlying().(type) {
	case *types.Basic:
		if w, _, ok := intWidth(t); ok {
			return C(w, 0)
		}
		if u.Info()&types.IsString != 0 {
			return StrVal{}
		}
		if u.Info()&types.IsFloat != 0 {
			return FloatVal(0)
		}
		if u.Kind() == types.UnsafePointer {
			return PtrVal{}
		}
		if u.Kind() == types.UntypedNil || u.Kind() == types.Invalid {
			return nil
		}
		panic("zero: basic " + u.String())
	case *types.Pointer:
		return PtrVal{}
	case *types.Slice:
		return SliceVal{}
	case *types.Map:
		return MapVal{}
	case *types.Chan:
		return ChanVal{}
	case *types.Interface:
		return IfaceVal{}
	case *types.Signature:
		return (*FuncVal)(nil)
	case *types.Struct:
		if n, ok := t.(*types.Named); ok && n.Obj().Name() == "Value" && n.Obj().Pkg() != nil && n.Obj().Pkg().Path() == "reflect" {
			return RValue{}
		}
		sv := make(StructVal, u.NumFields())
		for i := range sv {
			sv[i] = ex.zero(u.Field(i).Type())
		}
		return sv
	case *types.Array:
		return newArr(int(u.Len()), ex.zero(u.Elem()))
	case *types.Tuple:
		tv := make(TupleVal, u.Len())
		for i := range tv {
			tv[i] = ex.zero(u.At(i).Type())
		}
		return tv
	}
	panic("zero: " + t.String())
}

func fmtValue(v Value) string {
	switch x := v.(type) {
	case nil:
		return "<nil>"
	case *Term:
		return x.String()
	case StrVal:
		if s, ok := x.Concrete(); ok {
			return fmt.Sprintf("%q", s)
		}
		return fmt.Sprintf("str[%d]", len(x.T))
	case PtrVal:
		if x.IsNil() {
			return "nilptr"
		}
		return "&" + x.Key()
	case SliceVal:
		return fmt.Sprintf("slice(%s+%d,%d,%d)", x.Base.Key(), x.Off, x.Len, x.Cap)
	case StructVal:
		var sb strings.Builder
		sb.WriteString("{")
		for i, f := range x {
			if i > 0 {
				sb.WriteString(", ")
			}
			if i > 8 {
				sb.WriteString("…")
				break
			}
			sb.WriteString(fmtValue(f))
		}
		sb.WriteString("}")
		return sb.String()
	case *ArrVal:
		return fmt.Sprintf("arr[%d]", x.N)
	case IfaceVal:
		if x.T == nil {
			return "nil-iface"
		}
		return "iface(" + x.T.String() + ":" + fmtValue(x.V) + ")"
	case *FuncVal:
		if x == nil {
			return "nilfunc"
		}
		if x.Fn != nil {
			return "func " + x.Fn.String()
		}
		return "native " + x.Native
	case MapVal:
		return fmt.Sprintf("map#%d", x.Obj)
	case ChanVal:
		return fmt.Sprintf("chan#%d", x.Obj)
	case TupleVal:
		var sb strings.Builder
		sb.WriteString("(")
		for i, f := range x {
			if i > 0 {
				sb.WriteString(", ")
			}
			sb.WriteString(fmtValue(f))
		}
		sb.WriteString(")")
		return sb.String()
	case FloatVal:
		return fmt.Sprintf("%g", float64(x))
	}
	return fmt.Sprintf("%T", v)
}
