package main

import (
	"fmt"
	"go/types"
	"os"
	"strings"
	"time"

	"golang.org/x/tools/go/ssa"
)

// Exec is one worker: term table, solver, DFS work list.
type Exec struct {
	prog        *Program
	tt          *TermTable
	solver      *Solver
	alt         *Solver // cvc5 --solve-bv-as-int for arithmetic kernels (lazy)
	abs         *Solver // z3 with division abstracted (lazy)
	cross       *Solver // second opinion (VH_CROSS), lazy
	work        []*State
	cfg         Config
	stats       ExecStats
	out         *ItemResult
	funcs       map[string]int // functions interpreted (call counts)
	debug       bool
	lastFromAlt bool
}

type Config struct {
	Unwind      int
	MaxSteps    int64
	TimeoutMs   int
	MaxPaths    int
	SplitCap    int // max values in a case split of a symbolic size
	Deadline    time.Time
	Trace       bool
	SecondCheck bool
	MaxAlloc    int
	CutCalls    []string
	// SplitCutLarge: a case split with more than SplitCap feasible values explores the values below SplitCap and
	// cuts the rest instead of ending the path as inconclusive (spec policy "splitcap": "cut")
	SplitCutLarge bool
}

type ExecStats struct {
	Paths, Infeasible int
	Instrs            int64
	Forks             int
	MaxDepth          int
}

type unsupported struct{ msg string }

func unsup(format string, a ...interface{}) {
	panic(unsupported{fmt.Sprintf(format, a...)})
}

// ---------- decisions / forking ----------

// decide returns a payload chosen among alternatives. alts is evaluated only when not replaying.
type alt struct {
	cond    *Term // nil => true
	payload int64
}

func (ex *Exec) decide(st *State, gen func() []alt) int64 {
	if st.decIdx < len(st.decs) {
		r := st.decs[st.decIdx]
		st.decIdx++
		return int64(r)
	}
	alts := gen()
	if len(alts) == 0 {
		st.done = true
		st.fail = &Failure{Kind: "infeasible"}
		panic(pathEnd{})
	}
	for _, a := range alts[1:] {
		n := st.fork()
		if a.cond != nil {
			n.pc = append(n.pc, a.cond)
		}
		n.decs = append(n.decs[:st.decIdx:st.decIdx], int(a.payload))
		n.decIdx = 0
		ex.work = append(ex.work, n)
		ex.stats.Forks++
	}
	if alts[0].cond != nil {
		st.pc = append(st.pc, alts[0].cond)
	}
	st.decs = append(st.decs, int(alts[0].payload))
	st.decIdx++
	return alts[0].payload
}

type pathEnd struct{}

// feasible asks the solver whether pc ∧ c is satisfiable. unknown counts as feasible.
func (ex *Exec) feasible(st *State, c *Term) bool {
	if c.IsConst() {
		return c.Val != 0
	}
	to := ex.cfg.TimeoutMs
	if isHardQuery(st.pc, c) && to > 3000 {
		to = 3000 // feasibility of arithmetic-heavy branches: unknown keeps the branch anyway
	}
	r := ex.checkT(st.pc, c, to)
	ex.donePending()
	if r == Unknown {
		ex.out.UnknownBranch++
	}
	return r != Unsat
}

func (ex *Exec) check(pc []*Term, c *Term) SatResult {
	return ex.checkT(pc, c, ex.cfg.TimeoutMs)
}

func isHardQuery(pc []*Term, c *Term) bool {
	h, _ := queryKind(pc, c)
	return h
}

func queryKind(pc []*Term, c *Term) (hardSym, hardConst bool) {
	if c != nil {
		hardSym, hardConst = c.Hard, c.HardC
	}
	for _, p := range pc {
		hardSym = hardSym || p.Hard
		hardConst = hardConst || p.HardC
	}
	return
}

// checkT decides pc ∧ c. Queries containing division by a symbolic divisor go first to an over-approximating
// solver instance (uninterpreted division + lemmas): unsat there is unsat. Queries dividing by constants go to
// cvc5's integer encoding before z3; everything else to z3 with cvc5 as the fall-back.
func (ex *Exec) checkT(pc []*Term, c *Term, timeoutMs int) SatResult {
	if !ex.cfg.Deadline.IsZero() && time.Now().After(ex.cfg.Deadline) {
		panic(deadlineHit{})
	}
	ex.lastFromAlt = false
	hardSym, hardConst := queryKind(pc, c)
	if hardSym {
		if ex.abs == nil {
			ex.abs = NewSolver("z3", ex.cfg.TimeoutMs, ex.tt)
			ex.abs.abstract = true
		}
		ex.abs.SetTimeout(2000)
		r := ex.abs.Check(pc, c)
		ex.abs.DonePending()
		if r == Unsat {
			ex.out.AbsDecided++
			return Unsat
		}
	}
	tryAlt := func() SatResult {
		if !ex.prog.haveCvc5 {
			return Unknown
		}
		if ex.alt == nil {
			ex.alt = NewSolver("cvc5-int", ex.cfg.TimeoutMs, ex.tt)
		}
		r2 := ex.alt.Check(pc, c)
		if r2 != Unknown {
			ex.out.AltDecided++
			ex.lastFromAlt = true
		}
		return r2
	}
	if hardConst {
		// division by constants: a quick attempt with z3, then cvc5's integer encoding, then z3 with the full budget
		quick := 1500
		if timeoutMs < quick {
			quick = timeoutMs
		}
		ex.solver.SetTimeout(quick)
		if r := ex.solver.Check(pc, c); r != Unknown {
			return r
		}
		if r := tryAlt(); r != Unknown {
			return r
		}
	}
	ex.solver.SetTimeout(timeoutMs)
	r := ex.solver.Check(pc, c)
	if r == Unknown && !hardConst {
		if r2 := tryAlt(); r2 != Unknown {
			return r2
		}
	}
	if crossSolver != "" && r != Unknown {
		// VH_CROSS=z3-old|cvc5: every verdict of the primary solver is asked again from a second solver; a
		// disagreement makes the item inconclusive (run once per encoding change, see DESIGN.md)
		if ex.cross == nil {
			ex.cross = NewSolver(crossSolver, ex.cfg.TimeoutMs, ex.tt)
		}
		r2 := ex.cross.Check(pc, c)
		ex.cross.DonePending()
		ex.out.CrossChecked++
		if r2 != Unknown && r2 != r {
			ex.out.Inconclusive = append(ex.out.Inconclusive, fmt.Sprintf("SOLVER DISAGREEMENT: primary %v, %s %v", r, crossSolver, r2))
		} else if r2 == Unknown {
			ex.out.CrossUnknown++
		}
	}
	return r
}

var crossSolver = os.Getenv("VH_CROSS")

type deadlineHit struct{}

// branch decides a boolean condition, forking when both sides are feasible.
func (ex *Exec) branch(st *State, c *Term) bool {
	if c.IsConst() {
		return c.Val != 0
	}
	p := ex.decide(st, func() []alt {
		nc := ex.tt.Not(c)
		var alts []alt
		if ex.feasible(st, c) {
			alts = append(alts, alt{c, 1})
			if ex.feasible(st, nc) {
				alts = append(alts, alt{nc, 0})
			}
		} else {
			alts = append(alts, alt{nc, 0})
		}
		return alts
	})
	return p != 0
}

// choose forks over n unconditional alternatives (harness-level nondeterminism).
func (ex *Exec) chooseN(st *State, n int) int {
	return int(ex.decide(st, func() []alt {
		alts := make([]alt, n)
		for i := range alts {
			alts[i] = alt{nil, int64(i)}
		}
		return alts
	}))
}

// concretize enumerates the feasible values of t (signed interpretation irrelevant; returns raw value).
func (ex *Exec) concretize(st *State, t *Term, why string) uint64 {
	if t.IsConst() {
		return t.Val
	}
	return uint64(ex.decide(st, func() []alt {
		var alts []alt
		var excl []*Term
		cap_ := ex.cfg.SplitCap
		if st.splitCap > 0 {
			cap_ = st.splitCap
		}
		if ex.cfg.SplitCutLarge {
			// policy "cut": values below the cap are explored one by one; if larger values are feasible as well
			// their continuation is cut (counted, stated as a bound). Obligations at the site (bounds checks,
			// allocation limit) were discharged for every value before this point.
			large := ex.tt.Not(ex.tt.Ult(t, C(t.W, uint64(cap_))))
			if r := ex.solver.Check(st.pc, large); r != Unsat {
				ex.solver.DonePending()
				if ex.out.Cuts == nil {
					ex.out.Cuts = map[string]int{}
				}
				ex.out.Cuts["values >= split cap of "+why]++
				excl = append(excl, ex.tt.Not(large))
			}
		}
		for {
			cond := tTrue
			for _, e := range excl {
				cond = ex.tt.And(cond, e)
			}
			var r SatResult
			if cond.IsConst() {
				r = ex.solver.Check(st.pc, nil)
			} else {
				r = ex.solver.Check(st.pc, cond)
			}
			if r == Unsat {
				break
			}
			if r == Unknown {
				ex.solver.DonePending()
				unsup("case split of %s: solver unknown", why)
			}
			v := ex.solver.GetValue(t)
			ex.solver.DonePending()
			if len(alts) >= cap_ {
				st.fail = &Failure{Kind: "splitcap", ID: why, Msg: fmt.Sprintf("more than %d feasible values for %s (e.g. %d)", cap_, why, sext64(v, t.W))}
				st.done = true
				panic(pathEnd{})
			}
			alts = append(alts, alt{ex.tt.Eq(t, C(t.W, v)), int64(v)})
			excl = append(excl, ex.tt.Ne(t, C(t.W, v)))
		}
		return alts
	}))
}

// concretizeUpTo is concretize that gives up (returns ok=false, adding nothing to the path condition) when t has
// more than k feasible values.
func (ex *Exec) concretizeUpTo(st *State, t *Term, why string, k int) (uint64, bool) {
	if t.IsConst() {
		return t.Val, true
	}
	const keep = int64(-1) << 62
	r := ex.decide(st, func() []alt {
		var alts []alt
		var excl []*Term
		for {
			cond := tTrue
			for _, e := range excl {
				cond = ex.tt.And(cond, e)
			}
			var r SatResult
			if cond.IsConst() {
				r = ex.solver.Check(st.pc, nil)
			} else {
				r = ex.solver.Check(st.pc, cond)
			}
			if r == Unsat {
				break
			}
			if r == Unknown {
				ex.solver.DonePending()
				return []alt{{nil, keep}}
			}
			v := ex.solver.GetValue(t)
			ex.solver.DonePending()
			if len(alts) >= k {
				return []alt{{nil, keep}}
			}
			alts = append(alts, alt{ex.tt.Eq(t, C(t.W, v)), int64(v)})
			excl = append(excl, ex.tt.Ne(t, C(t.W, v)))
		}
		return alts
	})
	if r == keep {
		return 0, false
	}
	return uint64(r), true
}

// forceLen turns a slice of symbolic length into one of concrete length by case split.
func (ex *Exec) forceLen(st *State, s SliceVal) SliceVal {
	if !s.SymLen() {
		return s
	}
	n := int(ex.concretize(st, s.LenT, "slice length"))
	s.Len, s.LenT = n, nil
	return s
}

// ---------- value helpers ----------

func (ex *Exec) iteValue(c *Term, a, b Value) Value {
	if c.IsConst() {
		if c.Val != 0 {
			return a
		}
		return b
	}
	switch x := a.(type) {
	case *Term:
		if y, ok := b.(*Term); ok {
			return ex.tt.Ite(c, x, y)
		}
	case StructVal:
		if y, ok := b.(StructVal); ok && len(x) == len(y) {
			n := make(StructVal, len(x))
			for i := range x {
				n[i] = ex.iteValue(c, x[i], y[i])
			}
			return n
		}
	case PtrVal:
		if y, ok := b.(PtrVal); ok && samePtr(x, y) {
			return x
		}
	case StrVal:
		if y, ok := b.(StrVal); ok && x.Len() == y.Len() {
			ts := make([]*Term, x.Len())
			for i := range ts {
				ts[i] = ex.tt.Ite(c, x.At(i), y.At(i))
			}
			return mkStr(ts)
		}
	case FloatVal:
		if y, ok := b.(FloatVal); ok && x == y {
			return x
		}
	}
	unsup("iteValue over %T / %T", a, b)
	return nil
}

func (ex *Exec) selectElem(arr *ArrVal, lo, n int, idx *Term) Value {
	if n == 0 {
		unsup("selectElem on empty range")
	}
	r := arr.Get(lo + n - 1)
	for i := n - 2; i >= 0; i-- {
		r = ex.iteValue(ex.tt.Eq(idx, C(idx.W, uint64(i))), arr.Get(lo+i), r)
	}
	return r
}

// valEq builds the Go == relation as a boolean term.
func (ex *Exec) valEq(a, b Value) *Term {
	tt := ex.tt
	switch x := a.(type) {
	case nil:
		return B(b == nil)
	case *Term:
		y, ok := b.(*Term)
		if !ok {
			unsup("valEq term vs %T", b)
		}
		return tt.Eq(x, y)
	case StrVal:
		y := b.(StrVal)
		if x.Len() != y.Len() {
			return tFalse
		}
		if x.T == nil && y.T == nil {
			return B(x.S == y.S)
		}
		r := tTrue
		for i := 0; i < x.Len(); i++ {
			r = tt.And(r, tt.Eq(x.At(i), y.At(i)))
		}
		return r
	case PtrVal:
		y := b.(PtrVal)
		if x.Sym != nil || y.Sym != nil {
			unsup("compare symbolic pointers")
		}
		return B(samePtr(x, y))
	case FloatVal:
		return B(x == b.(FloatVal))
	case IfaceVal:
		y := b.(IfaceVal)
		if x.T == nil || y.T == nil {
			return B(x.T == nil && y.T == nil)
		}
		if !types.Identical(x.T, y.T) {
			return tFalse
		}
		return ex.valEq(x.V, y.V)
	case StructVal:
		y := b.(StructVal)
		r := tTrue
		for i := range x {
			r = tt.And(r, ex.valEq(x[i], y[i]))
		}
		return r
	case *ArrVal:
		y := b.(*ArrVal)
		r := tTrue
		for i := 0; i < x.N; i++ {
			r = tt.And(r, ex.valEq(x.Get(i), y.Get(i)))
		}
		return r
	case MapVal:
		return B(x.Obj == b.(MapVal).Obj)
	case ChanVal:
		return B(x.Obj == b.(ChanVal).Obj)
	case *FuncVal:
		y := b.(*FuncVal)
		if x == nil || y == nil {
			return B(x == nil && y == nil)
		}
		unsup("comparing non-nil funcs")
	case SliceVal:
		y := b.(SliceVal)
		// only comparison with nil is legal in Go
		if y.IsNil() {
			return B(x.IsNil())
		}
		if x.IsNil() {
			return B(y.IsNil())
		}
		unsup("slice comparison")
	case *RType:
		y, ok := b.(*RType)
		return B(ok && types.Identical(x.T, y.T))
	}
	unsup("valEq on %T", a)
	return nil
}

func (ex *Exec) noteFunc(fn *ssa.Function) {
	if ex.funcs != nil {
		ex.funcs[fn.String()]++
	}
}

func isRepoPkg(p *ssa.Package) bool {
	return p != nil && strings.HasPrefix(p.Pkg.Path(), "github.com/segmentio/kafka-go")
}

func (ex *Exec) donePending() {
	ex.solver.DonePending()
	if ex.alt != nil {
		ex.alt.DonePending()
	}
}
